"""
Reference model of setigen's voltage quantisers (RealQuantizer / ComplexQuantizer / quantize_real /
quantize_complex), written from the property statement C09 and the class documentation -- not from the code.

    q(x) = clip( round( (sigma_t / sigma_d) * (x - mu_d) + mu_t ), -2^(b-1), 2^(b-1) - 1 )

* (mu_d, sigma_d) are *cached* estimates: mean and (population) standard deviation of the first
  min(len(x), stats_calc_num_samples) samples of the array seen on a refresh call (``prefix_stats``);
* refresh calls are calls 0, p, 2p, ... since construction / the last cache reset for a period p > 0 and only
  call 0 for p <= 0 (``RefreshSchedule``);
* a supplied custom deviation replaces sigma_d (the cached mean is still used);
* zero deviation and a zero-variance (constant) input: every output is the target mean, rounded and clipped;
  zero deviation and a non-constant input: the formula is undefined -> the reference does not decide the values
  (``Expect.decided`` is False; range / dtype / monotonicity still apply);
* rounding ties are never decided here: ``Expect.lo[i] <= q[i] <= Expect.hi[i]`` accepts every integer within
  0.5 + eps of the pre-rounding value y computed in long double, eps scaled to the conditioning of y
  (soundness rule 1 of DESIGN.md section 3).

Pieces (all reusable by other checks): ``target_std_from_fwhm``, ``q_range``, ``prefix_stats`` / ``Stats``,
``pre_round``, ``accept_bounds``, ``expect`` / ``Expect``, ``mismatches``, ``monotone_violations``,
``RefreshSchedule``, ``RefRealQuantizer``, ``RefComplexQuantizer``, ``split_custom_stds``.
"""
from fractions import Fraction as Fr
import numpy as np

LD = np.longdouble
U = 2.0 ** -53                 # unit round-off of the implementation's arithmetic (binary64)
K_COND = 64                    # safety factor on the first-order error bound (covers pairwise sums of <= 2^20 terms)
EXACT_MAX = 256                # prefixes up to this length get exact rational statistics
FWHM_PER_STD = LD(2) * np.sqrt(LD(2) * np.log(LD(2)))     # FWHM of a gaussian = 2 sqrt(2 ln 2) sigma


def target_std_from_fwhm(fwhm):
    """Target standard deviation for a target full width at half maximum (long double)."""
    return LD(fwhm) / FWHM_PER_STD


def q_range(num_bits):
    """Inclusive signed range of a num_bits quantiser."""
    return -(1 << (num_bits - 1)), (1 << (num_bits - 1)) - 1


# ----------------------------------------------------------------------------- prefix statistics
def _ld(fr):
    """Fraction -> long double (two-term split, ~106 significant bits before the final rounding)."""
    hi = float(fr)
    lo = float(fr - Fr(hi))
    return LD(hi) + LD(lo)


class Stats(object):
    """Mean / population standard deviation of a statistics prefix.

    mean, std : long double;  n : prefix length;  maxabs : largest |sample| in the prefix (conditioning scale);
    zero : True when the prefix is constant (deviation exactly zero);  tag : free label of the source array.
    """
    __slots__ = ('mean', 'std', 'n', 'maxabs', 'zero', 'tag')

    def __init__(self, mean, std, n, maxabs, zero, tag=None):
        self.mean, self.std, self.n, self.maxabs, self.zero, self.tag = mean, std, n, maxabs, zero, tag

    def __repr__(self):
        return 'Stats(mean=%r, std=%r, n=%d, zero=%r, tag=%r)' % (float(self.mean), float(self.std), self.n,
                                                                  self.zero, self.tag)


def prefix_stats(x, num_samples, tag=None):
    """Statistics of the first min(len(x), num_samples) samples of a real array."""
    x = np.asarray(x, dtype=float)
    n = int(min(len(x), int(num_samples)))
    if n <= 0:
        raise ValueError('empty statistics prefix')
    v = x[:n]
    maxabs = float(np.max(np.abs(v)))
    if np.all(v == v[0]):
        return Stats(LD(v[0]), LD(0), n, maxabs, True, tag)
    if n <= EXACT_MAX:
        fr = [Fr(float(t)) for t in v]
        mu = sum(fr) / n
        var = sum((t - mu) ** 2 for t in fr) / n
        return Stats(_ld(mu), np.sqrt(_ld(var)), n, maxabs, False, tag)
    w = v.astype(LD)
    mu = w.sum() / LD(n)
    mu = mu + (w - mu).sum() / LD(n)             # one correction step
    d = w - mu
    return Stats(mu, np.sqrt((d * d).sum() / LD(n)), n, maxabs, False, tag)


def stats_close(mean, std, ref, k=K_COND):
    """Is an implementation's double (mean, std) estimate within rounding distance of the reference Stats?
    Absolute tolerance k * u * maxabs on both (the estimator subtracts numbers of size maxabs)."""
    tol = LD(k * U) * LD(ref.maxabs) + LD(5e-324)
    try:
        m, s = LD(float(mean)), LD(float(std))
    except (TypeError, ValueError):
        return False
    if not (np.isfinite(m) and np.isfinite(s)):
        return False
    return bool(abs(m - ref.mean) <= tol and abs(s - ref.std) <= tol)


# ----------------------------------------------------------------------------- affine map, rounding, clipping
def pre_round(x, data_mean, data_std, target_mean, target_std):
    """y = (sigma_t / sigma_d) (x - mu_d) + mu_t in long double (the value before rounding)."""
    x = np.asarray(x, dtype=float).astype(LD)
    f = LD(target_std) / LD(data_std)
    return f * (x - LD(data_mean)) + LD(target_mean)


def accept_bounds(y, eps, num_bits):
    """Smallest / largest integer that clip(round(y')) can be for |y' - y| <= eps under ANY tie rule."""
    lo, hi = q_range(num_bits)
    a = np.clip(y - LD(0.5) - eps, LD(lo - 1), LD(hi + 1))
    b = np.clip(y + LD(0.5) + eps, LD(lo - 1), LD(hi + 1))
    qa = np.clip(np.ceil(a).astype(np.int64), lo, hi)
    qb = np.clip(np.floor(b).astype(np.int64), lo, hi)
    return qa, qb


class Expect(object):
    """What a quantiser call may return.  decided=False: values not specified (only range etc. apply)."""
    __slots__ = ('lo', 'hi', 'decided', 'zero_dev', 'y', 'eps', 'loose')

    def __init__(self, lo, hi, decided, zero_dev, y=None, eps=None, loose=0):
        self.lo, self.hi, self.decided, self.zero_dev, self.y, self.eps, self.loose = \
            lo, hi, decided, zero_dev, y, eps, loose


def expect(x, data_mean, data_std, target_mean, target_std, num_bits,
           stats_maxabs=0.0, mean_estimated=True, std_estimated=True, k=K_COND):
    """Acceptance bounds for quantising the real array x with the given data statistics.

    stats_maxabs : magnitude of the samples the statistics were estimated from (their rounding error scales
    with it); *_estimated : whether mean / deviation came out of a floating-point estimator (True) or were
    supplied by the caller (False; then they carry no estimation error).
    """
    x = np.asarray(x, dtype=float)
    n = len(x)
    lo, hi = q_range(num_bits)
    ku = LD(k * U)
    if LD(data_std) == 0:
        if n == 0 or np.all(x == x[0]):
            y = np.full(n, LD(target_mean), dtype=LD)
            eps = np.full(n, ku * abs(LD(target_mean)), dtype=LD)
            qa, qb = accept_bounds(y, eps, num_bits)
            return Expect(qa, qb, True, True, y, eps)
        return Expect(np.full(n, lo, dtype=np.int64), np.full(n, hi, dtype=np.int64), False, True)
    xl = x.astype(LD)
    f = abs(LD(target_std) / LD(data_std))
    y = pre_round(x, data_mean, data_std, target_mean, target_std)
    scaled = f * np.abs(xl - LD(data_mean))                    # |f (x - mu)|
    eps = scaled * LD(4) + np.abs(y) + abs(LD(target_mean))    # arithmetic rounding of the map itself
    eps = eps + f * (np.abs(xl) + abs(LD(data_mean)))          # rounding of x - mu
    if mean_estimated:
        eps = eps + f * LD(stats_maxabs)
    if std_estimated:
        eps = eps + scaled * (LD(stats_maxabs) / abs(LD(data_std)))
    eps = eps * ku
    qa, qb = accept_bounds(y, eps, num_bits)
    loose = int(np.count_nonzero((eps > LD(0.25)) & (qa != qb)))
    return Expect(qa, qb, True, False, y, eps, loose)


def mismatches(q, exp):
    """Indices where an integer-valued output lies outside the acceptance bounds."""
    q = np.asarray(q)
    return np.nonzero((q < exp.lo) | (q > exp.hi))[0]


def monotone_violations(x, q):
    """Pairs (i, j), adjacent in the sorted order, with x[i] <= x[j] but q[i] > q[j], or x[i] == x[j] and
    q[i] != q[j]; exact, no tolerance."""
    x = np.asarray(x, dtype=float)
    q = np.asarray(q)
    order = np.argsort(x, kind='stable')
    xs, qs = x[order], q[order]
    # decreasing output along the sorted input, or equal inputs with different outputs (q is a function of x)
    bad = np.nonzero((qs[1:] < qs[:-1]) | ((xs[1:] == xs[:-1]) & (qs[1:] != qs[:-1])))[0]
    return [(int(order[i]), int(order[i + 1])) for i in bad]


# ----------------------------------------------------------------------------- refresh schedule
class RefreshSchedule(object):
    """Calls 0, p, 2p, ... since the last reset refresh the estimates (p > 0); only call 0 for p <= 0."""

    def __init__(self, period):
        self.period = int(period)
        self.calls = 0                       # calls since construction / last reset

    def reset(self):
        self.calls = 0

    def due(self):
        if self.period > 0:
            return self.calls % self.period == 0
        return self.calls == 0

    def tick(self):
        self.calls += 1

    def phase(self):
        """Canonical phase: calls since the last refresh, or 'fresh' / 'frozen' for a non-positive period."""
        if self.period > 0:
            return self.calls % self.period
        return 'fresh' if self.calls == 0 else 'frozen'


class Plan(object):
    """The statistics a call must use: cached Stats, the deviation actually applied, and its provenance."""
    __slots__ = ('stats', 'data_std', 'std_estimated', 'refreshed', 'custom_std')

    def __init__(self, stats, data_std, std_estimated, refreshed, custom_std):
        self.stats, self.data_std, self.std_estimated, self.refreshed, self.custom_std = \
            stats, data_std, std_estimated, refreshed, custom_std

    def key(self):
        return (self.stats.tag, self.stats.n, self.custom_std)


class RefRealQuantizer(object):
    """State machine of a real quantiser: cached prefix statistics + refresh schedule."""

    def __init__(self, target_mean=0, target_fwhm=32, num_bits=8, stats_calc_period=1,
                 stats_calc_num_samples=10000, target_std=None, stats_fn=prefix_stats):
        self.target_mean = target_mean
        self.target_std = target_std_from_fwhm(target_fwhm) if target_std is None else LD(target_std)
        self.num_bits = num_bits
        self.num_samples = stats_calc_num_samples
        self.schedule = RefreshSchedule(stats_calc_period)
        self.cache = None
        self.stats_fn = stats_fn

    def reset(self):
        self.schedule.reset()
        self.cache = None

    def plan(self, x, custom_std=None, tag=None):
        """Advance by one call on array x; returns the Plan for that call."""
        refreshed = self.schedule.due()
        if refreshed:
            self.cache = self.stats_fn(x, self.num_samples, tag)
        self.schedule.tick()
        if custom_std is None:
            return Plan(self.cache, self.cache.std, True, refreshed, None)
        return Plan(self.cache, LD(custom_std), False, refreshed, float(custom_std))

    def expect(self, x, plan):
        return expect(x, plan.stats.mean, plan.data_std, self.target_mean, self.target_std, self.num_bits,
                      stats_maxabs=plan.stats.maxabs, mean_estimated=True, std_estimated=plan.std_estimated)

    def step(self, x, custom_std=None, tag=None):
        p = self.plan(x, custom_std, tag)
        return p, self.expect(x, p)

    def state(self):
        return (self.schedule.phase(), None if self.cache is None else (self.cache.tag, self.cache.n))


def split_custom_stds(custom_stds):
    """None -> (None, None); scalar s -> (s, s); pair -> pair (real, imaginary)."""
    if custom_stds is None:
        return None, None
    try:
        if len(custom_stds) == 2:
            return custom_stds[0], custom_stds[1]
    except TypeError:
        return custom_stds, custom_stds
    raise ValueError('custom_stds must be None, a scalar or a pair')


class RefComplexQuantizer(object):
    """Two independent real quantisers, one per component, each with its own estimates."""

    def __init__(self, **kw):
        self.r = RefRealQuantizer(**kw)
        self.i = RefRealQuantizer(**kw)

    def reset(self):
        self.r.reset()
        self.i.reset()

    def plan(self, z, custom_stds=None, tag_r=None, tag_i=None):
        z = np.asarray(z)
        sr, si = split_custom_stds(custom_stds)
        return self.r.plan(np.real(z), sr, tag_r), self.i.plan(np.imag(z), si, tag_i)

    def state(self):
        return self.r.state(), self.i.state()
