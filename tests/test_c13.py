"""
Plain replay test for C13 (constant-signal helper == general injection).

Run with the tree under test first on the path, e.g.
    PYTHONPATH=/tmp/wt-c13:/verif /venv/bin/python -m pytest -q -p no:cacheprovider /verif/tests/test_c13.py
The cases are the smallest counterexamples the check found on the pinned tree (D15, D16) plus a few
ordinary configurations; every one goes through the same case functions as `./check C13`.
"""
import pytest

from mc import engine
from mc.checks import c13

engine._silence()


def _c(**kw):
    c = dict(geom='toy', asc=True, tchans=8, pos=24.0, drift=0.0, width=1.5, prof='box', smear=False,
             style='plain', seed=0)
    c.update(kw)
    return c


CONST = [
    _c(tchans=1, width=0.3),                                   # D16: empty bounding box (width < 1/2 channel)
    _c(tchans=1, width=0.05, prof='sinc2'),                    # D16
    _c(width=0.3, drift=0.25, prof='gaussian', pos=24.5),      # D16: one-sided box
    _c(width=1.0, drift=0.5, pos=24.5, prof='voigt'),          # D16: exclusive upper index
    _c(smear=True),                                            # D15: zero sub-steps
    _c(smear=True, drift=-1.5, width=2.5, prof='sinc2'),       # D15: negative sub-steps
    _c(smear=True, drift=-4.0, width=10.0, prof='lorentzian', style='quantity', asc=False),
    _c(drift=2.5, width=5.0, prof='voigt', geom='bl'),
    _c(pos=-3.0, drift=1.0, width=2.5, prof='sinc2'),          # enters the band from below
    _c(pos=-40.0, drift=-1.0, width=10.0, prof='gaussian'),    # wholly outside: empty range, not fs[0:-k]
    _c(pos=87.0, drift=1.0, width=10.0, prof='box', smear=True),
    _c(pos=50.0, drift=-1.0, width=1.0, prof='box', asc=False),
]


@pytest.mark.parametrize('case', CONST, ids=[engine.sha(c) for c in CONST])
def test_helper_equals_general_route(case):
    r = c13.case_const(case)
    assert r['viol'] == []


@pytest.mark.parametrize('smear', [False, True])
@pytest.mark.parametrize('prof', c13.PROFS)
def test_negative_drift_is_mirror_image(prof, smear):
    for width in (0.3, 2.5):
        for pos in (24.0, 24.5):
            r = c13.case_mirror(_c(prof=prof, smear=smear, drift=1.5, width=width, pos=pos))
            assert r['viol'] == []


@pytest.mark.parametrize('prof', c13.PROFS)
def test_zero_drift_smeared_equals_unsmeared(prof):
    r = c13.case_zero_smear(dict(geom='toy', asc=True, tchans=8, pos=24.0, width=2.5, prof=prof,
                                 style='plain', seed=0))
    assert r['viol'] == []
    assert r.get('nontrivial')
