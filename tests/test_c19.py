"""Plain replays of the C19 defects (run with PYTHONPATH=<tree>:/verif, no explorer needed).

  D26  split_waterfall_generator accumulates window edges in floating point -> last window dropped
  D27  split_array: ragged tiles make np.array(split_data) raise on current numpy
"""
import atexit, logging, os, shutil, tempfile
import numpy as np

logging.disable(logging.CRITICAL)
import setigen as stg
from mc.refs import sigproc as S


def test_d26_two_windows_of_two_channels():
    d = tempfile.mkdtemp(prefix='c19test-')
    atexit.register(shutil.rmtree, d, ignore_errors=True)
    p = os.path.join(d, 'a.fil')
    pay = np.arange(12, dtype='f4').reshape(3, 4)
    S.write_fil(p, S.default_header(4, 100.0, -0.1, 18.25), pay)
    pieces = list(stg.split_waterfall_generator(p, 2))
    assert len(pieces) == 2
    assert np.array_equal(pieces[0].data[:, 0, :], pay[:, 0:2])
    assert np.array_equal(pieces[1].data[:, 0, :], pay[:, 2:4])
    assert len(stg.get_mean_distribution(p, 2)) == 2


def test_d27_ragged_split_array():
    data = np.arange(6.0).reshape(2, 3)
    tiles = stg.split_array(data, f_sample_num=2)
    assert len(tiles) == 2
    assert np.array_equal(tiles[0], data[:, 0:2]) and np.array_equal(tiles[1], data[:, 2:3])
    uniform = stg.split_array(np.arange(8.0).reshape(2, 4), f_sample_num=2)
    assert isinstance(uniform, np.ndarray) and uniform.shape == (2, 2, 2)
