"""
Reference model for derived frames (C17), written from the property statement:

* slice [l, r): columns l..r-1 of the parent's data and frequency axis;
* de-drift by rate d: row i of the parent moved by round(|d|*i*dt/df) channels towards the start
  of the drift; row 0 stays where it is; the result is trimmed to (a part of) the common band;
* integration: per-column / per-row mean or sum, optional normalisation to mean 0 / std 1.

All quantities that are rounded by the implementation are kept here as exact rationals; the caller
accepts any integer within 1/2 + eps of them (rounding ties are not decided by the oracle).
"""
import math
from fractions import Fraction as Fr
import numpy as np

from mc.refs.axes import F

HALF = Fr(1, 2)


def ramp(m, n, seed):
    """Strictly increasing ramp + seeded perturbation; every value is unique and exact in float32."""
    rng = np.random.default_rng([int(seed), m, n, 17])
    base = 16.0 + np.arange(m * n, dtype=float).reshape(m, n)
    pert = rng.integers(0, 32, size=(m, n)) / 64.0          # < 0.5, multiples of 2^-6
    data = base + pert
    assert np.array_equal(data.astype(np.float32).astype(float), data)
    assert len(np.unique(data)) == m * n
    return data


def shift_real(d, i, dt, df):
    """Exact pre-rounding channel shift of row i: |d| * i * dt / df."""
    return abs(F(d)) * i * F(dt) / F(df)


def _eps(y):
    # float evaluation of |d|*i*dt/df: three roundings (<= 3 * 2^-53 relative); generous margin
    return abs(y) * Fr(1, 2 ** 46) + Fr(1, 2 ** 80)


def admissible(q, y):
    """Is integer q an acceptable rounding of the exact value y (ties either way)?"""
    return abs(Fr(int(q)) - y) <= HALF + _eps(y)


def near_tie(y, tol=Fr(1, 10 ** 5)):
    fr = y - math.floor(y)
    return abs(fr - HALF) <= tol


def all_roundings_at_least(y, n):
    """Every acceptable rounding of y is >= n."""
    return y - HALF - _eps(y) > n - 1


def all_roundings_below(y, n):
    """Every acceptable rounding of y is < n  (i.e. <= n-1)."""
    return y + HALF + _eps(y) < n


def integrate_ref(x, axis, mode):
    """Per-column (axis 0) or per-row (axis 1) sum/mean with math.fsum; also the per-entry sum of |x|."""
    x = np.asarray(x, dtype=float)
    m, n = x.shape
    if axis == 0:
        vecs = [x[:, j] for j in range(n)]
        L = m
    else:
        vecs = [x[i, :] for i in range(m)]
        L = n
    s = np.array([math.fsum(v.tolist()) for v in vecs])
    a = np.array([math.fsum(np.abs(v).tolist()) for v in vecs])
    if mode == 'mean':
        s = s / L
        a = a / L
    return s, a, L


def normalise_ref(v):
    """(v - mean) / std (population std); None when std == 0.  Also reports the largest |z|."""
    v = np.asarray(v, dtype=float)
    mu = math.fsum(v.tolist()) / len(v)
    var = math.fsum(((v - mu) ** 2).tolist()) / len(v)
    sd = math.sqrt(var)
    if sd == 0:
        return None, mu, sd
    return (v - mu) / sd, mu, sd
