"""Plain replays of the C03 defects (run with PYTHONPATH=<tree>:/verif, no explorer needed).

  D05  waterfall_utils.get_fs / get_ts: np.arange(start, start + n*step, step) returns n + 1 values
  D06  Frame._update_waterfall refreshes the container only when no Waterfall is attached
  NEW  Frame.copy() of a frame loaded from .h5 raises TypeError (h5py handle deep-copied)
"""
import atexit, logging, os, shutil, tempfile
import numpy as np

logging.disable(logging.CRITICAL)
import setigen as stg
from mc.refs import sigproc as S


_DIR = tempfile.mkdtemp(prefix='c03test-')
atexit.register(shutil.rmtree, _DIR, ignore_errors=True)
_N = [0]


def _tmp(name):
    _N[0] += 1
    return os.path.join(_DIR, '%d_%s' % (_N[0], name))


def _root(asc=False, m=3, n=16):
    data = 10.0 + np.arange(m * n, dtype=float).reshape(m, n)
    return stg.Frame(fchans=n, tchans=m, df=2.0, dt=0.5, fch1=1e9, ascending=asc, data=data,
                     t_start=1600000000.5, source_name='ROOTSRC')


def test_d05_get_fs_length():
    p = _tmp('a.fil')
    S.write_fil(p, S.default_header(16, 1000.0, -2e-6, 0.1), np.zeros((3, 16), dtype='f4'))
    assert len(stg.get_fs(p)) == 16
    assert stg.min_freq(p) == min(S.freqs_mhz(S.read_fil(p)[0]))


def test_d05_get_ts_length():
    p = _tmp('a.fil')
    S.write_fil(p, S.default_header(1, 100.0, -1.0, 0.1), np.zeros((3, 1), dtype='f4'))
    assert len(stg.get_ts(p)) == 3


def _roundtrip_ok(fr, ext):
    p = _tmp('x' + ext)
    (fr.save_fil if ext == '.fil' else fr.save_h5)(p)
    hdr, pay = (S.read_fil(p) if ext == '.fil' else S.read_h5(p))[:2]
    assert hdr['nchans'] == fr.fchans and pay.shape == fr.shape
    fr2 = stg.Frame(waterfall=p)
    assert fr2.shape == fr.shape
    assert np.allclose(fr2.fs, fr.fs, rtol=1e-14, atol=0)
    assert np.array_equal(fr2.data, np.asarray(fr.data, dtype='f4'))


def test_d06_slice_of_file_backed_frame():
    for asc in (False, True):
        for ext in ('.fil', '.h5'):
            p = _tmp('root.fil')
            _root(asc).save_fil(p)
            loaded = stg.Frame(waterfall=p)
            _roundtrip_ok(loaded.get_slice(1, 16), ext)
            _roundtrip_ok(loaded.get_slice(0, 15), ext)


def test_d06_dedrift_after_get_waterfall():
    for asc in (False, True):
        fr = _root(asc)
        fr.get_waterfall()
        dd = stg.dedrift(fr, 2 * fr.df / (fr.tchans * fr.dt))
        assert dd.fchans == 14
        _roundtrip_ok(dd, '.fil')
        _roundtrip_ok(dd, '.h5')


def test_copy_of_h5_backed_frame():
    p = _tmp('root.h5')
    _root().save_h5(p)
    c = stg.Frame(waterfall=p).copy()
    _roundtrip_ok(c, '.fil')
