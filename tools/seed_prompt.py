#!/usr/bin/env python3
"""Prints the prompt for an independent 'seeded change' agent for property <ID> (property text only)."""
import json, sys
pid = sys.argv[1]
n = int(sys.argv[2]) if len(sys.argv) > 2 else 3
focus = sys.argv[3] if len(sys.argv) > 3 else None
wave = sys.argv[4] if len(sys.argv) > 4 else ''
rec = None
for l in open('/verif/properties.jsonl'):
    r = json.loads(l)
    if r['id'] == pid:
        rec = r
wt = '/tmp/seed%s-%s' % (wave, pid.lower())
focus_line = ('\nFor this round concentrate on these areas (earlier rounds already covered others): %s.' % focus) if focus else ''
print(f"""You are helping to evaluate a verification harness for the Python library bbrzycki/setigen by producing realistic property-breaking code changes ("seeded defects"). You work ONLY in your own scratch git worktree of the repository and you must NOT read or use anything under /verif (the harness under evaluation lives there; your changes must be independent of what it can already detect).

Set up your worktree first:
    git -C /repo worktree add --detach {wt} HEAD
and work only inside {wt} (never edit /repo itself). Do NOT use `git stash` (the stash is shared by all worktrees of /repo and other agents work in parallel): keep each change as a patch file and revert with `git -C {wt} checkout -- setigen` / `git apply -R`. Run Python as /venv/bin/python with PYTHONPATH={wt} so that `import setigen` resolves to your worktree (check with: cd /tmp && PYTHONPATH={wt} /venv/bin/python -W ignore -c "import setigen; print(setigen.__file__)").

The property (this is all you are given about it):

    id: {rec['id']}
    title: {rec['title']}
    statement: {rec['statement']}
    quantified over: {rec['quantifier']['text']}
    why the existing tests cannot settle it: {rec['why_tests_cant']}
    anchored in: {', '.join(rec['anchors']['files'])}

Your task: produce {n} DIFFERENT changes to the library source under {wt}/setigen, each of which
  (a) BREAKS the property above (some input / configuration / history / schedule makes the stated behaviour false),
  (b) still imports and runs, and the repository's existing test-suite still passes with the change applied:
        cd {wt} && PYTHONPATH={wt} /venv/bin/python -m pytest -q -p no:cacheprovider --timeout=900 -x 2>&1 | tail -3      (55 tests, ~1 minute)
  (c) is REALISTIC — the kind of slip a maintainer could make in a refactor or an optimisation (off-by-one in a cursor/offset, a cache or buffer hoisted to module/class scope, state updated before instead of after a step, a rounding-mode or sign change, a wrong default, a missed reset, two sites that each look fine alone) — not a cosmetic edit and not sabotage of everything,
  (d) needs something SPECIFIC to manifest — a particular multi-step sequence of operations, a particular partition / interleaving, an unusual but valid input or configuration, a fault at a particular point — rather than something ordinary use would expose at once. Prefer changes whose effect is confined to a corner of the input space (but a corner a user can legitimately reach, inside what the property quantifies over).
The {n} changes should hit different mechanisms / different files or functions where possible.{focus_line}

For EACH change k = 1..{n} deliver, in directory {wt}/seeded/k/ :
  * patch.diff — `git diff` of the change against the worktree's HEAD (only this one change applied; start each change from a clean tree: `git -C {wt} checkout -- setigen`),
  * demo.py — a small self-contained program (plain asserts; run as `PYTHONPATH=<tree> /venv/bin/python demo.py`) that exits 0 on the unchanged tree and exits non-zero (assertion failure) with the change applied; it must use only the public behaviour described by the property, not internals of your patch,
  * notes.md — which clause of the property it breaks, what it needs in order to manifest, and the exact commands you ran with their outcome (tests pass with the change; demo fails with / passes without).
Verify all of that yourself before finishing. Leave the worktree in place with a clean `setigen/` (all changes reverted; the patches live under seeded/). Your final message: one short paragraph per change (what, where, what it needs to manifest) plus the paths.""")
