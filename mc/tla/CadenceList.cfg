\* pool: items 1..3 compatible, item 4 incompatible; length <= 4; order ABACAD
CONSTANTS
    NItems = 4
    Bad = 4
    MaxLen = 4
    Order <- OrderABACAD
INIT Init
NEXT Next
INVARIANTS Consistent MembersLabelled
