#!/usr/bin/env python3
"""Prints the prompt for an independent 'defect hunt' agent for property <ID> on the UNCHANGED tree (property text only)."""
import json, sys
pid = sys.argv[1]
rec = None
for l in open('/verif/properties.jsonl'):
    r = json.loads(l)
    if r['id'] == pid:
        rec = r
rnd = sys.argv[2] if len(sys.argv) > 2 else ''
wt = '/tmp/hunt%s-%s' % (rnd, pid.lower())
known = ''
if rnd:
    # a later round: tell the reviewer what has been reported before (fixed, or judged outside the property), so that the
    # time goes into new ground
    kf = json.load(open('/verif/known_findings.json'))['findings']
    lines = [f['line'].split(' ', 3)[-1] for f in kf if f['property'] == pid]
    known = ('\n\nAlready reported in earlier rounds and FIXED in the current tree (do not report again; variations of the same root cause '
             'that still fail ARE of interest):\n' + '\n'.join('  - ' + l[:300] for l in lines) +
             '\n\nReported earlier and judged OUTSIDE the property (do not report again): results at exact block / integration multiples '
             'where either neighbour is acceptable; magnitudes beyond 1e150; 2-D inputs to estimate_stats; float32 containers rounding what is '
             'added to them; what a deep copy of a stream shares; exceptions raised by user callbacks inside stream requests; selections of a '
             'cadence built with class defaults; t_overwrite not re-applied on append; set_order with a too-short order; template header cards '
             'shadowing input cards; blimpy\'s own limits (HDF5 files under 3x3, band edges at 0 MHz); Quantities passed where the docstring '
             'says float and the call fails loudly.\n\nIn this round look especially for: float arithmetic where the quantity is an exact integer '
             '(int(a * b / c) one too small), state carried between the first and later uses of one object, the last element of a range, and '
             'arguments the docstring documents but no test uses.')
print(f"""You are reviewing the Python library bbrzycki/setigen (current tree of /repo, which already contains a number of recent commits whose messages start with "fix:") for GENUINE DEFECTS against one stated property. You work ONLY in your own scratch git worktree of the repository and you must NOT read or use anything under /verif.

Set up your worktree first:
    git -C /repo worktree add --detach {wt} HEAD
and work only inside {wt} (never edit /repo itself; do NOT use `git stash`). Run Python as /venv/bin/python with PYTHONPATH={wt} (check with: cd /tmp && PYTHONPATH={wt} /venv/bin/python -W ignore -c "import setigen; print(setigen.__file__)").

The property (this is all you are given about it):

    id: {rec['id']}
    title: {rec['title']}
    statement: {rec['statement']}
    quantified over: {rec['quantifier']['text']}
    anchored in: {', '.join(rec['anchors']['files'])}{known}

Your task: find inputs, configurations, argument forms or call histories — inside what the property quantifies over and inside what the docstrings allow — for which the CURRENT, UNMODIFIED library violates the property: a silently wrong result, a valid input that is refused, state that leaks between calls or objects, an exception that leaves an object corrupted, an overflow or precision loss for legitimate magnitudes or numeric types, an optional argument that is ignored. Read the anchored source carefully, form hypotheses, and TEST each of them by running small programs against the unmodified worktree. Be systematic: enumerate the public entry points and their optional arguments in the anchored files, and try boundary values (0, 1, exact grid points, first/last element, empty), unusual-but-valid argument forms (numpy scalars of various widths, 0-d arrays, lists/tuples, astropy Quantities in non-base units, float32/integer/complex/non-contiguous/read-only arrays), object reuse (second call, after a reset, after an exception, after copy/pickle) and combinations of two options.

Report ONLY confirmed findings (you ran a program that shows the violation on the unmodified tree). Things that merely raise a clear, immediate exception for an input the documentation does not promise to accept are NOT findings; silent wrong results, corrupted state and refusals of documented inputs are. For EACH finding k deliver in {wt}/findings/k/ :
  * demo.py — a small self-contained program (plain asserts; run as `PYTHONPATH={wt} /venv/bin/python demo.py`) that FAILS (exit non-zero, assertion) on the unmodified tree because of the defect, and states in a comment what the correct behaviour would be,
  * notes.md — which clause of the property is violated, the exact input/history, the line(s) of source responsible, and a minimal suggested fix (a few lines, as a maintainer would write it).
If after a thorough search (at least a dozen distinct hypotheses tested) you find nothing, say so and list the hypotheses you tested and how. Leave the worktree in place with an unmodified `setigen/`. Your final message: one short paragraph per finding (what, where, input, suggested fix) plus the paths, or the list of tested hypotheses.""")
