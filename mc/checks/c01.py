"""
C01 -- Injected signal equals the pointwise product of its four components.

E-PROD.  A union of completely enumerated Cartesian sub-boxes (no sampling; every sub-box is a full
product of its named domains, simplest values first):

  paths   every path form/family x position x flags, against three frequency profiles
  tprof   every time-profile form/family x flags
  bandp   every bandpass form x every bounding-range kind x flags
  fprof   every shipped frequency-profile family x width x drift x position x flags
  forms   path form x time-profile form x bandpass form x bounding (forms against each other)
  errors  wrong-shaped arrays (ValueError) / wrong types (TypeError), frame unchanged

"flags" = every combination of integrate_path / integrate_t_profile / integrate_f_profile /
doppler_smearing with every sub-sample count of the box that the enabled flags can see (a count
belonging to a disabled flag is left at its default; 84 distinct settings).

Every case builds a real Frame, calls the real Frame.add_signal and compares every returned pixel
with mc.refs.signal (scalar evaluation on the frame's own ts / fs).  Oracle rules (DESIGN section 3):
2 (pixels whose argument is within eps of a box / truncation step are not decided, and counted),
4 (tolerance 1e-9 of the peak plus the profile's Lipschitz bound times 64 ulp of the frequencies),
8 (a channel only partly covered by a bounding range may be in or out; which array length a
bandpass array must have under a bounding range is not stated -> not enumerated).
"""
import numpy as np

from mc import engine
from mc.refs import signal as RS

PROPERTY = 'C01'
LEVEL = 'exploration'
SITE = 'Frame.add_signal'

# ------------------------------------------------------------------------------------------------
# domains
# ------------------------------------------------------------------------------------------------
GEOM3 = [(1.0, 1.0, 100.0), (2.7939677238464355, 18.253611008, 6e9), (0.5, 0.25, 1420.40575e6)]


def geometries(tier):
    out = []
    if tier == 'quick':
        for (df, dt, fch1) in GEOM3[:2]:
            for asc in (True, False):
                out.append(dict(df=df, dt=dt, fch1=fch1, asc=asc, tchans=3, fchans=6))
        # a frame whose own time axis does not start at zero (the values are defined at the frame's OWN axes)
        out.append(dict(df=1.0, dt=1.0, fch1=100.0, asc=True, tchans=3, fchans=6, ts0=37.5))
        out.append(dict(df=1.0, dt=1.0, fch1=100.0, asc=True, tchans=3, fchans=6, ts0=37.5, tsgap=4.25))
    else:
        for (df, dt, fch1) in GEOM3:
            for asc in (True, False):
                for tch in (1, 2, 3, 4):
                    for fch in (1, 2, 6, 7):
                        out.append(dict(df=df, dt=dt, fch1=fch1, asc=asc, tchans=tch, fchans=fch))
        for asc in (True, False):
            for ts0 in (37.5, -2.25):
                out.append(dict(df=1.0, dt=1.0, fch1=100.0, asc=asc, tchans=3, fchans=6, ts0=ts0))
            out.append(dict(df=1.0, dt=1.0, fch1=100.0, asc=asc, tchans=3, fchans=6, ts0=37.5, tsgap=4.25))
    return out


def flag_settings(t_subs=(1, 3), f_subs=(1, 2), s_subs=(1, 2, 5)):
    """All effective settings of (ip, it, if, sm, tsub, fsub, ssub); None = count left at its default."""
    out = []
    tparts = [(False, False, None)] + [(ip, it, k) for k in t_subs for (ip, it) in ((True, False), (False, True), (True, True))]
    fparts = [(False, None)] + [(True, k) for k in f_subs]
    sparts = [(False, None)] + [(True, k) for k in s_subs]
    for (ip, it, tk) in tparts:
        for (fi, fk) in fparts:
            for (sm, sk) in sparts:
                out.append(dict(ip=ip, it=it, fi=fi, sm=sm, tsub=tk, fsub=fk, ssub=sk))
    return out


FLAGS_ALL = flag_settings()                                        # 7 * 3 * 4 = 84
FLAGS_FEW = [f for f in FLAGS_ALL if (f['ip'] == f['it']) and f['tsub'] in (None, 3)]      # 2 * 3 * 4 = 24
FLAGS_2 = [dict(ip=False, it=False, fi=False, sm=False, tsub=None, fsub=None, ssub=None),
           dict(ip=True, it=True, fi=True, sm=True, tsub=3, fsub=2, ssub=2)]

POSITIONS = ['inside', 'straddle', 'outside']
PATH_KINDS = (
    [dict(kind='constant_path', drift=d) for d in (0.0, 0.7, -1.3)]
    + [dict(kind='squared_path', drift=d) for d in (0.5, -0.9)]
    + [dict(kind='sine_path', drift=d) for d in (0.7, -0.4)]
    + [dict(kind='simple_rfi_path', drift=0.7, spread=1.5, spread_type=st, rfi_type=rt)
       for st in ('uniform', 'normal') for rt in ('stationary', 'random_walk')]
    + [dict(kind='simple_rfi_path', drift=-0.6, spread=0.0, spread_type='uniform', rfi_type='stationary'),
       dict(kind='simple_rfi_path', drift=0.7, spread=0.0, spread_type='normal', rfi_type='random_walk')]
    + [dict(kind='custom', drift=0.4)]
    # a path FUNCTION that returns unsigned integers (centre frequencies read off an integer table), drifting down and up
    + [dict(kind='custom', drift=-2.7, uint=True), dict(kind='custom', drift=2.7, uint=True)]
    + [dict(kind=k, drift=0.7) for k in ('array', 'list')]
    + [dict(kind='array', drift=0.7, ints=True), dict(kind='list', drift=0.7, ints=True)]
    + [dict(kind='array', drift=1.3, closed=True), dict(kind='array', drift=2.3, lastonly=True)]
    # whole-Hz paths held as UNSIGNED integers, drifting down as well as up (differences of unsigned values wrap)
    + [dict(kind='array', drift=-2.7, ints=True, dtype='uint64'), dict(kind='array', drift=2.7, ints=True, dtype='uint64')]
    + [dict(kind='float', drift=0.0), dict(kind='int', drift=0.0)]
    # scalars in the other numeric types a caller may hold them in
    + [dict(kind='int', drift=0.0, np='int64'), dict(kind='int', drift=0.0, np='uint64')]
)
T_KINDS = (
    [dict(kind='constant_t_profile'), dict(kind='sine_t_profile')]
    + [dict(kind='periodic_gaussian_t_profile', direction=d, pnum=p, jitter=True)
       for p in (3, 2) for d in ('up', 'down', 'rand')]
    + [dict(kind='periodic_gaussian_t_profile', direction=d, pnum=3, jitter=False) for d in ('up', 'down')]
    + [dict(kind='periodic_gaussian_t_profile', direction='down', pnum=3, jitter=False, deep=True)]
    + [dict(kind='periodic_gaussian_t_profile', direction='up', pnum=pn, jitter=False, negphase=True) for pn in (1, 3)]
    + [dict(kind='periodic_gaussian_t_profile', direction='up', pnum=3, jitter=False, pnum_np=ty) for ty in ('uint8', 'int16')]
    + [dict(kind='custom'), dict(kind='array'), dict(kind='list'), dict(kind='float'), dict(kind='int')]
    + [dict(kind='float', np='float32'), dict(kind='int', np='uint8'), dict(kind='float', np='0d')]
)
WIDTHS = [0.3, 1.0, 2.5]
F_KINDS = (
    [dict(kind='box_f_profile', w=w) for w in WIDTHS]
    + [dict(kind='gaussian_f_profile', w=w) for w in WIDTHS]
    + [dict(kind='multiple_gaussian_f_profile', w=w) for w in WIDTHS]
    + [dict(kind='lorentzian_f_profile', w=w) for w in WIDTHS]
    + [dict(kind='voigt_f_profile', w=w, lw=w) for w in WIDTHS]
    + [dict(kind='voigt_f_profile', w=1.0, lw=0.0), dict(kind='voigt_f_profile', w=0.0, lw=1.0)]
    + [dict(kind='sinc2_f_profile', w=w, mode=m, trunc=t) for m in ('crossing', 'fwhm') for t in (True, False)
       for w in WIDTHS]
    + [dict(kind='custom', w=1.0)]
)
F_GAUSS1 = dict(kind='gaussian_f_profile', w=1.0)
F_GAUSS25 = dict(kind='gaussian_f_profile', w=2.5)
F_BOX1 = dict(kind='box_f_profile', w=1.0)
F_BOX25 = dict(kind='box_f_profile', w=2.5)
F_CUSTOM = dict(kind='custom', w=1.0)
BP_KINDS = [dict(kind=k) for k in ('none', 'constant_bp_profile', 'custom', 'array', 'list', 'float', 'int')]
BOUNDS = ['none', 'cover', 'inside', 'clip_low', 'clip_high', 'above', 'below', 'thin']


def bound_x(kind, n):
    """Bounding range in channel coordinates (0 = centre of the lowest channel); None if inadmissible."""
    kc = n // 2
    r = {'cover': (-0.6, n - 0.4), 'inside': (0.8, n - 1.3), 'clip_low': (-2.4, n - 2.6),
         'clip_high': (1.7, n + 1.6), 'above': (n + 1.2, n + 3.9), 'below': (-4.3, -2.2),
         'thin': (kc + 0.1, kc + 0.2)}[kind]
    return r if r[0] < r[1] else None


# ------------------------------------------------------------------------------------------------
# abstract case -> concrete specs (absolute numbers, relative to the frame's own axes)
# ------------------------------------------------------------------------------------------------
def _rng(seed, tag):
    return np.random.default_rng([int(seed), int(tag)])


def make_frame(g):
    import setigen as stg
    fr = stg.Frame(fchans=g['fchans'], tchans=g['tchans'], df=g['df'], dt=g['dt'], fch1=g['fch1'],
                   ascending=g['asc'], t_start=0.0)
    if g.get('ts0') or g.get('tsgap'):
        # history: before its time axis is replaced (what Cadence.add_signal does around every injection) the frame has
        # already served one Doppler-smeared injection of a drifting signal on its constructor axis
        try:
            fr.add_signal(stg.constant_path(f_start=float(fr.fs[len(fr.fs) // 2]), drift_rate=0.7 * fr.df / fr.dt), 1.0,
                          _ones_profile, doppler_smearing=True)
        except Exception:
            pass
        fr.data[:] = 0.0
    if g.get('ts0'):
        fr.ts = fr.ts + g['ts0']
    if g.get('tsgap'):
        # a time axis with a gap after the first row (what a consolidated cadence hands out)
        ts = np.array(fr.ts, dtype=float)
        ts[1:] += g['tsgap']
        fr.ts = ts
    return fr


_FRAMES = {}


def zero_frame(g):
    """
    A zero-filled real Frame of geometry g.  Constructing a Frame costs more than the injection, so
    each worker keeps one per geometry and zeroes its data; that is sound only while injection leaves
    the axes alone, which is verified bit for bit after EVERY call (`axes_intact`) -- a frame whose axes
    moved is reported and discarded.
    """
    key = (g['fchans'], g['tchans'], g['df'], g['dt'], g['fch1'], g['asc'], g.get('ts0', 0.0), g.get('tsgap', 0.0))
    ent = _FRAMES.get(key)
    if ent is None:
        fr = make_frame(g)
        ent = _FRAMES[key] = (fr, np.array(fr.fs), np.array(fr.ts), (fr.df, fr.dt, fr.fch1, fr.fchans, fr.tchans))
    fr = ent[0]
    # Deterministic history: whatever this worker ran on the frame before, the frame has just seen one fixed
    # full-band injection (all ones) and was zeroed again.  Anything a faulty implementation keeps between calls
    # (a reused return buffer, a memo keyed too coarsely) is then in the same state in every process, so a
    # history-dependent result reproduces when the case is re-executed alone.
    try:
        fr.add_signal(float(fr.fs[len(fr.fs) // 2]), 1.0, _ones_profile)
    except Exception:
        pass
    fr.data[:] = 0.0
    return fr


def decoy_call(g, kw):
    """
    Second half of the deterministic history: one fixed injection with the SAME keyword arguments (integration flags and
    sub-sample counts) into a frame of the same shape but OTHER resolutions (dt x 1.75, df x 1.5).  A memo shared between
    frames and keyed on the sub-sample counts or the shape alone (seeded change C01-34: class-level table of sub-sample
    time offsets keyed by t_subsamples only) is then filled by a frame with a different dt in every process, before the
    call under test, so the wrong result it causes reproduces when the case is re-executed alone.  Nothing is compared here.
    """
    g2 = dict(g, dt=g['dt'] * 1.75, df=g['df'] * 1.5)
    try:
        d = zero_frame(g2)
        kw2 = {k: v for k, v in kw.items() if k != 'bounding_f_range'}
        d.add_signal(lambda t: float(d.fs[len(d.fs) // 2]) + 0.3 * d.df / d.dt * (np.asarray(t) - float(d.ts[0])),
                     lambda t: 1.0 + 0.0 * np.asarray(t), _ones_profile, lambda f: 1.0 + 0.0 * np.asarray(f), **kw2)
        d.data[:] = 0.0
    except Exception:
        pass


def _ones_profile(f, f_center):
    return np.ones(np.shape(f)) + 0.0 * np.asarray(f_center)


def axes_intact(g):
    key = (g['fchans'], g['tchans'], g['df'], g['dt'], g['fch1'], g['asc'], g.get('ts0', 0.0), g.get('tsgap', 0.0))
    fr, fs0, ts0, sc = _FRAMES[key]
    ok = (np.array_equal(fr.fs, fs0) and np.array_equal(fr.ts, ts0) and fr.data.shape == (sc[4], sc[3])
          and (fr.df, fr.dt, fr.fch1, fr.fchans, fr.tchans) == sc)
    if not ok:
        del _FRAMES[key]
    return ok


def concretise(case, fs, ts):
    g = case['geom']
    df, dt, n, m = g['df'], g['dt'], g['fchans'], g['tchans']
    seed = case.get('seed', 0)
    kc = n // 2
    p = case['path']
    pos = p.get('pos', 'inside')
    f0 = {'inside': fs[kc] + 0.2 * df, 'straddle': fs[0] - 0.3 * df, 'outside': fs[-1] + 40.3 * df,
          'side_hi': fs[kc] + 0.2 * df + 100.0, 'side_lo': fs[kc] + 0.2 * df - 100.0}[pos]
    d = p.get('drift', 0.0)
    rate = d * df / dt
    k = p['kind']
    rows = m + 1 if case['sm'] else m
    if k == 'constant_path':
        ps = dict(kind=k, f_start=f0, drift_rate=rate)
    elif k == 'squared_path':
        ps = dict(kind=k, f_start=f0, drift_rate=rate / dt)
    elif k == 'sine_path':
        ps = dict(kind=k, f_start=f0, drift_rate=rate, period=3.3 * dt, amplitude=1.1 * df)
    elif k == 'simple_rfi_path':
        ps = dict(kind=k, f_start=f0, drift_rate=rate, spread=p['spread'] * df, spread_type=p['spread_type'],
                  rfi_type=p['rfi_type'], seed=1000 + 7 * seed)
    elif k == 'custom' and p.get('uint'):
        ps = dict(kind='custom', name='steps_uint_path', params=dict(f0=int(round(f0)), step=int(round(rate * dt)), dt=dt))
    elif k == 'custom':
        ps = dict(kind='custom', name='cubic_path', params=dict(f0=f0, a=rate, b=-0.15 * df / dt ** 3))
    elif k in ('array', 'list'):
        jit = _rng(seed, 11).uniform(-0.4, 0.4, 16)
        vals = [float(f0 + d * df * i + jit[i] * df) for i in range(rows + p.get('extra', 0))]
        if p.get('lastonly'):
            # flat over the frame's rows, only the EXTRA (tchans+1-th) value moves: under smearing the last row is smeared, else nothing drifts
            vals = [float(f0)] * (len(vals) - 1) + [float(f0 + d * df)] if case['sm'] else [float(f0)] * len(vals)
        if p.get('closed'):
            # a path that goes up and comes back: its last value EQUALS its first one (no net drift, yet every row drifts)
            last = len(vals) - 1
            vals = [float(f0 + d * df * min(i, last - i) + (jit[i] * df if 0 < i < last else 0.0)) for i in range(last + 1)]
        if p.get('ints'):
            ps = dict(kind=k, values=[int(round(v)) for v in vals], dtype=p.get('dtype', 'int64'))
        else:
            ps = dict(kind=k, values=vals)
    elif k == 'float':
        ps = dict(kind='float', value=float(f0))
    elif k == 'int':
        ps = dict(kind='int', value=int(round(f0)), np=p.get('np'))
    else:
        raise KeyError(k)

    t = case['t']
    k = t['kind']
    if k == 'constant_t_profile':
        tsp = dict(kind=k, level=2.0)
    elif k == 'sine_t_profile':
        tsp = dict(kind=k, period=3.3 * dt, phase=0.4 * dt, amplitude=0.5, level=1.5)
    elif k == 'periodic_gaussian_t_profile':
        tsp = dict(kind=k, pulse_width=1.2 * dt, period=2.5 * dt, phase=0.3 * dt,
                   pulse_offset_width=(0.4 * dt if t['jitter'] else 0), pulse_direction=t['direction'],
                   pnum=t['pnum'], amplitude=0.8, level=1.0, min_level=0.3, seed=2000 + 13 * seed)
        if t.get('pnum_np'):
            tsp['pnum_np'] = t['pnum_np']          # the pulse count as a numpy fixed-width integer
        if t.get('negphase'):
            # a delayed pulse train: the phase is below -period/4, so the first rows lie before the first pulse centre
            tsp.update(phase=-0.9 * dt)
        if t.get('deep'):
            # pulses deeper than the baseline, floor left at its documented default of 0
            tsp.update(amplitude=1.6, min_level=None)
    elif k == 'custom':
        tsp = dict(kind='custom', name='cos_t', params=dict(level=1.0, amp=0.25, w=0.9 / dt))
    elif k in ('array', 'list'):
        tsp = dict(kind=k, values=[float(v) for v in 0.5 + _rng(seed, 12).uniform(0, 2, 16)[:m + t.get('extra', 0)]])
    elif k == 'float':
        tsp = dict(kind='float', value=1.75 if t.get('np') else 1.7, np=t.get('np'))
    elif k == 'int':
        tsp = dict(kind='int', value=2, np=t.get('np'))
    else:
        raise KeyError(k)

    f = case['f']
    k = f['kind']
    if k == 'voigt_f_profile':
        fsp = dict(kind=k, g_width=f['w'] * df, l_width=f['lw'] * df)
    elif k == 'sinc2_f_profile':
        fsp = dict(kind=k, width=f['w'] * df, width_mode=f['mode'], trunc=f['trunc'])
    elif k == 'custom':
        fsp = dict(kind='custom', name='logistic_f', params=dict(w=f['w'] * df), lip=0.5 / (f['w'] * df), peak=1.0)
    else:
        fsp = dict(kind=k, width=f['w'] * df)

    b = case['bp']
    k = b['kind']
    if k == 'none':
        bsp = dict(kind='none')
    elif k == 'constant_bp_profile':
        bsp = dict(kind=k, level=0.7)
    elif k == 'custom':
        bsp = dict(kind='custom', name='ramp_bp', params=dict(f_ref=float(fs[kc]), slope=0.3 / (n * df), level=1.0),
                   lip=0.3 / (n * df))
    elif k in ('array', 'list'):
        bsp = dict(kind=k, values=[float(v) for v in 0.4 + _rng(seed, 13).uniform(0, 1, 16)[:n + b.get('extra', 0)]])
    elif k == 'float':
        bsp = dict(kind='float', value=0.7)
    elif k == 'int':
        bsp = dict(kind='int', value=2)
    else:
        raise KeyError(k)

    bound = None
    if case.get('bound', 'none') != 'none':
        x = bound_x(case['bound'], n)
        bound = (float(fs[0] + x[0] * df), float(fs[0] + x[1] * df))
    return ps, tsp, fsp, bsp, bound


def call_kwargs(case, bound):
    kw = dict(integrate_path=case['ip'], integrate_t_profile=case['it'], integrate_f_profile=case['fi'],
              doppler_smearing=case['sm'])
    if case['tsub'] is not None:
        kw['t_subsamples'] = case['tsub']
    if case['fsub'] is not None:
        kw['f_subsamples'] = case['fsub']
    if case['ssub'] is not None:
        kw['smearing_subsamples'] = case['ssub']
    if bound is not None:
        kw['bounding_f_range'] = bound
    return kw


def _raise_tag(case, exc):
    """Stable context tag so that different unexpected rejections are reported as different failures:
    the argument the exception message names, else the feature combination of the case."""
    msg = str(exc)
    if isinstance(exc, ValueError):
        if 'bp_profile' in msg:
            return 'bp_array_with_integrate_f' if case['fi'] else 'bp_array'
        if 'path' in msg:
            return 'path_array_with_smearing' if case['sm'] else 'path_array'
        if 't_profile' in msg:
            return 't_profile_array'
    if case['path']['kind'] in ('array', 'list') and case['sm'] and not case['path'].get('ints'):
        return 'path_array_with_smearing'
    if (case['path']['kind'] == 'int' or case['path'].get('ints')) and case['sm']:
        return 'int_path_with_smearing'
    if case.get('bound', 'none') != 'none' and case['fi']:
        return 'bounding_with_integrate_f'
    return 'other'


# ------------------------------------------------------------------------------------------------
# the case function
# ------------------------------------------------------------------------------------------------
def _stochastic(case):
    t = case['t']
    return ('rfi' in case['path']['kind'] or bool(t.get('jitter')) or t.get('direction') == 'random'
            or (t['kind'].startswith('periodic') and t.get('pnum', 3) % 2 == 0))


def case_signal(case):
    viol = []

    def V(failure, detail):
        viol.append({'site': SITE, 'failure': failure, 'detail': detail})

    g = case['geom']
    fr = zero_frame(g)
    fs = [float(x) for x in fr.fs]
    ts = [float(x) for x in fr.ts]
    m, n = g['tchans'], g['fchans']
    ps, tsp, fsp, bsp, bound = concretise(case, fs, ts)
    if case.get('units'):
        # unit-carrying arguments (MHz / kHz / mHz-per-second / ms Quantities) for the shipped families
        ps, tsp, fsp = dict(ps, units=True), dict(tsp, units=True), dict(fsp, units=True)
    kw = call_kwargs(case, bound)
    decoy_call(g, kw)

    # ---- reference (independent of the call below) ---------------------------------------------
    try:
        ref = RS.reference_signal(
            fs, ts, fr.df, fr.dt, RS.ref_path(ps), RS.ref_t_profile(tsp), RS.ref_f_profile(fsp), RS.ref_bp_profile(bsp),
            integrate_path=case['ip'], integrate_t_profile=case['it'], integrate_f_profile=case['fi'],
            doppler_smearing=case['sm'],
            t_subsamples=case['tsub'] if case['tsub'] is not None else 10,
            f_subsamples=case['fsub'] if case['fsub'] is not None else 10,
            smearing_subsamples=case['ssub'] if case['ssub'] is not None else 10)
    except Exception as e:
        # the reference of a stochastic family is a same-seed twin of the shipped function itself: if THAT refuses its
        # documented arguments, the refusal is the library's
        V('raised_%s/family_function' % type(e).__name__, 'the shipped family function refused its arguments: %s: %s | path=%s t=%s f=%s bp=%s'
          % (type(e).__name__, str(e)[:200], ps, tsp, fsp, bsp))
        return {'viol': viol, 'outcomes': ['family_raised/%s' % type(e).__name__]}
    cls = RS.bounding_classes(fs, fr.df, bound[0], bound[1]) if bound is not None else ['in'] * n

    # ---- implementation ------------------------------------------------------------------------
    args = [RS.impl_path(ps), RS.impl_t_profile(tsp), RS.impl_f_profile(fsp), RS.impl_bp_profile(bsp)]
    snaps = [(np.array(a, copy=True) if isinstance(a, np.ndarray) else (list(a) if isinstance(a, list) else None)) for a in args]
    try:
        got = fr.add_signal(*args, **kw)
    except Exception as e:
        if not axes_intact(g):
            V('axes_changed', 'frame axes / scalars changed by a rejected add_signal call')
        V('raised_%s/%s' % (type(e).__name__, _raise_tag(case, e)),
          'valid arguments rejected: %s: %s | path=%s t=%s f=%s bp=%s kwargs=%s'
          % (type(e).__name__, str(e)[:200], ps, tsp, fsp, bsp, kw))
        return {'viol': viol, 'outcomes': ['raised/%s' % type(e).__name__]}
    got = np.array(got)
    # the caller's own argument objects are inputs: an array/list handed in is unchanged afterwards, and handing the same
    # objects in again gives the same signal
    for nm, a, s0 in zip(('path', 't_profile', 'f_profile', 'bp_profile'), args, snaps):
        if s0 is not None and not (np.array_equal(a, s0) if isinstance(a, np.ndarray) else list(a) == s0):
            V('caller_argument_modified', 'the %s array/list passed in was modified in place by add_signal: %r -> %r'
              % (nm, np.asarray(s0).ravel()[:4].tolist(), np.asarray(a).ravel()[:4].tolist()))
            return {'viol': viol, 'outcomes': ['arg_modified']}
    if any(s0 is not None for s0 in snaps) and not _stochastic(case):
        fr.data[:] = 0.0
        try:
            got2 = np.array(fr.add_signal(*args, **kw))
            if got2.shape != got.shape or not np.array_equal(got2, got):
                V('same_arguments_different_signal', 'injecting the same argument objects a second time into the zeroed frame gives a '
                  'different signal (max |diff| %.3g)' % (float(np.max(np.abs(got2 - got))) if got2.shape == got.shape else -1))
        except Exception as e:
            V('same_arguments_raised', 'second injection of the same argument objects raised %s: %s' % (type(e).__name__, str(e)[:150]))
    if not axes_intact(g):
        V('axes_changed', 'frame axes / scalars (fs, ts, df, dt, fch1, shape) changed by add_signal')
        return {'viol': viol, 'outcomes': ['axes_changed']}
    if got.shape != (m, n):
        V('shape', 'returned array has shape %s, frame is %s' % (got.shape, (m, n)))
        return {'viol': viol, 'outcomes': ['shape']}
    if not np.all(np.isfinite(got)):
        V('non_finite', 'returned array contains non-finite values')
        return {'viol': viol, 'outcomes': ['nonfinite']}

    tol = ref.tol
    amb = 0
    n_edge = 0
    n_cmp = 0
    nz = zero = 0
    bad = None
    bad_out = None
    zthr = 1e-6 * ref.peak
    for i in range(m):
        for j in range(n):
            r = ref.values[i][j]
            x = float(got[i, j])
            c = cls[j]
            if c == 'out':
                n_cmp += 1
                zero += 1
                if x != 0.0 and bad_out is None:
                    bad_out = (i, j, x)
                continue
            if ref.undecided[i][j]:
                amb += 1
                continue
            n_cmp += 1
            if c == 'edge':
                n_edge += 1
                if x == 0.0:
                    zero += 1
                    continue
            if abs(r) > zthr:
                nz += 1
            else:
                zero += 1
            if abs(x - r) > tol and bad is None:
                bad = (i, j, x, r)
    if bad_out is not None:
        i, j, x = bad_out
        V('nonzero_outside_bounding_range',
          'pixel (%d,%d) f=%r lies wholly outside bounding_f_range=%r but holds %r | path=%s f=%s kwargs=%s'
          % (i, j, fs[j], bound, x, ps, fsp, kw))
    if bad is not None:
        i, j, x, r = bad
        V('pixel_mismatch',
          'pixel (%d,%d) t=%r f=%r: add_signal returned %r, pointwise reference %r (tol %.3g; path row %r, '
          't row %r) | path=%s t=%s f=%s bp=%s kwargs=%s'
          % (i, j, ts[i], fs[j], x, r, tol, ref.path_rows[i], ref.t_rows[i], ps, tsp, fsp, bsp, kw))
    if not np.array_equal(fr.data, got):
        V('data_not_signal', 'frame.data (zero before the call) differs from the returned signal array')

    res = {'viol': viol, 'ambiguous': amb,
           'extra': {'pixels_compared': n_cmp, 'pixels_bounding_edge': n_edge, 'pixels_ambiguous': amb,
                     'cases_with_subsample_spread': int(any(ref.spread.values()))}}
    spread = any(ref.spread.values())
    if (nz and zero) or spread:
        res['nontrivial'] = [engine.sha(case)]
    res['outcomes'] = ['ok/nz%d/z%d/a%d/%s' % (nz, zero, min(amb, 3), ''.join(k[0] for k, v in sorted(ref.spread.items()) if v))]
    return res


# ------------------------------------------------------------------------------------------------
# error cases: wrong shapes -> ValueError, wrong types -> TypeError, frame unchanged
# ------------------------------------------------------------------------------------------------
BAD_TYPES = {'str': 'abc', 'none': None, 'dict': {'a': 1.0}}


def case_error(case):
    import setigen as stg
    viol = []

    def V(failure, detail):
        viol.append({'site': SITE, 'failure': failure, 'detail': detail})

    g = case['geom']
    fr = make_frame(g)
    m, n = g['tchans'], g['fchans']
    fs = [float(x) for x in fr.fs]
    base = np.arange(m * n, dtype=float).reshape(m, n) * 0.5 + 1.0
    fr.data[:] = base
    fs0, ts0 = np.array(fr.fs), np.array(fr.ts)
    kc = n // 2
    f0 = fs[kc] + 0.2 * g['df']
    rows = m + 1 if case['sm'] else m
    args = {'path': [f0 + 0.1 * i for i in range(rows)] if case['good_form'] == 'array' else f0,
            't_profile': [1.0 + 0.5 * i for i in range(m)] if case['good_form'] == 'array' else 1.5,
            'f_profile': stg.gaussian_f_profile(width=1.5 * g['df']),
            'bp_profile': [0.5 + 0.1 * j for j in range(n)] if case['good_form'] == 'array' else 0.7}
    which, what = case['arg'], case['bad']
    if what[0] == 'len':
        right = {'path': rows, 't_profile': m, 'bp_profile': n}[which]
        vals = [(f0 if which == 'path' else 1.0) + 0.01 * i for i in range(right + what[1])]
        bad = np.array(vals) if case['container'] == 'array' else vals
        expect = ValueError
    elif what[0] == '2d':
        right = {'path': rows, 't_profile': m, 'bp_profile': n}[which]
        a = np.full((right, 1) if what[1] == 'col' else (1, right), f0 if which == 'path' else 1.0)
        bad = a if case['container'] == 'array' else a.tolist()
        expect = ValueError
    elif what[0] == 'type':
        bad = BAD_TYPES[what[1]] if what[1] in BAD_TYPES else (1.0 if what[1] == 'float' else [1.0] * n)
        expect = TypeError
    args[which] = bad
    kw = dict(doppler_smearing=case['sm'], integrate_f_profile=case['fi'], f_subsamples=2, smearing_subsamples=2)
    desc = '%s=%r (%s), doppler_smearing=%s, integrate_f_profile=%s' % (which, bad, what, case['sm'], case['fi'])
    outcome = None
    try:
        fr.add_signal(args['path'], args['t_profile'], args['f_profile'], args['bp_profile'], **kw)
        V('accepted_%s' % ('wrong_shape' if expect is ValueError else 'wrong_type'),
          'no exception for %s' % desc)
        outcome = 'accepted'
    except Exception as e:
        outcome = type(e).__name__
        if not isinstance(e, expect):
            V('wrong_exception_%s' % expect.__name__, '%s raised %s: %s, expected %s'
              % (desc, type(e).__name__, str(e)[:200], expect.__name__))
    if not (np.array_equal(fr.data, base) and np.array_equal(fr.fs, fs0) and np.array_equal(fr.ts, ts0)):
        V('frame_changed_by_rejected_call', 'frame data/axes changed although the call was rejected: %s' % desc)
    return {'viol': viol, 'nontrivial': [engine.sha(case)], 'outcomes': ['err/%s/%s' % (which, outcome)]}


def case_rfi_family(case):
    """
    simple_rfi_path beyond the twin: what its docstring states about the draws, checked on two
    identically seeded instances.  "stationary only offsets with respect to a straight-line path, but
    random_walk accumulates frequency offsets over time"; spread = "range of center frequency
    variations" (uniform: offsets within +-spread/2).
    """
    import setigen as stg
    viol = []
    f0, rate, spread, n, dt = case['f0'], case['rate'], case['spread'], case['n'], case['dt']
    t = np.arange(n, dtype=float) * dt
    mk = lambda rt: stg.simple_rfi_path(f_start=f0, drift_rate=rate, spread=spread, spread_type=case['spread_type'],
                                        rfi_type=rt, seed=case['rfi_seed'])
    st, rw = np.asarray(mk('stationary')(t), dtype=float), np.asarray(mk('random_walk')(t), dtype=float)
    line = np.array([f0 + rate * x for x in t])
    off = st - line
    eps = 64 * n * float(np.spacing(max(abs(f0), 1.0) + abs(rate) * n * dt + n * spread))
    site = 'simple_rfi_path'
    if st.shape != t.shape or rw.shape != t.shape:
        viol.append({'site': site, 'failure': 'shape', 'detail': 'path(t) has shape %s for t of shape %s' % (st.shape, t.shape)})
        return {'viol': viol}
    if case['spread_type'] == 'uniform' and float(np.abs(off).max()) > spread / 2.0 + eps:
        viol.append({'site': site, 'failure': 'uniform_offset_out_of_range',
                     'detail': 'offset %r exceeds spread/2 = %r' % (float(np.abs(off).max()), spread / 2.0)})
    acc = float(np.abs((rw - line) - np.cumsum(off)).max())
    if acc > eps:
        viol.append({'site': site, 'failure': 'random_walk_not_accumulated_offsets',
                     'detail': 'random_walk offsets differ from the running sum of the stationary offsets of the '
                               'identically seeded path by %r (eps %r): %r vs %r' % (acc, eps, list(rw - line), list(np.cumsum(off)))})
    res = {'viol': viol, 'outcomes': ['rfi/%s/%d' % (case['spread_type'], n)]}
    if n >= 2 and float(np.abs(off).max()) > 0:
        res['nontrivial'] = [engine.sha(case)]
    return res


def case_selftest(case):
    bad = RS.selftest()
    return {'viol': [{'site': 'mc.refs.signal', 'failure': 'reference_selftest', 'detail': b}
                     for b in bad], 'outcomes': ['selftest']}


# ------------------------------------------------------------------------------------------------
# enumeration
# ------------------------------------------------------------------------------------------------
P_CONST = dict(kind='constant_path', drift=0.7, pos='inside')
P_ARRAY = dict(kind='array', drift=0.7, pos='inside')
T_SINE = dict(kind='sine_t_profile')
T_FLOAT = dict(kind='float')
BP_NONE = dict(kind='none')
BP_CUSTOM = dict(kind='custom')


def _mk(box, g, seed, path, t, f, bp, bound, fl):
    c = dict(box=box, geom=g, seed=seed, path=path, t=t, f=f, bp=bp, bound=bound)
    c.update(fl)
    return c


def _bound_ok(bound, bp, n):
    if bound == 'none':
        return True
    if bp['kind'] in ('array', 'list'):
        return False          # which length is "right" under a bounding range is not stated (rule 8)
    return bound_x(bound, n) is not None


def box_cases(box, g, seed):
    n = g['fchans']
    if box == 'paths':
        for pk in PATH_KINDS:
            for pos in POSITIONS:
                for f in (F_GAUSS1, F_BOX25, F_CUSTOM):
                    for fl in FLAGS_ALL:
                        yield _mk(box, g, seed, dict(pk, pos=pos), T_SINE, f, BP_NONE, 'none', fl)
    elif box == 'tprof':
        for tk in T_KINDS:
            for path in (P_CONST, P_ARRAY):
                for fl in FLAGS_ALL:
                    yield _mk(box, g, seed, path, tk, F_GAUSS1, BP_CUSTOM, 'none', fl)
    elif box == 'bandp':
        for bp in BP_KINDS:
            for bound in BOUNDS:
                if not _bound_ok(bound, bp, n):
                    continue
                for f in (F_GAUSS25, F_BOX1):
                    for fl in FLAGS_ALL:
                        yield _mk(box, g, seed, P_CONST, T_FLOAT, f, bp, bound, fl)
    elif box == 'fprof':
        for f in F_KINDS:
            poss = POSITIONS + (['side_hi', 'side_lo'] if f['kind'] == 'multiple_gaussian_f_profile' else [])
            for pos in poss:
                for d in (0.0, 0.7, -1.3):
                    for fl in FLAGS_FEW:
                        yield _mk(box, g, seed, dict(kind='constant_path', drift=d, pos=pos), T_FLOAT, f,
                                  BP_NONE, 'none', fl)
    elif box == 'forms':
        for pk in PATH_KINDS:
            for tk in T_KINDS:
                for bp in BP_KINDS:
                    for bound in ('none', 'inside'):
                        if not _bound_ok(bound, bp, n):
                            continue
                        for fl in FLAGS_2:
                            yield _mk(box, g, seed, dict(pk, pos='inside'), tk, F_GAUSS1, bp, bound, fl)


def error_cases(g, seed):
    m, n = g['tchans'], g['fchans']
    for good_form in ('array', 'scalar'):
        for sm in (False, True):
            for fi in (False, True):
                for arg in ('path', 't_profile', 'bp_profile'):
                    bads = [('len', 1), ('len', 2), ('len', -1), ('2d', 'col'), ('2d', 'row'),
                            ('type', 'str'), ('type', 'dict')]
                    if arg != 'bp_profile':
                        bads.append(('type', 'none'))          # None means "no bandpass" for bp_profile
                    for bad in bads:
                        right = {'path': m + 1 if sm else m, 't_profile': m, 'bp_profile': n}[arg]
                        if bad[0] == 'len' and right + bad[1] < 0:
                            continue
                        for container in (('array', 'list') if bad[0] != 'type' else ('-',)):
                            yield dict(box='errors', geom=g, seed=seed, good_form=good_form, sm=sm, fi=fi,
                                       arg=arg, bad=list(bad), container=container)
                for bad in (('type', 'float'), ('type', 'list'), ('type', 'str'), ('type', 'none')):
                    yield dict(box='errors', geom=g, seed=seed, good_form=good_form, sm=sm, fi=fi,
                               arg='f_profile', bad=list(bad), container='-')


BOXES = ['paths', 'tprof', 'bandp', 'fprof', 'forms']


def run(ctx):
    geoms = geometries(ctx.tier)
    ctx.pmap(case_selftest, [dict(selftest=1)], serial=True)
    counts = {}
    fam = [dict(box='rfi_family', f0=f0, rate=rate, spread=sp, n=n, dt=dt, spread_type=st, rfi_seed=100 + k + 31 * ctx.seed)
           for (f0, dt) in ((100.0, 1.0), (6e9, 18.253611008)) for rate in (0.0, 0.11) for sp in (1.5, 40.0)
           for st in ('uniform', 'normal') for n in (1, 2, 3, 4, 5, 12) for k in range(3)]
    counts['rfi_family'] = len(fam)
    ctx.pmap(case_rfi_family, fam)
    # errors first (tiny), then the value boxes, simplest geometry first
    errs = [c for g in geoms for c in error_cases(g, ctx.seed)]
    counts['errors'] = len(errs)
    ctx.pmap(case_error, errs)
    for box in BOXES:
        counts[box] = 0
        if ctx.tier == 'quick':
            cases = [c for g in geoms for c in box_cases(box, g, ctx.seed)]
            if box in ('paths', 'tprof', 'fprof'):
                # the same sub-box with unit-carrying arguments, every 4th case (every case in the thorough tier)
                cases += [dict(c, units=True) for c in cases[::4]]
            counts[box] += len(cases)
            ctx.pmap(case_signal, cases, label=box)
        else:
            for g in geoms:
                cases = list(box_cases(box, g, ctx.seed))
                if box in ('paths', 'tprof', 'fprof') and g is geoms[0]:
                    cases += [dict(c, units=True) for c in cases]
                counts[box] += len(cases)
                ctx.pmap(case_signal, cases, label=box)
                if ctx.cap_hit:
                    break
        if ctx.cap_hit:
            break
    px = ctx.extra.get('pixels_compared', 0)
    amb = ctx.extra.get('pixels_ambiguous', 0)
    if px and amb > 0.01 * (px + amb):
        raise engine.HarnessError('ambiguity mask covers %d of %d pixels (> 1%%): vacuous' % (amb, px + amb))
    return ctx.finish(
        rule='union of complete Cartesian sub-boxes (paths / tprof / bandp / fprof / forms / errors) over every '
             'geometry of the tier; every pixel of every returned array is compared with the scalar reference. '
             'A case is non-trivial when the compared pixels contain at least one non-zero (> 1e-6 of the peak) and '
             'one zero value, or when a sub-sample / smearing mean averaged >= 2 distinct sub-values; error cases '
             'are non-trivial by construction; distinct = distinct case descriptions',
        assumptions=[
            'a channel only partly covered by bounding_f_range may be computed or left zero (either accepted, '
            'nothing else); channels wholly outside must be exactly 0',
            'array/list bandpass together with a bounding range is not enumerated (required length unstated)',
            'tolerance = max|T| max|B| (1e-9 peak + Lipschitz bound x 64 ulp of the largest frequency); pixels '
            'within 64 ulp of a box edge / truncation point are not decided (counted in ambiguous_skipped)',
            'seeded families (simple_rfi_path with spread, periodic_gaussian_t_profile with jitter / rand / even '
            'pnum) are evaluated through an identically seeded twin called once on the documented grid; their '
            'closed forms are checked in the draw-free corners only',
            'squared_path is taken as f_start + drift_rate t^2 / 2',
            'custom callables are vectorised functions returning arrays for array input',
        ],
        coverage_extra={'bounds': {'geometries': len(geoms), 'tchans': sorted(set(g['tchans'] for g in geoms)),
                                   'fchans': sorted(set(g['fchans'] for g in geoms)),
                                   'df_dt_fch1': GEOM3[:2] if ctx.tier == 'quick' else GEOM3,
                                   'path_kinds': len(PATH_KINDS), 'positions': POSITIONS,
                                   't_profile_kinds': len(T_KINDS), 'f_profile_kinds': len(F_KINDS),
                                   'bp_kinds': len(BP_KINDS), 'bounding_kinds': BOUNDS,
                                   'flag_settings': len(FLAGS_ALL), 't_subsamples': [1, 3],
                                   'f_subsamples': [1, 2], 'smearing_subsamples': [1, 2, 5]},
                        'cases_per_box': counts})
