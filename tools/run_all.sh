#!/bin/bash
# tools/run_all.sh [tier] [seed...]  -- runs every enabled check sequentially, prints one summary line per run
cd "$(dirname "$0")/.." || exit 2
tier="${1:-quick}"; shift
seeds="${*:-0}"
rc_all=0
for s in $seeds; do
  for id in $(cat tools/enabled.txt); do
    out=$(VERIF_SEED=$s ./check "$id" --tier "$tier" 2>&1); rc=$?
    line=$(echo "$out" | grep -E "^$id tier=" | tail -1)
    echo "seed=$s rc=$rc $line"
    if [ $rc -ne 0 ]; then rc_all=1; echo "$out" | grep -E "VIOLATION|HARNESS-ERROR|violation detail" | head -5; fi
  done
done
exit $rc_all
