"""
Independent SIGPROC filterbank (.fil) header/data parser AND writer, plus a direct h5py reader
for the blimpy ".h5" (HDF5 filterbank) layout.

Written from the format description, NOT from blimpy's code (blimpy is never imported here):

  file   := record('HEADER_START') (keyword-record)* record('HEADER_END') payload
  record(k)        := int32-LE len(k) | ascii bytes of k
  keyword-record   := record(keyword) value
  value            := int32-LE                      (integer keywords)
                    | float64-LE                    (double keywords; src_raj / src_dej hold the
                                                     sexagesimal number hhmmss.s / ddmmss.s)
                    | int32-LE length | ascii bytes (string keywords)
  payload          := nints * nifs * nchans samples of nbits bits, time-major, channel index
                      fastest, in FILE CHANNEL ORDER: channel i sits at sky frequency
                      fch1 + i * foff  (MHz; foff < 0 = descending file).

  .h5 : dataset 'data' of shape (nints, nifs = 1, nchans); the header keywords are attributes of
        that dataset; root attribute CLASS = 'FILTERBANK'.

Only nifs = 1 and nbits in {8, 16, 32} are supported (32 -> float32), which is all setigen writes.
"""
import struct
from fractions import Fraction as Fr

import numpy as np

INT_KEYS = ('telescope_id', 'machine_id', 'data_type', 'barycentric', 'pulsarcentric', 'nbits',
            'nsamples', 'nchans', 'nifs', 'nbeams', 'ibeam')
DOUBLE_KEYS = ('az_start', 'za_start', 'tstart', 'tsamp', 'fch1', 'foff', 'refdm', 'period',
               'src_raj', 'src_dej')        # the two angle fields are float64 on disk as well
STR_KEYS = ('rawdatafile', 'source_name')
ANGLE_KEYS = ('src_raj', 'src_dej')

_DTYPES = {32: '<f4', 16: '<u2', 8: '<u1'}


class FormatError(Exception):
    pass


def _rec(s):
    b = s.encode('ascii')
    return struct.pack('<i', len(b)) + b


def pack_header(header):
    """Serialise `header` (ordered mapping keyword -> python value) to bytes."""
    out = [_rec('HEADER_START')]
    for k, v in header.items():
        if k in INT_KEYS:
            out.append(_rec(k) + struct.pack('<i', int(v)))
        elif k in DOUBLE_KEYS:
            out.append(_rec(k) + struct.pack('<d', float(v)))
        elif k in STR_KEYS:
            if isinstance(v, bytes):
                v = v.decode('ascii')
            out.append(_rec(k) + _rec(v))
        else:
            raise FormatError('unknown keyword %r' % (k,))
    out.append(_rec('HEADER_END'))
    return b''.join(out)


def default_header(nchans, fch1, foff, tsamp, tstart=59000.25, source_name='REFSRC', nbits=32):
    """A complete, typical header (MHz / s / MJD), in the usual keyword order."""
    h = {}
    h['machine_id'] = 20
    h['telescope_id'] = 6
    h['src_raj'] = 174540.0          # 17h45m40.0s
    h['src_dej'] = -282322.0         # -28d23m22.0s
    h['az_start'] = 0.0
    h['za_start'] = 0.0
    h['data_type'] = 1
    h['fch1'] = float(fch1)
    h['foff'] = float(foff)
    h['nchans'] = int(nchans)
    h['nbeams'] = 1
    h['ibeam'] = -1
    h['nbits'] = int(nbits)
    h['tstart'] = float(tstart)
    h['tsamp'] = float(tsamp)
    h['nifs'] = 1
    h['source_name'] = source_name
    h['rawdatafile'] = 'ref_sigproc'
    return h


def write_fil(path, header, data):
    """Write a filterbank file.  `data` has shape (nints, nchans) in FILE channel order."""
    data = np.asarray(data)
    if data.ndim != 2 or data.shape[1] != int(header['nchans']):
        raise FormatError('payload shape %s does not match nchans=%s' % (data.shape, header['nchans']))
    if int(header.get('nifs', 1)) != 1:
        raise FormatError('only nifs=1 is supported')
    dt = _DTYPES[int(header['nbits'])]
    with open(path, 'wb') as f:
        f.write(pack_header(header))
        f.write(np.ascontiguousarray(data, dtype=dt).tobytes())
    return path


def parse_header(buf):
    """Parse the header at the start of `buf`; returns (ordered dict, offset of the payload)."""
    pos = 0

    def take(n):
        nonlocal pos
        if pos + n > len(buf):
            raise FormatError('truncated header')
        b = buf[pos:pos + n]
        pos += n
        return b

    def take_str():
        (n,) = struct.unpack('<i', take(4))
        if n < 1 or n > 255:
            raise FormatError('bad string length %d at byte %d' % (n, pos - 4))
        return take(n).decode('ascii')

    if take_str() != 'HEADER_START':
        raise FormatError('file does not start with HEADER_START')
    hdr = {}
    while True:
        k = take_str()
        if k == 'HEADER_END':
            break
        if k in hdr:
            raise FormatError('keyword %s repeated' % k)
        if k in INT_KEYS:
            (hdr[k],) = struct.unpack('<i', take(4))
        elif k in DOUBLE_KEYS:
            (hdr[k],) = struct.unpack('<d', take(8))
        elif k in STR_KEYS:
            hdr[k] = take_str()
        else:
            raise FormatError('unknown keyword %r' % (k,))
    return hdr, pos


def read_fil(path):
    """Returns (header dict, payload of shape (nints, nchans) in file channel order, payload offset)."""
    with open(path, 'rb') as f:
        buf = f.read()
    hdr, off = parse_header(buf)
    for k in ('nchans', 'nbits', 'fch1', 'foff', 'tsamp', 'tstart'):
        if k not in hdr:
            raise FormatError('mandatory keyword %s missing' % k)
    nifs = hdr.get('nifs', 1)
    if nifs != 1:
        raise FormatError('nifs=%r not supported' % (nifs,))
    nch = hdr['nchans']
    if nch < 1:
        raise FormatError('nchans=%r' % (nch,))
    dt = np.dtype(_DTYPES[hdr['nbits']])
    nbytes = len(buf) - off
    row = nch * dt.itemsize
    if nbytes % row:
        raise FormatError('payload of %d bytes is not a whole number of %d-channel spectra' % (nbytes, nch))
    data = np.frombuffer(buf, dtype=dt, offset=off).reshape(nbytes // row, nch)
    return hdr, data, off


def read_h5(path):
    """Direct h5py reader of blimpy's layout.  Returns (header dict, data (nints, nchans), root attrs)."""
    import h5py
    try:
        import hdf5plugin  # noqa: F401  (registers the bitshuffle filter blimpy compresses with)
    except Exception:
        pass
    with h5py.File(path, 'r') as h:
        root = {}
        for k, v in h.attrs.items():
            root[k] = v.decode('ascii') if isinstance(v, bytes) else v
        if 'data' not in h:
            raise FormatError("no 'data' dataset")
        d = h['data']
        if d.ndim != 3 or d.shape[1] != 1:
            raise FormatError("'data' has shape %s, expected (nints, 1, nchans)" % (d.shape,))
        hdr = {}
        for k, v in d.attrs.items():
            if isinstance(v, (bytes, np.bytes_)):
                v = bytes(v).decode('ascii')
            elif isinstance(v, np.generic):
                v = v.item()
            hdr[k] = v
        data = np.array(d[:, 0, :])
    for k in ('nchans', 'fch1', 'foff', 'tsamp', 'tstart'):
        if k not in hdr:
            raise FormatError('mandatory attribute %s missing' % k)
    return hdr, data, root


# ----------------------------------------------------------------------------- axes from a header
def chan_freq_mhz(hdr, i):
    """Exact sky frequency (MHz, Fraction) of file channel i."""
    return Fr(float(hdr['fch1'])) + i * Fr(float(hdr['foff']))


def freqs_mhz_exact(hdr, n=None):
    n = int(hdr['nchans']) if n is None else n
    return [chan_freq_mhz(hdr, i) for i in range(n)]


def freqs_mhz(hdr, n=None):
    """File-order frequency axis (MHz, float64, correctly rounded from the exact rationals)."""
    return np.array([float(x) for x in freqs_mhz_exact(hdr, n)], dtype=float)


def times_s_exact(hdr, nints):
    return [i * Fr(float(hdr['tsamp'])) for i in range(nints)]


def sexagesimal_to_decimal(x):
    """hhmmss.s / ddmmss.s double -> decimal hours / degrees."""
    neg = x < 0
    x = abs(x)
    dd = int(x // 10000)
    x -= 10000 * dd
    mm = int(x // 100)
    ss = x - 100 * mm
    val = dd + mm / 60.0 + ss / 3600.0
    return -val if neg else val


MJD_UNIX_EPOCH = 40587      # MJD of 1970-01-01T00:00:00 (unix time ignores leap seconds)


def mjd_to_unix_exact(mjd):
    return (Fr(float(mjd)) - MJD_UNIX_EPOCH) * 86400


def unix_to_mjd_exact(t):
    return Fr(float(t)) / 86400 + MJD_UNIX_EPOCH
