"""
C17 -- Derived frames (slice, de-drift, integrate) keep data and axis registration.

E-PROD: the complete Cartesian box of (geometry, size, orientation, parent kind) x
  * every slice bound 0 <= l < r <= fchans (method and function form),
  * every drift rate of the declared list, both signs, given directly and through metadata,
    each followed by the "constant-drift box signal ends up in one column" experiment,
  * every (axis, mode, normalize, as_frame / wrapper, frame-or-ndarray input) of integrate
is executed on the real implementation and compared with the reference in mc/refs/derived.py.

Parent kinds: 'syn' (synthetic, no Waterfall), 'syn_wf' (synthetic after get_waterfall()), 'fil'
(loaded from a .fil written with Frame.save_fil), thorough tier also 'h5' (loaded from a .h5) and --
derived frames are frames -- 'sliced' / 'fil_sliced' (a slice of a wider synthetic / file-backed frame).

Oracle rules (DESIGN.md section 3): de-drift offsets are accepted within 1/2+eps of the exact
rational |d|*i*dt/df (rule 1); frequency axes are compared in ulps (rule 3); data are compared bit for
bit (rule 5); `setigen.frame.time` is replaced by a counter clock (rule 7), so a leaked wall-clock
stamp is deterministic (-1e9-k); how much a de-drifted frame is trimmed beyond the common band, and
whether a rate between "the implementation's own trim leaves nothing" and "the common band is empty"
is rejected, is not decided (rule 8).
"""
import io, os, math, contextlib
from fractions import Fraction as Fr
import json
import numpy as np

from mc import engine
from mc.refs.axes import F, ulp, close_ulps
from mc.refs import derived as R

PROPERTY = 'C17'
LEVEL = 'exploration'

K_AXIS = 4                    # ulps of the largest axis magnitude between derived and parent grid points
T0 = 1600000000.25            # explicit start time of synthetic parents (exact double)
NAME = 'C17-SRC'
T_TOL = 1e-5                  # seconds; MJD-double resolution is 6e-7 s, a leaked clock is off by > 1e9 s

GEOMS = {                     # df [Hz], dt [s], fch1 [Hz]
    'unit': (1.0, 1.0, 100.0),
    'bl': (2.7939677238464355, 18.253611008, 6e9),
    'half': (2.0, 0.5, 1e9),
}
# geometry of the typed-rate sub-box only: channels 64 Hz wide, so that whole-number rates of 64, 128 Hz/s are 1, 2 channels per row
GEOM_WIDE = ('wide', (64.0, 1.0, 1e6))
GEOMS_ALL = dict(GEOMS, **{GEOM_WIDE[0]: GEOM_WIDE[1]})
SIZES_Q = [(1, 5), (6, 2), (2, 5), (5, 1), (4, 9), (3, 16)]            # (tchans, fchans)
SIZES_T = [(1, 1), (1, 5), (2, 2), (6, 2), (2, 5), (5, 1), (4, 9), (3, 16), (9, 4), (16, 33), (7, 64)]
KINDS_Q = ['syn', 'syn_wf', 'fil', 'syn0', 'h5']
KINDS_T = ['syn', 'syn_wf', 'fil', 'h5', 'sliced', 'fil_sliced', 'syn0']
Q_BASE_Q = [0.3, 0.5, 1.0, 1.7, 2.0]
Q_BASE_T = [0.05, 0.3, 0.5, 0.99, 1.0, 1.01, 1.5, 1.7, 2.0, 2.5, 3.3, 7.0]
AXES = ['t', 'f', 0, 1]
MODES = ['mean', 'sum']


# ----------------------------------------------------------------------------- owned clock
class _Clock(object):
    """Stands in for the `time` module inside setigen.frame: a counter, obviously not a wall clock."""
    def __init__(self):
        self.k = 0

    def time(self):
        self.k += 1
        return -1.0e9 - self.k


@contextlib.contextmanager
def _owned_clock():
    import setigen.frame as sf
    old = sf.time
    clk = _Clock()
    sf.time = clk
    try:
        yield clk
    finally:
        sf.time = old


# ----------------------------------------------------------------------------- parents
def _synthetic(c, n):
    import setigen as stg
    df, dt, fch1 = GEOMS_ALL[c['geom']]
    data = R.ramp(c['m'], n, c['seed'])
    # 'syn0': a parent at the Unix epoch with an empty source name (falsy values must be carried over like any other)
    t0, nm = (0.0, '') if c.get('kind') == 'syn0' else (T0, NAME)
    return stg.Frame(shape=(c['m'], n), df=df, dt=dt, fch1=fch1, ascending=c['asc'], data=data,
                     t_start=t0, source_name=nm, seed=c['seed'])


def _loaded(c, n, ext='fil'):
    import setigen as stg
    key = engine.sha([c['geom'], c['m'], n, c['asc'], c['seed']])
    path = os.path.join(engine.workdir(), 'c17_%s.%s' % (key, ext))
    if not os.path.exists(path):
        fr = _synthetic(c, n)
        (fr.save_fil if ext == 'fil' else fr.save_h5)(path)
    return stg.Frame(path)


def _parent(c):
    """A fresh parent frame of the requested kind (never a deepcopy of another one)."""
    kind, n = c['kind'], c['n']
    with contextlib.redirect_stdout(io.StringIO()):
        if kind in ('syn', 'syn0'):
            return _synthetic(c, n)
        if kind == 'syn_wf':
            fr = _synthetic(c, n)
            fr.get_waterfall()
            return fr
        if kind == 'fil':
            return _loaded(c, n)
        if kind == 'h5':
            return _loaded(c, n, 'h5')
        if kind == 'sliced':
            return _synthetic(c, n + 2).get_slice(1, n + 1)
        if kind == 'fil_sliced':
            return _loaded(c, n + 2).get_slice(1, n + 1)
    raise ValueError(kind)


# ----------------------------------------------------------------------------- shared checks
def _fs_close(got, want):
    """Largest deviation in ulps of the largest magnitude (inf on shape mismatch)."""
    got, want = np.asarray(got, dtype=float), np.asarray(want, dtype=float)
    if got.shape != want.shape:
        return float('inf')
    if got.size == 0:
        return 0.0
    scale = max(float(np.abs(want).max()), float(np.abs(got).max()))
    return float(np.abs(got.astype(np.longdouble) - want.astype(np.longdouble)).max()) / ulp(scale)


def _meta_checks(P, C, V, site, kind):
    """Orientation, resolutions, start time, source name.  kind: 'frame' | 'spectrum' | 'timeseries'."""
    if getattr(C, 'metadata', None) is not None and C.metadata is getattr(P, 'metadata', None):
        V(site, 'metadata_shared', 'the derived frame and its parent share ONE metadata dictionary (a drift_rate recorded on one '
          'is then used when the other is de-drifted from its metadata)')
    if bool(C.ascending) != bool(P.ascending):
        V(site, 'orientation', 'ascending=%r, parent %r' % (C.ascending, P.ascending))
    if kind == 'timeseries':
        want = F(P.df) * P.fchans
        if not close_ulps(C.df, want, float(want), 2):
            V(site, 'df', 'time series df=%r, integrated extent fchans*df=%r' % (C.df, float(want)))
    elif C.df != P.df:
        V(site, 'df', 'df=%r, parent %r' % (C.df, P.df))
    if kind == 'spectrum':
        want = F(P.dt) * P.tchans
        if not close_ulps(C.dt, want, float(want), 2):
            V(site, 'dt', 'spectrum dt=%r, integrated extent tchans*dt=%r' % (C.dt, float(want)))
    elif C.dt != P.dt:
        V(site, 'dt', 'dt=%r, parent %r' % (C.dt, P.dt))
    try:
        ok_t = abs(float(C.t_start) - float(P.t_start)) <= T_TOL
    except Exception:
        ok_t = False
    if not ok_t:
        V(site, 't_start_lost', 't_start=%r, parent %r (the owned clock returns -1e9-k)' % (C.t_start, P.t_start))
    if C.source_name != P.source_name:
        V(site, 'source_name_lost', 'source_name=%r, parent %r' % (C.source_name, P.source_name))


def _copy_checks(P, C, V, site, res):
    """Writes on either side leave the other side bit-identical."""
    if np.shares_memory(P.data, C.data):
        V(site, 'data_view', 'derived data share memory with the parent data')
    p0, c0 = np.array(P.data, copy=True), np.array(C.data, copy=True)
    try:
        C.data[...] = C.data * 3 + 1
        wrote = True
    except ValueError:
        wrote = False
        res['extra']['readonly_child'] = res['extra'].get('readonly_child', 0) + 1
    if wrote:
        if not (np.array_equal(P.data, p0) and P.data.tobytes() == p0.tobytes()):
            V(site, 'write_through_to_parent', 'writing to the derived data changed the parent data')
        C.data[...] = c0
    try:
        P.data[...] = P.data * 5 - 2
        wrote = True
    except ValueError:
        wrote = False
        res['extra']['readonly_parent'] = res['extra'].get('readonly_parent', 0) + 1
    if wrote:
        if C.data.tobytes() != c0.tobytes():
            V(site, 'write_through_to_child', 'writing to the parent data changed the derived data')
        P.data[...] = p0
    res['extra']['copy_checks'] = res['extra'].get('copy_checks', 0) + 1


def _parent_intact(P, p0, fs0, V, site):
    if P.data.shape != p0.shape or P.data.tobytes() != p0.astype(P.data.dtype).tobytes() \
            or not np.array_equal(P.fs, fs0):
        V(site, 'parent_modified', 'taking the derived frame changed the parent data / frequency axis')
    # a parent loaded from an HDF5 file keeps a reader with an open file handle: it must still be there (the reader is
    # the parent's -- and possibly the caller's -- object, re-reading through it must keep working)
    wf = getattr(P, 'waterfall', None)
    cont = getattr(wf, 'container', None)
    if cont is not None and type(cont).__name__ == 'H5Reader' and not hasattr(cont, 'h5'):
        V(site, 'parent_reader_broken', 'taking the derived frame removed the open HDF5 handle from the PARENT\'s Waterfall reader '
          '(read_data on it now raises AttributeError)')


# ----------------------------------------------------------------------------- slice
def _do_slice(c, P, V, res):
    import setigen as stg
    l, r = c['l'], c['r']
    m, n = P.data.shape
    la, ra = l, r
    # (sub-box) the same bounds written the Python way from the end of the band: [l - n, r), [l, r - n), [l - n, r - n)
    if c.get('neg') in ('l', 'lr'):
        la = l - n
    if c.get('neg') in ('r', 'lr'):
        ra = r - n
    for api in ('method', 'func'):
        site = 'get_slice'
        p0, fs0, ts0 = np.array(P.data, copy=True), np.array(P.fs, copy=True), np.array(P.ts, copy=True)
        res['n'] += 1
        try:
            with contextlib.redirect_stdout(io.StringIO()):
                S = P.get_slice(la, ra) if api == 'method' else stg.get_slice(P, la, ra)
        except Exception as e:
            V(site, 'raised', '%s(%d, %d): %s: %s' % (api, la, ra, type(e).__name__, e))
            continue
        if not isinstance(S, stg.Frame):
            V(site, 'type', 'returned %s' % type(S).__name__)
            continue
        w = r - l
        if S.data.shape != (m, w) or tuple(S.shape) != (m, w) or S.fchans != w or S.tchans != m:
            V(site, 'shape', 'slice [%d,%d) of %s has data %s shape %s fchans %s tchans %s'
              % (la, ra, (m, n), S.data.shape, S.shape, S.fchans, S.tchans))
        elif not np.array_equal(S.data, p0[:, l:r]):
            V(site, 'data_columns', 'data of slice [%d,%d) are not columns %d..%d of the parent' % (la, ra, l, r - 1))
        e = _fs_close(S.fs, fs0[l:r])
        if e > K_AXIS + 0.01:
            V(site, 'fs_columns', 'fs of slice [%d,%d) of %d channels = %r..%r, parent columns %r..%r (%.3g ulp)'
              % (la, ra, n, S.fs[0], S.fs[-1], fs0[l], fs0[r - 1], e))
        if _fs_close(S.ts, ts0) > K_AXIS + 0.01:
            V(site, 'ts', 'time axis of the slice differs from the parent')
        _parent_intact(P, p0, fs0, V, site)
        _meta_checks(P, S, V, site, 'frame')
        _copy_checks(P, S, V, site, res)
    if (l, r) != (0, n):
        res['nontrivial'].append(engine.sha(c))
    res['outcomes'].append('slice/%d' % (r - l))


# ----------------------------------------------------------------------------- de-drift
def _dedrift_call(P, d, route):
    import setigen as stg
    with contextlib.redirect_stdout(io.StringIO()):
        if route in ('direct', 'direct_kw', 'direct_np'):
            # an explicit rate (zero included) takes precedence over whatever the frame's metadata says: the metadata
            # carries a DIFFERENT non-zero rate as a decoy while the explicit routes are exercised
            decoy = 0.77 * P.df / P.dt if d <= 0 else -0.77 * P.df / P.dt
            P.metadata['drift_rate'] = decoy
            try:
                if route == 'direct':
                    return stg.dedrift(P, d)
                if route == 'direct_np':
                    # the same whole-number rate as a numpy fixed-width integer (products with the row index must not wrap)
                    return stg.dedrift(P, np.uint8(d) if 0 <= d < 256 else np.int16(d))
                return stg.dedrift(P, drift_rate=d)
            finally:
                # the parent is an input: the rate recorded on it is what it was (a later de-drift from its metadata uses it)
                if P.metadata.get('drift_rate') != decoy:
                    P._c17_meta_changed = (decoy, P.metadata.get('drift_rate'))
                P.metadata.pop('drift_rate', None)
        P.metadata['drift_rate'] = d
        return stg.dedrift(P)


def _check_dedrift_result(P, p0, fs0, D, d, V, site):
    """Returns (c0, W, offsets) when the registration could be established, else None."""
    import setigen as stg
    m, n = p0.shape
    df, dt = P.df, P.dt
    if getattr(P, '_c17_meta_changed', None) is not None:
        V(site, 'parent_metadata_changed', 'de-drifting with an explicit rate %r changed the drift rate recorded on the PARENT from %r to %r'
          % (d, P._c17_meta_changed[0], P._c17_meta_changed[1]))
        P._c17_meta_changed = None
    if not isinstance(D, stg.Frame):
        V(site, 'type', 'returned %s' % type(D).__name__)
        return None
    if D.data.ndim != 2 or D.data.shape[0] != m or tuple(D.shape) != D.data.shape \
            or D.fchans != D.data.shape[1] or D.tchans != m:
        V(site, 'shape', 'de-drifted data %s shape %s fchans %s tchans %s from parent %s'
          % (D.data.shape, D.shape, D.fchans, D.tchans, (m, n)))
        return None
    W = D.data.shape[1]
    if not (1 <= W <= n):
        V(site, 'width', 'de-drifted width %d from %d channels' % (W, n))
        return None
    # frequency registration of the output columns
    c0r = (np.longdouble(D.fs[0]) - np.longdouble(fs0[0])) / np.longdouble(df)
    c0 = int(np.round(float(c0r)))
    if c0 < 0 or c0 + W > n or _fs_close(D.fs, fs0[c0:c0 + W]) > K_AXIS + 0.01:
        V(site, 'fs_registration', 'output fs %r..%r (width %d) are not parent grid points %d.. (parent fs %r..%r)'
          % (D.fs[0], D.fs[-1], W, c0, fs0[0], fs0[-1]))
        return None
    if not np.array_equal(D.data[0], p0[0, c0:c0 + W]):
        V(site, 'row0_moved', 'row 0 of the output is not the parent row 0 at the same frequencies '
          '(output column 0 = parent column %d): out %r parent %r' % (c0, D.data[0][:4].tolist(),
                                                                    p0[0, c0:c0 + 4].tolist()))
        return None
    sgn = 1 if d > 0 else (-1 if d < 0 else 0)
    offs = [0]
    for i in range(1, m):
        hit = np.nonzero(p0[i] == D.data[i, 0])[0]
        if len(hit) != 1:
            V(site, 'row_content', 'row %d: first output pixel %r is not a pixel of parent row %d' % (i, D.data[i, 0], i))
            return None
        s = int(hit[0])
        if s + W > n or not np.array_equal(D.data[i], p0[i, s:s + W]):
            V(site, 'row_content', 'row %d of the output is not a contiguous run of parent row %d starting at %d' % (i, i, s))
            return None
        y = R.shift_real(d, i, dt, df)
        q = (s - c0) * sgn if sgn else (s - c0)
        if sgn == 0:
            ok = (s == c0)
        else:
            ok = q >= 0 and R.admissible(q, y)
            if not ok and q < 0 and R.admissible(-q, y) and q != 0:
                V(site, 'row_direction', 'row %d moved %d channel(s) away from the start of the drift (d=%r)' % (i, -q, d))
                return None
        if not ok:
            V(site, 'row_offset', 'row %d shifted by %d channels, |d|*i*dt/df = %.6f (d=%r)' % (i, q, float(y), d))
            return None
        offs.append(q)
    return c0, W, offs


def _signal_experiment(c, d, c0, W, ref_fs, V, res):
    """A constant-drift box signal injected first must end up within one channel of a single column."""
    import setigen as stg
    site = 'dedrift'
    P2 = _parent(c)
    m, n = P2.data.shape
    P2.data = np.zeros((m, n))
    k0 = W // 2
    j0 = c0 + k0
    f0 = float(P2.fs[j0])
    P2.add_signal(stg.constant_path(f_start=f0, drift_rate=d), stg.constant_t_profile(level=1.0),
                  stg.box_f_profile(width=P2.df))
    lit = int(np.count_nonzero(P2.data))
    res['n'] += 1
    try:
        with contextlib.redirect_stdout(io.StringIO()):
            D2 = stg.dedrift(P2, d)
    except Exception as e:
        V(site, 'geometry_depends_on_data', 'de-drift of the signal frame raised %s: %s' % (type(e).__name__, e))
        return
    if D2.data.shape != (m, W) or not np.array_equal(D2.fs, ref_fs):
        V(site, 'geometry_depends_on_data', 'de-drift of the signal frame has shape %s / different fs' % (D2.data.shape,))
        return
    cols_seen = set()
    for i in range(m):
        y = R.shift_real(d, i, P2.dt, P2.df)
        S = set(int(k) for k in np.nonzero(D2.data[i])[0])
        cols_seen |= S
        if not S <= {k0 - 1, k0, k0 + 1}:
            V(site, 'signal_not_aligned', 'row %d: signal started in output column %d but is found in columns %s '
              '(d=%r, |d|*i*dt/df=%.4f)' % (i, k0, sorted(S), d, float(y)))
            return
        if not S:
            if 1 <= k0 <= W - 2 and not R.near_tie(y):
                V(site, 'signal_lost', 'row %d: the signal pixel is missing from the output (expected column %d+-1)' % (i, k0))
                return
            res['ambiguous'] += 1
            res['extra']['undecided_signal_row'] = res['extra'].get('undecided_signal_row', 0) + 1
    if lit and cols_seen:
        res['extra']['signal_experiments'] = res['extra'].get('signal_experiments', 0) + 1
        res['extra']['signal_single_column'] = res['extra'].get('signal_single_column', 0) + (len(cols_seen) == 1)


def _do_dedrift(c, P, V, res):
    import setigen as stg
    site = 'dedrift'
    m, n = P.data.shape
    unit = P.df / P.dt
    d = float(c['q']) * unit
    y_last = R.shift_real(d, m - 1, P.dt, P.df)          # largest shift actually applied to a row
    z_full = R.shift_real(d, m, P.dt, P.df)              # drift over the full frame duration
    must_raise = R.all_roundings_at_least(y_last, n)     # even the common band is empty
    must_return = R.all_roundings_below(z_full, n)       # below the frame's limit under either convention
    first = None
    for route in ('direct', 'metadata', 'direct_kw') + (('direct_np',) if float(d).is_integer() and abs(d) < 2 ** 15 else ()):
        p0, fs0 = np.array(P.data, copy=True), np.array(P.fs, copy=True)
        res['n'] += 1
        # deterministic history (see C01's decoy): a frame with the same number of integrations and OTHER resolutions was
        # de-drifted at the same rate just before, in every process -- a memo shared between calls and keyed on the rate and the
        # shape alone (seeded change C17-34) is then wrong for the call under test whenever this case is executed
        try:
            stg.dedrift(stg.Frame(fchans=n + 3, tchans=m, df=P.df * 2.0, dt=P.dt * 1.5, fch1=float(P.fch1), ascending=bool(P.ascending),
                                  data=np.ones((m, n + 3))), d)
        except Exception:
            pass
        try:
            D = _dedrift_call(P, d, route)
            exc = None
        except ValueError as e:
            D, exc = None, e
        except Exception as e:
            V(site, 'raised', '%s route, d=%r: %s: %s' % (route, d, type(e).__name__, e))
            continue
        _parent_intact(P, p0, fs0, V, site)
        if exc is not None:
            if must_return:
                V(site, 'rejected_below_limit', 'd=%r (%.4f channels over the frame, %d channels wide) rejected: %s'
                  % (d, float(z_full), n, exc))
            out = 'ValueError'
            cur = ('exc',)
        else:
            if must_raise:
                V(site, 'accepted_beyond_limit', 'd=%r shifts the last row by %.4f channels in a %d channel frame, '
                  'yet a frame of shape %s was returned' % (d, float(y_last), n, getattr(D, 'shape', None)))
            reg = _check_dedrift_result(P, p0, fs0, D, d, V, site)
            if reg is None:
                cur = ('bad',)
            else:
                c0, W, offs = reg
                cur = ('ok', W, D.data.tobytes(), np.asarray(D.fs).tobytes())
                _meta_checks(P, D, V, site, 'frame')
                if _fs_close(D.ts, P.ts) > K_AXIS + 0.01:
                    V(site, 'ts', 'time axis of the de-drifted frame differs from the parent')
                _copy_checks(P, D, V, site, res)
                if route == 'direct':
                    _signal_experiment(c, d, c0, W, np.array(D.fs, copy=True), V, res)
                    if max(offs) >= 1:
                        res['nontrivial'].append(engine.sha(c))
                    out = 'ok/W%d/max%d/%s' % (W, max(offs), 'neg' if d < 0 else 'pos')
                    res['extra']['trim_beyond_common_band'] = res['extra'].get('trim_beyond_common_band', 0) + \
                        (W < n - max(offs))
        if route == 'direct':
            first = cur
            res['outcomes'].append('dedrift/' + (out if cur[0] != 'bad' else 'bad'))
            if not must_raise and not must_return:
                res['extra']['limit_zone_' + ('raised' if exc is not None else 'returned')] = \
                    res['extra'].get('limit_zone_' + ('raised' if exc is not None else 'returned'), 0) + 1
        elif first is not None and cur != first and 'bad' not in (cur[0], first[0]):
            V(site, 'route_differs', 'de-drift by d=%r through %s differs from the direct call' % (d, route))
        P.metadata.pop('drift_rate', None)


def _do_dedrift_nometa(c, P, V, res):
    """No rate given and none in the metadata: what happens is not stated by the property (recorded only)."""
    import setigen as stg
    P.metadata.pop('drift_rate', None)
    try:
        with contextlib.redirect_stdout(io.StringIO()):
            stg.dedrift(P)
        res['outcomes'].append('dedrift_nometa/returned')
    except Exception as e:
        res['outcomes'].append('dedrift_nometa/%s' % type(e).__name__)


# ----------------------------------------------------------------------------- integrate
def _do_integrate(c, P, V, res):
    import setigen as stg
    site = 'integrate'
    axis, mode, norm, form = c['axis'], c['mode'], c['normalize'], c['form']
    m, n = P.data.shape
    ax = 1 if axis in ('f', 1) else 0
    p0, fs0, ts0 = np.array(P.data, copy=True), np.array(P.fs, copy=True), np.array(P.ts, copy=True)
    ref, aabs, L = R.integrate_ref(p0, ax, mode)
    res['n'] += 1
    if form in ('as_frame', 'wrapper'):
        # deterministic process history: a spectrum / time series of a frame with the same (fchans, df, fch1) and the OPPOSITE
        # orientation has just been made (anything kept per band outside the objects is then the other orientation's)
        try:
            with contextlib.redirect_stdout(io.StringIO()):
                dec = stg.Frame(shape=(m, n), df=P.df, dt=P.dt, fch1=P.fch1, ascending=not P.ascending, data=np.array(P.data, dtype=float))
                stg.integrate(dec, axis=axis, mode=mode, normalize=False, as_frame=True)
        except Exception:
            pass
    try:
        with contextlib.redirect_stdout(io.StringIO()):
            if form == 'array':
                out = stg.integrate(P, axis=axis, mode=mode, normalize=norm)
            elif form == 'array_positional':
                out = stg.integrate(P, axis, mode, norm, False)
            elif form == 'ndarray_in':
                out = stg.integrate(P.data, axis=axis, mode=mode, normalize=norm)
            elif form == 'as_frame':
                out = stg.integrate(P, axis=axis, mode=mode, normalize=norm, as_frame=True)
            elif form == 'wrapper':
                out = (stg.timeseries if ax else stg.spectrum)(P, mode=mode, normalize=norm)
            else:
                raise ValueError(form)
    except Exception as e:
        V(site, 'raised', '%s: %s' % (type(e).__name__, e))
        return
    _parent_intact(P, p0, fs0, V, site)
    want_len = m if ax else n
    if form in ('as_frame', 'wrapper'):
        kind = 'timeseries' if ax else 'spectrum'
        cls = stg.TimeSeries if ax else stg.Spectrum
        if not isinstance(out, cls):
            V(site, 'type', 'axis=%r gave %s, expected %s' % (axis, type(out).__name__, cls.__name__))
            return
        want_shape = (m, 1) if ax else (1, n)
        if out.data.shape != want_shape or tuple(out.shape) != want_shape:
            V(site, 'shape', '%s data shape %s, expected %s' % (cls.__name__, out.data.shape, want_shape))
            return
        got = np.asarray(out.data).reshape(-1)
        if ax:
            if _fs_close(out.ts, ts0) > K_AXIS + 0.01:
                V(site, 'timeseries_ts', 'time series ts %r.. differs from the parent ts %r..' % (out.ts[:3].tolist(), ts0[:3].tolist()))
            if len(out.fs) != 1 or not (fs0[0] - ulp(fs0[-1]) <= out.fs[0] <= fs0[-1] + ulp(fs0[-1])):
                V(site, 'timeseries_fs', 'time series frequency %r outside the parent band %r..%r' % (out.fs, fs0[0], fs0[-1]))
        else:
            e = _fs_close(out.fs, fs0)
            if e > K_AXIS + 0.01:
                V(site, 'spectrum_fs', 'spectrum fs %r..%r differs from the parent fs %r..%r' % (out.fs[0], out.fs[-1], fs0[0], fs0[-1]))
            if len(out.ts) != 1 or out.ts[0] != 0:
                V(site, 'spectrum_ts', 'spectrum ts %r' % (out.ts,))
        _meta_checks(P, out, V, site, kind)
        _copy_checks(P, out, V, site, res)
        got = np.array(out.data, copy=True).reshape(-1)
        # the object's own read-only helpers (array(), autocorr / acf of a time series) leave what it holds as it is
        held = np.array(out.data, copy=True)
        for hname in ('array', 'autocorr', 'acf'):
            h = getattr(out, hname, None)
            if callable(h):
                try:
                    h()
                except Exception:
                    pass
        if out.data.shape != held.shape or not np.array_equal(out.data, held, equal_nan=True):
            V(site, 'helper_modified_data', 'calling array()/autocorr()/acf() on the %s changed the integrated values it holds' % cls.__name__)
    else:
        if not isinstance(out, np.ndarray) or out.shape != (want_len,):
            V(site, 'shape', 'integrate returned %s %s, expected a (%d,) array'
              % (type(out).__name__, getattr(out, 'shape', None), want_len))
            return
        got = out
    # values
    # precision of the arithmetic = the coarser of the parent's data type and the result's type
    eps = max([float(np.finfo(t).eps) for t in (got.dtype, p0.dtype) if np.issubdtype(t, np.floating)] + [2.0 ** -52])
    tol = 8 * L * eps * aabs + 1e-300
    if not norm:
        bad = np.abs(got.astype(float) - ref) > tol
        if bad.any():
            j = int(np.nonzero(bad)[0][0])
            V(site, 'integrated_values', 'axis=%r mode=%s: entry %d is %r, per-%s %s is %r'
              % (axis, mode, j, float(got[j]), 'row' if ax else 'column', mode, float(ref[j])))
    else:
        z, mu, sd = R.normalise_ref(ref)
        if z is None or float(np.abs(ref - mu).max()) > 2.9 * sd:
            res['ambiguous'] += 1           # constant array (std 0) or sigma clipping would bite: not decided
            k = 'undecided_normalise_' + ('constant' if z is None else 'clipping')
            res['extra'][k] = res['extra'].get(k, 0) + 1
        else:
            tz = (4 * float(tol.max()) / sd) * (1 + np.abs(z)) + 64 * eps * (1 + np.abs(z))
            bad = ~(np.abs(got.astype(float) - z) <= tz)
            if bad.any():
                j = int(np.nonzero(bad)[0][0])
                V(site, 'normalised_values', 'axis=%r mode=%s: entry %d is %r, (x-mean)/std is %r'
                  % (axis, mode, j, float(got[j]), float(z[j])))
    if L >= 2:
        res['nontrivial'].append(engine.sha(c))
    res['outcomes'].append('integrate/%s/%s/%s/%s' % ('f' if ax else 't', mode, norm, form))


# ----------------------------------------------------------------------------- case function

def _do_normalize(c, P, V, res):
    """sigma_clip_norm (the stand-alone form of the normalisation integrate() offers): the normalised frame is another derived
    frame -- the parent (and a separate background frame) stay as they were, the result owns its data and keeps the parent's
    registration; its values are (x - mean(clipped background)) / std(clipped background)."""
    import setigen as stg
    from astropy.stats import sigma_clip
    site = 'sigma_clip_norm'
    p0 = np.array(P.data, copy=True)
    fs0 = np.array(P.fs, copy=True)
    B = None
    if c['bg']:
        B = P.copy()
        B.data = B.data * 0.5 + 3.0
    b0 = None if B is None else np.array(B.data, copy=True)
    try:
        N = stg.sigma_clip_norm(P, axis=c['naxis'], background=B)
    except Exception as e:
        V(site, 'raised', '%s: %s' % (type(e).__name__, e))
        return
    res['n'] += 1
    _parent_intact(P, p0, fs0, V, site)
    if B is not None and not np.array_equal(B.data, b0):
        V(site, 'background_modified', 'the background frame\'s data were changed')
    if not isinstance(N, stg.Frame):
        V(site, 'type', 'returned %s for a Frame' % type(N).__name__)
        return
    if N.data is P.data or np.shares_memory(N.data, P.data) or (B is not None and np.shares_memory(N.data, B.data)):
        V(site, 'data_view', 'the normalised frame shares its data with the parent / the background')
    ax = {None: None, 't': 0, 0: 0, 'f': 1, 1: 1}[c['naxis']]
    bgd = p0 if b0 is None else b0
    cl = sigma_clip(bgd.astype(float), axis=ax, masked=True)
    if np.ma.count_masked(cl) == 0:
        sd = np.std(bgd.astype(float), axis=ax, keepdims=True)
        if np.all(sd > 0):
            want = (p0.astype(float) - np.mean(bgd.astype(float), axis=ax, keepdims=True)) / sd
            if N.data.shape != want.shape or not np.allclose(N.data, want, rtol=1e-6, atol=1e-6):
                V(site, 'normalised_values', 'values are not (x - mean) / std of the background along axis %r' % (c['naxis'],))
        else:
            res['ambiguous'] += 1
    else:
        res['ambiguous'] += 1
    if not np.array_equal(N.fs, fs0) or N.ascending != P.ascending or N.df != P.df or N.dt != P.dt:
        V(site, 'registration', 'the normalised frame does not keep the parent\'s frequency axis / orientation / resolutions')
    N.data[0, 0] += 1.0
    if not np.array_equal(P.data, p0):
        V(site, 'write_through_to_parent', 'writing into the normalised frame changed the parent')
    res['outcomes'].append('norm/%s/%s' % (c['naxis'], c['bg']))
    res['nontrivial'].append(engine.sha(c))


def case_op(c):
    viol = []

    def V(site, failure, detail):
        viol.append({'site': site, 'failure': failure, 'detail': detail})

    res = {'viol': viol, 'n': 0, 'nontrivial': [], 'outcomes': [], 'ambiguous': 0, 'extra': {}}
    with _owned_clock():
        try:
            P = _parent(c)
        except (Exception, SystemExit) as e:         # blimpy's readers may call sys.exit
            V('parent', 'construction_raised', '%s: %s' % (type(e).__name__, e))
            return res
        if P.data.shape != (c['m'], c['n']):
            V('parent', 'shape', 'parent of kind %s has shape %s' % (c['kind'], P.data.shape))
            return res
        op = c['op']
        if op == 'slice':
            _do_slice(c, P, V, res)
        elif op == 'dedrift':
            _do_dedrift(c, P, V, res)
        elif op == 'dedrift_nometa':
            _do_dedrift_nometa(c, P, V, res)
            res['n'] += 1
        elif op == 'integrate':
            _do_integrate(c, P, V, res)
        elif op == 'normalize':
            _do_normalize(c, P, V, res)
        else:
            raise ValueError(op)
    return res


# ----------------------------------------------------------------------------- enumeration
def _q_list(m, n, tier):
    base = Q_BASE_T if tier == 'thorough' else Q_BASE_Q
    qs = [0.0]
    mags = list(base)
    ql = (n - 0.5) / m                       # the implementation's limit: round(q*tchans) reaches fchans
    mags += [ql - 0.01, ql, ql + 0.01]
    if m > 1:
        qc = (n - 0.5) / (m - 1)             # common-band limit: the last row's shift reaches fchans
        mags += [qc - 0.01, qc, qc + 0.01]
    else:
        mags += [3.0 * n]
    seen = set()
    for q in mags:
        q = round(q, 9)
        if q <= 0 or q in seen:
            continue
        seen.add(q)
        qs += [q, -q]
    return qs


def run(ctx):
    thorough = ctx.tier == 'thorough'
    sizes = SIZES_T if thorough else SIZES_Q
    kinds = KINDS_T if thorough else KINDS_Q
    parents = []
    for (m, n) in sizes:                     # simplest first
        for kind in kinds:
            if kind == 'h5' and (m < 3 or n < 3):
                continue                     # blimpy's HDF5 reader refuses files with < 3 rows / channels
            for geom in GEOMS:
                for asc in (True, False):
                    parents.append(dict(geom=geom, m=m, n=n, asc=asc, kind=kind, seed=int(ctx.seed)))
    sl, dd, ig = [], [], []
    for p in parents:
        m, n = p['m'], p['n']
        for l in range(n):
            for r in range(l + 1, n + 1):
                sl.append(dict(p, op='slice', l=l, r=r))
                if l > 0:
                    sl.append(dict(p, op='slice', l=l, r=r, neg='l'))
                if r < n:
                    sl.append(dict(p, op='slice', l=l, r=r, neg='r'))
                if l > 0 and r < n:
                    sl.append(dict(p, op='slice', l=l, r=r, neg='lr'))
        for q in _q_list(m, n, ctx.tier):
            dd.append(dict(p, op='dedrift', q=q))
        dd.append(dict(p, op='dedrift_nometa'))
        if p['geom'] == 'unit' and p['kind'] == 'syn':
            # (sub-box) whole-number rates on wide channels, handed over as numpy fixed-width integers
            for q in (1.0, 2.0, -1.0, -2.0, 3.0):
                dd.append(dict(p, geom='wide', op='dedrift', q=q))
        for axis in AXES:
            for mode in MODES:
                for norm in (False, True):
                    for form in ('array', 'as_frame', 'ndarray_in'):
                        ig.append(dict(p, op='integrate', axis=axis, mode=mode, normalize=norm, form=form))
        for ax in ('t', 'f'):
            for mode in MODES:
                for norm in (False, True):
                    ig.append(dict(p, op='integrate', axis=ax, mode=mode, normalize=norm, form='wrapper'))
            ig.append(dict(p, op='integrate', axis=ax, mode='sum', normalize=False, form='array_positional'))
    nm = [dict(pp, op='normalize', naxis=na, bg=bg) for pp in {json.dumps({k: v for k, v in d.items() if k not in ('op', 'l', 'r')}, sort_keys=True): {k: v for k, v in d.items() if k not in ('op', 'l', 'r')} for d in sl}.values()
          for na in (None, 't', 'f', 0, 1) for bg in (False, True) if pp['m'] >= 2 and pp['n'] >= 2]
    ctx.pmap(case_op, nm, label='normalize')
    ctx.pmap(case_op, sl, label='slice')
    ctx.pmap(case_op, dd, label='dedrift')
    ctx.pmap(case_op, ig, label='integrate')
    return ctx.finish(
        rule='complete Cartesian product of parents (geometry x size x orientation x parent kind) with every '
             'slice bound 0<=l<r<=fchans, every listed drift rate q*df/dt of either sign (direct, keyword and '
             'metadata routes, plus a box-signal experiment), and every integrate (axis, mode, normalize, form); '
             'non-trivial: a proper sub-band slice, a de-drift that returned a frame with some row shifted by '
             '>=1 channel, an integration over >=2 samples; distinct = distinct parameter tuples',
        assumptions=['frame content is a strictly increasing ramp + seeded perturbation exact in float32, so a '
                     'shift / flip / transposition is visible in every pixel',
                     'de-drift row offsets accepted within 1/2+eps of the exact rational |d|*i*dt/df; rates for '
                     'which the implementation\'s own trim (drift over tchans rows) leaves nothing but the common '
                     'band (tchans-1 rows) is not empty may be rejected or accepted (counted limit_zone_*)',
                     'derived frequency axes compared within %d ulp of the largest frequency; fch1/df <= 2^36' % K_AXIS,
                     'integration sums compared with 8*L*eps(dtype)*sum|x| (file-backed frames integrate in float32); '
                     'normalisation not decided for constant results or when sigma clipping would remove samples',
                     't_start compared within %g s; setigen.frame.time replaced by a counter clock' % T_TOL,
                     'what dedrift() does without any rate is recorded, not judged',
                     '.h5-backed parents only for tchans>=3 and fchans>=3 (blimpy\'s HDF5 reader rejects smaller files)'],
        coverage_extra={'bounds': {'sizes_tchans_fchans': sizes, 'kinds': kinds, 'geometries': GEOMS,
                                   'q_base': Q_BASE_T if thorough else Q_BASE_Q,
                                   'q_limits': ['(n-0.5)/m -0.01, +0, +0.01', '(n-0.5)/(m-1) -0.01, +0, +0.01'],
                                   'axes': AXES, 'modes': MODES},
                        'cases': {'slice': len(sl), 'dedrift': len(dd), 'integrate': len(ig)}})
