"""
C13 -- the constant-signal helper injects the same signal as general injection.

E-PROD: the complete Cartesian box of (geometry, orientation, tchans, start position, drift, width,
profile type, smearing, argument style) is enumerated.  For every tuple the REAL helper
``Frame.add_constant_signal`` is run on one frame and the REAL general route
``Frame.add_signal(constant_path, constant_t_profile(level), <named f_profile>(width), bp=1)`` --
unbounded, and with ``smearing_subsamples = max(1, ceil(|drift| / unit_drift_rate))`` when smearing
is on -- is run on a twin frame.  Demanded (and nothing else):

* compact profiles (box, truncated sinc^2): helper == general at every pixel (so: equal where the
  general signal is non-zero, exactly zero elsewhere); pixels whose distance to a (sub-step) signal
  centre is within eps of the support edge are masked and counted (rule 2);
* tailed profiles (gaussian, lorentzian, voigt): helper == general at every pixel within FWHM/2 (minus
  eps) of a (sub-step) signal centre; at every other pixel helper is exactly 0 or == general;
* the frame's data change by exactly the returned array;
* derived: drift -d is the mirror image of +d about the start frequency; a smeared non-drifting signal
  equals the unsmeared one.

The geometry used for masks / required regions (signal centres, sub-step placement, support, FWHM) is
written from the docstrings and is itself validated in every case against the general route with a
closed-form evaluation of the five profile families ('oracle_reference_disagree', site Frame.add_signal).
Oracle rules: DESIGN.md section 3, rules 1 (the sub-step count tie is not decided), 2, 4, 5, 8.
"""
import math
from fractions import Fraction as Fr
import numpy as np

from mc import engine
from mc.refs.axes import F, ulp

PROPERTY = 'C13'
LEVEL = 'exploration'

LD = np.longdouble
SITE = 'Frame.add_constant_signal'

FCHANS = 48
GEOMS = {
    # dyadic toy geometry (df != dt != 1 so that Hz / s / channel mix-ups are visible); every tie is exact
    'toy': dict(df=2.0, dt=0.5, fch1=1024.0),
    # Breakthrough Listen high-resolution product (the library's defaults)
    'bl': dict(df=2.7939677238464355, dt=18.253611008, fch1=6095.214842353016e6),
    # Breakthrough Listen mid-resolution product at the hydrogen line (dt < df)
    'mid': dict(df=2861.02294921875, dt=1.073741824, fch1=1.42040575e9),
    # decimal resolutions: df/dt is not exactly representable, so integer multiples of the unit drift rate probe the
    # float formula behind the sub-step count
    'dec1': dict(df=0.1, dt=3.3, fch1=1.0e6),
    'dec2': dict(df=10.0, dt=1.073741824, fch1=1.0e9),
    'dec3': dict(df=0.1, dt=18.253611008, fch1=1.0e6),
}
TCHANS = [1, 2, 8]
TCHANS_T = [1, 2, 3, 8, 16]
# start position in channels relative to fmin: channel centres, half-channel offsets, a generic offset,
# 3 and 40 channels outside either edge
POS = [24.0, 0.0, 1.0, 46.0, 47.0, 24.5, 24.3, -0.5, 0.5, 47.5, -3.0, 50.0, -40.0, 87.0]
DRIFT = [0.0, 0.25, -0.25, 0.5, -0.5, 1.0, -1.0, 1.5, -1.5, 2.5, -2.5, 4.0, -4.0]   # channels per time step
# thorough adds non-dyadic-safe integers (3: |drift|/unit may land on either side of 3 in floating point) and more
DRIFT_T = DRIFT + [0.75, -0.75, 2.0, -2.0, 3.0, -3.0]
WIDTH = [0.05, 0.3, 0.5, 1.0, 1.5, 2.5, 5.0, 10.0]                                   # channels
PROFS = ['box', 'sinc2', 'gaussian', 'lorentzian', 'voigt']
COMPACT = ('box', 'sinc2')
STYLES = ['plain', 'quantity']
LEVELS = {'plain': 2.5, 'quantity': 0.75,     # level is tied to the argument style (declared pairing)
          'quantity_scaled': 0.75,             # kHz / MHz / mHz-per-second Quantities (unit conversion must happen everywhere)
          'np_f32': np.float32(2.5), 'np_i64': np.int64(3), 'py_int': 2, 'np_narrow': 2.5}    # level given as other numeric types

TOL_SAME = 1e-12        # helper vs general route: same expression on the same floats (rules 4/5)
K_EPS = 16              # edge / region epsilon in ulps of the largest frequency (+ 1e-9 of the width)
K_COND = 64             # conditioning factor for closed-form / mirror comparisons: K_COND * ulp(f) / width


def _voigt_fwhm_factor():
    """FWHM of a Voigt profile whose Gaussian and Lorentzian FWHM are both 1 (bisection on wofz)."""
    from scipy.special import wofz
    sigma = 1.0 / (2.0 * math.sqrt(2.0 * math.log(2.0)))
    gamma = 0.5
    v = lambda x: float(np.real(wofz((x + 1j * gamma) / sigma / math.sqrt(2.0))))
    v0 = v(0.0)
    lo, hi = 0.5, 1.5
    for _ in range(200):
        mid = 0.5 * (lo + hi)
        if v(mid) / v0 > 0.5:
            lo = mid
        else:
            hi = mid
    return 2.0 * lo


VOIGT_FWHM = _voigt_fwhm_factor()      # ~1.6376 (Olivero-Longbothum approximation: 1.6376)


def _fwhm(prof, w):
    return VOIGT_FWHM * w if prof == 'voigt' else w


def _ref_profile(prof, d, w):
    """Closed forms written from the f_profiles docstrings; d = |f - f_centre| (float64 array)."""
    if prof == 'box':
        return (d < w / 2).astype(float)
    if prof == 'sinc2':               # width = distance between the first zero crossings; truncated there
        z = w / 2
        return np.where(d < z, np.sinc(d / z) ** 2, 0.0)
    if prof == 'gaussian':            # width = FWHM
        return np.exp(-4.0 * math.log(2.0) * (d / w) ** 2)
    if prof == 'lorentzian':          # width = FWHM
        return 1.0 / (1.0 + (2.0 * d / w) ** 2)
    if prof == 'voigt':               # Gaussian FWHM = Lorentzian FWHM = width, normalised to 1 at the centre
        from scipy.special import wofz
        sigma = w / (2.0 * math.sqrt(2.0 * math.log(2.0)))
        gamma = w / 2
        s2 = sigma * math.sqrt(2.0)
        return np.real(wofz((d + 1j * gamma) / s2)) / float(np.real(wofz(1j * gamma / s2)))
    raise KeyError(prof)


def _stg_profile(stg, prof, w):
    if prof == 'box':
        return stg.box_f_profile(w)
    if prof == 'sinc2':
        return stg.sinc2_f_profile(w)
    if prof == 'gaussian':
        return stg.gaussian_f_profile(w)
    if prof == 'lorentzian':
        return stg.lorentzian_f_profile(w)
    if prof == 'voigt':
        return stg.voigt_f_profile(w, w)
    raise KeyError(prof)


def _mk(c, tchans=None):
    import setigen as stg
    g = GEOMS[c['geom']]
    df, dt = g['df'], g['dt']
    asc = c['asc']
    # both orientations describe the same band
    fch1 = g['fch1'] if asc else float(F(g['fch1']) + (FCHANS - 1) * F(df))
    if c.get('negdf'):
        df = -df        # channel width handed over with a filterbank header's sign: the frame's df is its magnitude
    fr = stg.Frame(fchans=FCHANS, tchans=tchans or c['tchans'], df=df, dt=dt, fch1=fch1,
                   ascending=asc, t_start=0.0)
    if c.get('tsgap'):
        # (sub-box) a time axis with a gap after the first row and a non-zero first time: what Cadence.consolidate() hands out
        ts = np.array(fr.ts, dtype=float) + c['tsgap'][0]
        ts[1:] += c['tsgap'][1]
        fr.ts = ts
    if c.get('route') == 'fil':
        # (sub-box) the same frame after a trip through a filterbank file: what the helper does on a LOADED frame
        import os, contextlib, io
        fn = os.path.join(engine.workdir(), 'c13_%s_%d.fil' % (engine.sha(c), tchans or c['tchans']))
        with contextlib.redirect_stdout(io.StringIO()):
            fr.save_fil(fn)
            fr = stg.Frame(waterfall=fn)
        os.remove(fn)
        fr.data = np.zeros(fr.data.shape)
    return fr


def _inputs(fr, c, drift_ch=None):
    """Float values of (f_start, drift, width) for the case, from the frame's own floats."""
    f_start = float(F(fr.fmin) + F(c['pos']) * F(fr.df))
    dch = c['drift'] if drift_ch is None else drift_ch
    drift = dch * (fr.df / fr.dt)          # the unit drift rate: one channel per time step
    width = c['width'] * fr.df
    if c.get('style') == 'np_narrow':
        # whole Hz and whole Hz/s, so that the same numbers can be handed over as 16-bit integers
        drift, width = float(round(drift)), float(round(width))
    return f_start, drift, width


def _helper(fr, c, f_start, drift, width, smear):
    from astropy import units as u
    level = LEVELS[c['style']]
    if c['style'] == 'quantity':
        return fr.add_constant_signal(f_start=f_start * u.Hz, drift_rate=drift * u.Hz / u.s, level=level,
                                      width=width * u.Hz, f_profile_type=c['prof'], doppler_smearing=smear)
    if c['style'] == 'quantity_scaled':
        return fr.add_constant_signal(f_start=(f_start * 1e-6) * u.MHz, drift_rate=(drift * 1e3) * u.mHz / u.s, level=level,
                                      width=(width * 1e-3) * u.kHz, f_profile_type=c['prof'], doppler_smearing=smear)
    if c['style'] == 'np_narrow':
        return fr.add_constant_signal(f_start, np.int16(drift), level, np.int16(width), f_profile_type=c['prof'], doppler_smearing=smear)
    d = 0 if drift == 0 else drift        # the pinned tests pass a Python int for "no drift"
    return fr.add_constant_signal(f_start, d, level, width, f_profile_type=c['prof'], doppler_smearing=smear)


def _substep_candidates(fr, drift, smear):
    """max(1, ceil(|drift|/unit drift)), decided on the exact quotient q of the two floats.  q at or just below an integer
    n: ceil(q) = n, and the documented expression evaluated in floating point (one correctly rounded division, monotone)
    gives n as well -- decided.  q just ABOVE an integer n (by less than 1e-9 relative): the exact count is n+1 but the
    rounded division may return n -- both accepted (rule 1).  A differently associated formula (|drift|*dt/df) that lands
    above n where q <= n is a different count."""
    if not smear:
        return [1]
    q = abs(F(drift)) / F(fr.df / fr.dt)       # unit drift = one channel width per time step (the frame's own positive df, dt)
    c = max(1, math.ceil(q))
    out = {c}
    fl = math.floor(q)
    if q > fl and (q - fl) < Fr(1, 10**9) * q:
        out.add(max(1, fl))
    return sorted(out)


def _centres(fr, f_start, drift, smear, nsub):
    """(tchans, nsub) signal centres: documented as nsub evenly spaced copies between t and t+dt."""
    ts = np.asarray(fr.ts).astype(LD)
    k = np.arange(nsub if smear else 1).astype(LD)
    n = LD(nsub if smear else 1)
    return LD(f_start) + LD(drift) * (ts[:, None] + k[None, :] * LD(fr.dt) / n)


def _regions(fr, cent, prof, w):
    """distance array, and the masks the property speaks about."""
    fs = np.asarray(fr.fs)
    u_f = ulp(max(abs(float(fs[0])), abs(float(fs[-1])), float(np.abs(cent).max())))
    eps = K_EPS * u_f + 1e-9 * w
    d = np.abs(fs.astype(LD)[None, :, None] - cent[:, None, :]).astype(float)      # (m, fchans, nsub)
    if prof in COMPACT:
        edge = (np.abs(d - w / 2) <= eps).any(axis=2)
        inside = (d < w / 2).any(axis=2) & ~edge
        req = inside
    else:
        edge = np.zeros(d.shape[:2], dtype=bool)
        req = (d <= _fwhm(prof, w) / 2 - eps).any(axis=2)
    return d, req, edge, u_f


def _first(mask):
    j = np.argwhere(mask)
    return tuple(int(x) for x in j[0])


def _compare(H, G, fr, cent, prof, w, level, nsub):
    """Problems of helper output H against general output G: list of (kind, detail).  Also returns counters."""
    probs = []
    d, req, edge, u_f = _regions(fr, cent, prof, w)
    tol = TOL_SAME * level
    # --- validate the oracle geometry: closed form of the general signal on unmasked pixels
    R = level * _ref_profile(prof, d, w).mean(axis=2)
    tol_ref = level * (1e-9 + K_COND * u_f / w)
    bad = (np.abs(G - R) > tol_ref) & ~edge
    if bad.any():
        j = _first(bad)
        probs.append(('oracle_reference_disagree',
                      'general route %r vs closed form %r at pixel %s (nsub=%d)' % (G[j], R[j], j, nsub)))
    if prof in COMPACT:
        if ((G == 0) & req).any() or ((G != 0) & ~req & ~edge).any():
            probs.append(('oracle_reference_disagree', 'support of the general signal differs from |f-c|<w/2'))
    differs = np.abs(H - G) > tol
    if prof in COMPACT:
        miss = req & (H == 0) & (G != 0)
        wrong = differs & ~edge & ~miss & (G != 0)
        spur = differs & ~edge & (G == 0)
    else:
        miss = req & (H == 0) & (G != 0)
        wrong = differs & (H != 0)                       # outside the required region 0 is accepted
        spur = np.zeros_like(miss)
    if miss.any():
        j = _first(miss)
        probs.append(('missing_signal', 'helper returns 0 at pixel (t=%d, ch=%d) where the general signal is %r '
                      '(%d such pixels of %d required; nsub=%d)' % (j[0], j[1], G[j], int(miss.sum()),
                                                                   int(req.sum()), nsub)))
    if wrong.any():
        j = _first(wrong)
        probs.append(('value_mismatch', 'helper %r != general %r at pixel (t=%d, ch=%d) (%d pixels; nsub=%d)'
                      % (H[j], G[j], j[0], j[1], int(wrong.sum()), nsub)))
    if spur.any():
        j = _first(spur)
        probs.append(('spurious_signal', 'helper %r at pixel (t=%d, ch=%d) where the general signal is 0'
                      % (H[j], j[0], j[1])))
    info = dict(req=int(req.sum()), edge=int(edge.sum()),
                trunc=bool(((H == 0) & (G != 0) & ~req & ~edge).any()))
    return probs, info


def _cls(c, drift=None):
    d = c['drift'] if drift is None else drift
    return '%s,%s' % ('smeared' if c['smear'] else 'plain', 'neg' if d < 0 else ('zero' if d == 0 else 'pos'))


def case_const(c):
    import setigen as stg
    viol = []

    def V(failure, detail, site=SITE):
        viol.append({'site': site, 'failure': failure, 'detail': detail})

    prof, smear = c['prof'], c['smear']
    level = LEVELS[c['style']]
    A = _mk(c)
    m = A.tchans
    bg = np.random.default_rng([c['seed'], 13]).random((m, FCHANS)) * 8.0
    A.data += bg
    f_start, drift, width = _inputs(A, c)
    try:
        H = _helper(A, c, f_start, drift, width, smear)
    except Exception as e:
        V('raised[%s]' % _cls(c), '%s: %s' % (type(e).__name__, e))
        return {'viol': viol, 'outcomes': ['raised']}
    H = np.asarray(H)
    if H.shape != (m, FCHANS):
        V('shape', 'returned array has shape %s' % (H.shape,))
        return {'viol': viol, 'outcomes': ['shape']}
    if not np.all(np.isfinite(H)):
        V('nonfinite[%s]' % _cls(c), 'returned array contains NaN/inf')
        return {'viol': viol, 'outcomes': ['nonfinite']}
    if not np.array_equal(A.data, bg + H):
        V('data_not_returned', 'frame data did not change by exactly the returned array')
    best = None
    for nsub in _substep_candidates(A, drift, smear):
        B = _mk(c)
        kw = dict(doppler_smearing=True, smearing_subsamples=nsub) if smear else {}
        G = B.add_signal(stg.constant_path(f_start=f_start, drift_rate=drift),
                         stg.constant_t_profile(level=level),
                         _stg_profile(stg, prof, width),
                         stg.constant_bp_profile(level=1), **kw)
        cent = _centres(B, f_start, drift, smear, nsub)
        probs, info = _compare(H, G, B, cent, prof, width, level, nsub)
        if best is None or not probs:
            best = (probs, info, nsub, G)
        if not probs:
            break
    probs, info, nsub, G = best
    for kind, detail in probs:
        if kind == 'oracle_reference_disagree':
            V(kind, detail, site='Frame.add_signal')
        else:
            V('%s[%s]' % (kind, _cls(c)), detail)
    res = {'viol': viol, 'ambiguous': info['edge'],
           'extra': {'pixels': m * FCHANS, 'pixels_required': info['req'],
                     'cases_tail_truncated_by_helper': int(info['trunc']),
                     'cases_general_signal_all_zero': int(not G.any()),
                     'cases_helper_all_zero': int(not H.any())}}
    if info['req'] > 0:
        res['nontrivial'] = [engine.sha(c)]
    res['outcomes'] = ['%s/%s/n%d/req%s/H%d/G%d/t%d' % (prof, 'S' if smear else 'P', nsub,
                                                       min(info['req'], 3), int(H.any()), int(G.any()),
                                                       int(info['trunc']))]
    return res


def _pair_compare(X, Y, req, edge, prof, tol):
    """X vs Y (two helper outputs that the property says are equal): mismatch mask."""
    differs = np.abs(X - Y) > tol
    if prof in COMPACT:
        return differs & ~edge
    # tailed: the helper may cut the tail (0) outside the required region, independently in the two runs
    return differs & (req | ((X != 0) & (Y != 0)))


def case_mirror(c):
    """helper(-d) is the mirror image of helper(+d) about the start frequency (2*pos integer)."""
    viol = []
    prof, smear = c['prof'], c['smear']
    level = LEVELS[c['style']]
    outs = []
    geo = []
    for sign in (1, -1):
        fr = _mk(c)
        f_start, drift, width = _inputs(fr, c, drift_ch=sign * c['drift'])
        try:
            H = np.asarray(_helper(fr, c, f_start, drift, width, smear))
        except Exception as e:
            viol.append({'site': SITE, 'failure': 'raised[%s]' % _cls(c, sign * c['drift']),
                         'detail': '%s: %s' % (type(e).__name__, e)})
            return {'viol': viol, 'outcomes': ['mirror/raised']}
        req = edge = None
        for nsub in _substep_candidates(fr, drift, smear):     # undecided sub-step count: mask for every candidate
            cent = _centres(fr, f_start, drift, smear, nsub)
            d, req_n, edge_n, u_f = _regions(fr, cent, prof, width)
            req = req_n if req is None else (req & req_n)
            edge = edge_n if edge is None else (edge | edge_n)
        outs.append(H)
        geo.append((req, edge, u_f, width))
    M = int(round(2 * c['pos']))
    cols = np.array([j for j in range(FCHANS) if 0 <= M - j < FCHANS], dtype=int)
    if cols.size == 0:
        return {'viol': viol, 'outcomes': ['mirror/no_common_columns']}
    Hp = outs[0][:, cols]
    Hm = outs[1][:, M - cols]
    req = geo[0][0][:, cols] & geo[1][0][:, M - cols]
    edge = geo[0][1][:, cols] | geo[1][1][:, M - cols]
    u_f, width = geo[0][2], geo[0][3]
    tol = level * (TOL_SAME + K_COND * u_f / width)
    bad = _pair_compare(Hp, Hm, req, edge, prof, tol)
    if bad.any():
        j = _first(bad)
        viol.append({'site': SITE, 'failure': 'mirror_mismatch[%s]' % ('smeared' if smear else 'plain'),
                     'detail': 'drift +d gives %r at (t=%d, ch=%d) but drift -d gives %r at the mirror channel %d '
                               '(%d pixels differ)' % (Hp[j], j[0], int(cols[j[1]]), Hm[j], int(M - cols[j[1]]),
                                                       int(bad.sum()))})
    res = {'viol': viol, 'ambiguous': int(edge.sum()), 'extra': {'pixels': int(Hp.size), 'mirror_pairs': 1},
           'outcomes': ['mirror/%s/%s/%d%d' % (prof, 'S' if smear else 'P', int(Hp.any()), int(Hm.any()))]}
    if req.any() and Hp.any():
        res['nontrivial'] = [engine.sha(c)]
    return res


def case_zero_smear(c):
    """A non-drifting smeared signal equals the unsmeared one."""
    viol = []
    prof = c['prof']
    level = LEVELS[c['style']]
    outs = []
    for smear in (True, False):
        fr = _mk(c)
        f_start, drift, width = _inputs(fr, c, drift_ch=0.0)
        try:
            outs.append(np.asarray(_helper(fr, c, f_start, drift, width, smear)))
        except Exception as e:
            viol.append({'site': SITE, 'failure': 'raised[%s,zero]' % ('smeared' if smear else 'plain'),
                         'detail': '%s: %s' % (type(e).__name__, e)})
            return {'viol': viol, 'outcomes': ['zs/raised']}
    cent = _centres(fr, f_start, 0.0, False, 1)
    d, req, edge, u_f = _regions(fr, cent, prof, width)
    bad = _pair_compare(outs[0], outs[1], req, edge, prof, TOL_SAME * level)
    if bad.any():
        j = _first(bad)
        viol.append({'site': SITE, 'failure': 'zero_drift_smear_differs',
                     'detail': 'drift 0: smeared helper gives %r, unsmeared %r at (t=%d, ch=%d) (%d pixels differ)'
                               % (outs[0][j], outs[1][j], j[0], j[1], int(bad.sum()))})
    res = {'viol': viol, 'ambiguous': int(edge.sum()), 'extra': {'pixels': int(outs[0].size), 'zero_smear_pairs': 1},
           'outcomes': ['zs/%s/%d%d' % (prof, int(outs[0].any()), int(outs[1].any()))]}
    if req.any() and outs[1].any():
        res['nontrivial'] = [engine.sha(c)]
    return res


def case_exact_symmetry(c):
    """Exact mirror clause in the dyadic toy geometry (every frequency, width and drift step is exactly representable,
    so NO pixel is masked): a box / truncated-sinc2 signal of whole-channel width centred on a channel, drifting by a
    whole number of channels per step, must be the exact mirror image of the same signal with the opposite drift -- a
    pixel lying exactly on a profile edge is treated the same way on both sides, whichever way that is."""
    viol = []
    outs = []
    for sign in (1, -1):
        fr = _mk(c)
        f_start, drift, width = _inputs(fr, c, drift_ch=sign * c['drift'])
        try:
            outs.append(np.asarray(_helper(fr, c, f_start, drift, width, c['smear'])))
        except Exception as e:
            viol.append({'site': SITE, 'failure': 'raised[exact_symmetry]', 'detail': '%s: %s' % (type(e).__name__, e)})
            return {'viol': viol}
    M = int(round(2 * c['pos']))
    cols = np.array([j for j in range(FCHANS) if 0 <= M - j < FCHANS], dtype=int)
    Hp, Hm = outs[0][:, cols], outs[1][:, M - cols]
    if not np.array_equal(Hp, Hm):
        j = _first(Hp != Hm)
        viol.append({'site': SITE, 'failure': 'mirror_mismatch[exact]',
                     'detail': 'dyadic geometry, %s width %g ch, start channel %g, drift +/-%g ch/step, smear=%s: drift +d gives %r at (t=%d, ch=%d), '
                               'drift -d gives %r at the mirror channel %d' % (c['prof'], c['width'], c['pos'], c['drift'], c['smear'], Hp[j], j[0],
                                                                                int(cols[j[1]]), Hm[j], int(M - cols[j[1]]))})
    res = {'viol': viol, 'outcomes': ['exact/%s/%d' % (c['prof'], int(Hp.any()))]}
    if Hp.any():
        res['nontrivial'] = [engine.sha(c)]
    return res


def _tiers(tier):
    if tier == 'thorough':
        return ['toy', 'bl', 'mid'], STYLES, TCHANS_T, DRIFT_T
    return ['toy'], ['plain'], TCHANS, DRIFT


def run(ctx):
    geoms, styles, tchans_l, drifts = _tiers(ctx.tier)
    seed = int(ctx.seed)
    cases = []
    for geom in geoms:
        for m in tchans_l:
            for asc in (True, False):
                for smear in (False, True):
                    for style in styles:
                        for prof in PROFS:
                            for pos in POS:
                                for width in WIDTH:
                                    for drift in drifts:
                                        cases.append(dict(geom=geom, asc=asc, tchans=m, pos=pos, drift=drift,
                                                          width=width, prof=prof, smear=smear, style=style,
                                                          seed=seed))
    if ctx.tier == 'quick':
        # argument style is exercised on the smallest time extent only
        extra = [dict(c, style='quantity') for c in cases if c['tchans'] == 2 and c['asc']]
        cases += extra
    # other unit prefixes and other numeric types for the level: on a sub-box (every start position x drift x width,
    # box and gaussian profiles, both smearing settings, shortest multi-row frame)
    base = [c for c in cases if c['style'] == 'plain' and c['tchans'] == 2 and c['asc'] and c['prof'] in ('box', 'gaussian')
            and c['geom'] == geoms[0]]
    for st in ('quantity_scaled', 'np_f32', 'np_i64', 'py_int'):
        cases += [dict(c, style=st) for c in base]
    cases += [dict(c, negdf=True, asc=a) for c in base for a in (True, False)]
    cases += [dict(c, route='fil', asc=a) for c in base for a in (True, False) if c['prof'] == 'box']
    cases += [dict(c, tsgap=g, asc=a) for c in base for a in (True, False) for g in ([0.0, 3.5], [7.0, 0.0], [2.5, 4.0]) if not c['smear']]
    # (sub-box) width and drift rate as 16-bit integers in a geometry where twice the width does not fit the type
    for asc in (True, False):
        for prof in ('box', 'gaussian'):
            for pos in (24.0, 24.3):
                for width in (2.5, 10.0):
                    for drift in (1.0, -2.5, 4.0, -4.0):
                        for smear in (False, True):
                            cases.append(dict(geom='mid', asc=asc, tchans=2, pos=pos, drift=drift, width=width, prof=prof,
                                              smear=smear, style='np_narrow', seed=seed))
    # whole-channel drifts (1..4 channels per step, either sign) with smearing in the decimal geometries
    for geom in ('dec1', 'dec2', 'dec3'):
        for asc in (True, False):
            for prof in ('box', 'gaussian'):
                for pos in (24.0, 24.3):
                    for width in (1.0, 2.5):
                        for drift in (1.0, -1.0, 2.0, -2.0, 3.0, -3.0, 4.0, -4.0):
                            cases.append(dict(geom=geom, asc=asc, tchans=2, pos=pos, drift=drift, width=width, prof=prof,
                                              smear=True, style='plain', seed=seed))
    ctx.pmap(case_const, cases)
    exact = []
    for asc in (True, False):
        for m in (1, 2, 8):
            for prof in COMPACT:
                for pos in (24.0, 12.0, 30.5):
                    for width in (2.0, 4.0, 6.0, 1.0):
                        for drift in (0.0, 1.0, 2.0, 4.0):
                            for smear in (False, True):
                                exact.append(dict(geom='toy', asc=asc, tchans=m, pos=pos, drift=drift, width=width, prof=prof,
                                                  smear=smear, style='plain', seed=seed))
                                if m == 2 and pos == 24.0:
                                    exact.append(dict(exact[-1], negdf=True))
    ctx.pmap(case_exact_symmetry, exact)
    mirrors = []
    zs = []
    for geom in geoms:
        for m in tchans_l:
            for asc in (True, False):
                for prof in PROFS:
                    for pos in POS:
                        for width in WIDTH:
                            zs.append(dict(geom=geom, asc=asc, tchans=m, pos=pos, width=width, prof=prof,
                                           style='plain', seed=seed))
                            if (2 * pos) == int(2 * pos) and 0 <= pos <= FCHANS - 1:
                                for smear in (False, True):
                                    for drift in drifts:
                                        if drift > 0:
                                            mirrors.append(dict(geom=geom, asc=asc, tchans=m, pos=pos, drift=drift,
                                                                width=width, prof=prof, smear=smear, style='plain',
                                                                seed=seed))
    ctx.pmap(case_mirror, mirrors)
    ctx.pmap(case_zero_smear, zs)
    pixels = ctx.extra.get('pixels', 0)
    masked = ctx.ambiguous
    rc = ctx.finish(
        rule='complete Cartesian product of (geometry, tchans, orientation, smearing, argument style, profile type, '
             'start position, width, drift) -- one real helper call against one real general-route call on a twin '
             'frame per tuple -- plus every (+d, -d) mirror pair at in-band (half-)channel start positions and every '
             'zero-drift smeared/unsmeared pair; a case is non-trivial when the property demands at least one non-zero '
             'pixel of the helper (a pixel inside the compact support / within FWHM/2 of a (sub-step) centre lies in the '
             'band); distinct = distinct parameter tuples',
        assumptions=['level is paired with the argument style (plain: 2.5, Quantity: 0.75)',
                     'quick tier: toy geometry only; Quantity arguments only for tchans=2 ascending frames',
                     "voigt: 'that frequency profile' is voigt_f_profile(width, width) (the helper's documented single "
                     'width is used for both components); its FWHM is computed numerically (%.6f * width)' % VOIGT_FWHM,
                     'pixels within %d ulp(f) + 1e-9*width of a box / truncated-sinc^2 support edge are masked (counted '
                     'in ambiguous_skipped); the FWHM/2 region is shrunk by the same epsilon' % K_EPS,
                     'helper vs general route compared to %g*level (same expression on the same floats); closed-form and '
                     'mirror comparisons to level*(1e-9 + %d*ulp(f)/width)' % (TOL_SAME, K_COND),
                     'a sub-step count whose pre-rounding ratio |drift|/unit is within 1e-9 of an integer is accepted '
                     'on either side, except when the ratio is an exact integer and df, dt are powers of two (every '
                     'float formula for it is then exact)',
                     'VERIF_SEED changes only the pre-existing frame content'],
        coverage_extra={'bounds': {'geometries': {g: GEOMS[g] for g in geoms}, 'fchans': FCHANS, 'tchans': tchans_l,
                                   'start_position_channels': POS, 'drift_channels_per_step': drifts,
                                   'width_channels': WIDTH, 'profiles': PROFS, 'smearing': [False, True],
                                   'styles': styles, 'orientation': ['ascending', 'descending']},
                        'masked_pixel_fraction': (masked / pixels) if pixels else 0.0})
    if pixels and masked > 0.01 * pixels:
        print('HARNESS-ERROR property=%s: ambiguity mask covers %.2f%% of the compared pixels (> 1%%)'
              % (PROPERTY, 100.0 * masked / pixels))
        return 2
    return rc
