"""
Plain (explorer-free) checks for C11:  PYTHONPATH=<tree>:/verif /venv/bin/python -m pytest /verif/tests/test_c11.py

No defect was found for C11 on the pinned tree, so this file is (a) a self-test of the oracle (the independent
clipped estimator agrees with a hand-worked example and with the documented astropy defaults) and (b) a handful of
representative cases pushed through the very functions the explorer uses, asserting they are silent.
"""
import numpy as np
import pytest

from mc import engine
engine._silence()
from mc.checks import c11
from mc.refs.noise import SpyGenerator, clipped_stats


def test_clipped_stats_hand_example():
    # nine samples at 1..9 plus one far outlier: iteration 1 (median 5.5, std ~28.6) rejects 100; iteration 2 keeps all
    x = np.array([1., 2., 3., 4., 5., 6., 7., 8., 9., 100.])
    m, s, info = clipped_stats(x)
    assert info['removed'] == 1 and info['iters'] == 1 and not info['ambiguous']
    assert m == pytest.approx(5.0) and s == pytest.approx(np.std(np.arange(1., 10.)))


def test_clipped_stats_matches_documented_astropy_defaults():
    from astropy.stats import sigma_clip
    g = np.random.default_rng(5)
    for t in range(200):
        x = g.normal(3.0, 2.0, size=g.integers(1, 150))
        x[: g.integers(0, x.size)] += 25.0
        m, s, info = clipped_stats(x)
        if info['ambiguous']:
            continue
        c = sigma_clip(x, sigma=3, maxiters=5, cenfunc='median', stdfunc='std', masked=False)
        assert m == pytest.approx(np.mean(c), rel=1e-12) and s == pytest.approx(np.std(c), rel=1e-12, abs=1e-15)


def test_spy_is_adopted_and_logs_top_level_requests_only():
    spy = SpyGenerator(1)
    assert np.random.default_rng(spy) is spy
    spy.choice(np.array([1.0, 2.0, 3.0]))
    assert [r.name for r in spy.take()] == ['choice']


OPS = [o for o in c11._request_ops('quick')]


@pytest.mark.parametrize('i', range(0, len(OPS), 7))
@pytest.mark.parametrize('preload', [False, True])
def test_request_cases_are_silent(i, preload):
    r = c11.case_request(dict(shape=[3, 4], df=c11.BL_DF, dt=c11.BL_DT, preload=preload, op=OPS[i], seed=0))
    assert r['viol'] == []


@pytest.mark.parametrize('head', [['chi2', 'gauss'], ['signal', 'chi2'], ['zero', 'trunc'], ['obs_gauss', 'zero']])
@pytest.mark.parametrize('init', ['empty', 'data'])
def test_history_cases_are_silent(head, init):
    r = c11.case_history(dict(shape=[16, 8], df=1.51, dt=1.0, palette='A', init=init, head=head, depth=3, seed=0))
    assert r['viol'] == [] and r['traces'] == 7


def test_voltage_cases_are_silent():
    r = c11.case_stream(dict(seq=[[0.0, 1.0], [2.0, 3.0], [0.0, 0.5]], sample_rate=3e9, n=16, m=24, seed=0))
    assert r['viol'] == []
    r = c11.case_array(dict(A=2, pols=2, delays=[0, 1], sample_rate=48e3,
                            head=[['bg', 0, 'add', 1.0], ['ant', 1, 1, 'upd']], depth=3, m=24, seed=0))
    assert r['viol'] == [] and r['traces'] == 18
