"""
C15 -- Array antennas see the shared background delayed by their configured delays.

E-HIST (composition schedules + clock operations): for every antenna count, every delay vector in
{0..3}^n (plus the omitted default), 1/2 polarisations, EVERY composition of N samples into requests
larger than the maximum delay is executed on a real MultiAntennaArray, with a clock operation
(set_time / reset_start / add_time) inserted at every cut; each output sample is compared with
own_{i,p}(k) + bg_p(k + max_delay - delay_i).  Two backgrounds: a deterministic function of absolute time
(alignment unambiguous) and seeded noise compared with a same-seed twin that makes one request.
"""
import itertools
import numpy as np

from mc import engine

PROPERTY = 'C15'
LEVEL = 'model_checking'


def _own(i, p):
    return lambda ts: 10000.0 * (i + 1) + 100000.0 * p + 0.5 * np.asarray(ts)


def _cplx(ts):
    return 1j * (3.0 + 0.125 * np.asarray(ts))


def _bgf(p):
    return lambda ts: 1000.0 * p + np.asarray(ts) * 1.0 + 0.25 * np.asarray(ts) ** 2


def build(c, noise_bg):
    import setigen.voltage as sv
    kw = {}
    if c['delays'] is not None:
        kw['delays'] = list(c['delays'])
    arr = sv.MultiAntennaArray(num_antennas=c['n'], sample_rate=1.0, fch1=0.0, ascending=True, num_pols=c['npol'],
                               t_start=c['t_start'], seed=c['seed'], **kw)
    for i, a in enumerate(arr.antennas):
        for p, s in enumerate(a.streams):
            s.add_signal(_own(i, p))
            if c.get('cplx') and i == len(arr.antennas) - 1 and p == len(a.streams) - 1:
                # (sub-box) the LAST stream also carries a complex custom source; every other stream is real
                s.add_signal(_cplx)
    for p, s in enumerate(arr.bg_streams):
        if noise_bg:
            s.add_noise(0.5, 2.0)
        else:
            s.add_signal(_bgf(p))
        if c.get('cplx_bg'):
            s.add_signal(_cplx)          # (sub-box) the shared background carries a complex custom source; the antennas' own streams are real
    return arr


def compositions_gt(n, m):
    """compositions of n with every part > m"""
    if n == 0:
        yield ()
        return
    for first in range(m + 1, n + 1):
        for rest in compositions_gt(n - first, m):
            yield (first,) + rest


def case_array(c):
    viol = []
    c = dict(c)
    n, npol, N = c['n'], c['npol'], c['N']
    delays = [0] * n if c['delays'] is None else list(c['delays'])
    mx = max(delays)
    res = {'viol': viol, 'n': 0, 'traces': 0, 'transitions': 0, 'state_keys': set()}

    def V(failure, detail, extra=None, site='MultiAntennaArray.get_samples'):
        viol.append({'site': site, 'failure': failure, 'detail': detail, 'params': dict(c, **(extra or {}))})

    # construction (the omitted default must mean zero delay for every antenna)
    try:
        build(c, False)
    except Exception as e:
        V('constructor_raised', 'delays=%r: %s: %s' % (c['delays'], type(e).__name__, e), site='MultiAntennaArray.__init__')
        return _fin(res, c)
    # requests <= max delay are rejected
    if mx >= 1:
        for k in range(1, mx + 1):
            arr = build(c, False)
            try:
                arr.get_samples(k)
                V('small_request_accepted', 'request of %d samples accepted with max delay %d' % (k, mx))
            except Exception:
                pass
    clock_ops = [None, ('set', 50.0), ('reset',), ('add', 3.0), ('set0',), ('bgupd',)]
    for noise_bg in ((False,) if c.get('cplx_bg') else (False, True)):
        twin = None
        if noise_bg:
            tw = build(c, True)
            twin = [np.array(s.get_samples(3 * N + 4 * mx + 8)) for s in tw.bg_streams]
        for comp in (compositions_gt(N, mx) if not c.get('comps') else [tuple(x) for x in c['comps']]):
            cuts = range(1, len(comp)) if c['all_cuts'] else ([1] if len(comp) > 1 else [])
            schedules = [(None, None)] + [(cut, op) for cut in cuts for op in clock_ops[1:]]
            if mx >= 1:
                # a request the array refuses (not larger than the largest delay), before the first request and mid-observation:
                # it is not a request -- the timeline and the alignment simply continue
                schedules += [(cut, ('refuse', k)) for cut in ([0] + list(cuts)[:1]) for k in sorted(set([1, mx]))]
            for cut, op in schedules:
                arr = build(c, noise_bg)
                clock = float(c['t_start'])      # exact: integer-valued times at 1 Hz
                k_local = 0                      # samples since the last (re)start
                t_restart = clock
                pos0 = 0                         # background draws consumed before the last (re)start
                pos = 0
                start = True
                ok = True
                for j, req in enumerate(comp):
                    if cut is not None and j == cut and op[0] == 'refuse':
                        try:
                            arr.get_samples(op[1])
                        except Exception:
                            pass
                        if arr.t_start != clock:
                            V('refused_request_moved_clock', 'a refused request of %d samples (max delay %d) moved the array clock %r -> %r'
                              % (op[1], mx, clock, arr.t_start), dict(composition=list(comp), cut=cut, op=list(op)))
                            ok = False
                            break
                    elif cut is not None and j == cut:
                        if op[0] == 'bgupd':
                            # re-estimating the background's noise level in the middle of an observation is not a clock
                            # operation: the timeline and the alignment simply continue
                            if noise_bg:
                                continue_flag = True      # (noise draws consumed by the estimate: alignment not judged)
                                break
                            for bgs in arr.bg_streams:
                                bgs.update_noise(stats_calc_num_samples=5)
                            if arr.t_start != clock or any(bgs.start_obs for bgs in arr.bg_streams):
                                V('update_noise_clock', 'update_noise on the background moved the array clock / start flag',
                                  dict(composition=list(comp), cut=cut, op=list(op)), site='BackgroundDataStream.update_noise')
                                ok = False
                                break
                        else:
                            if op[0] == 'set':
                                arr.set_time(op[1]); clock = op[1]
                            elif op[0] == 'set0':
                                # back to exactly the instant the array was created with / last set to
                                arr.set_time(float(c['t_start'])); clock = float(c['t_start'])
                            elif op[0] == 'reset':
                                arr.reset_start()
                            elif op[0] == 'add':
                                arr.add_time(op[1]); clock += op[1]
                            t_restart = clock
                            k_local = 0
                            pos0 = pos
                            start = True
                        for a in (arr.antennas if op[0] != 'bgupd' else []):
                            if any(x is not None and len(x) for x in a.bg_cache):
                                V('cache_not_cleared', 'carried-over background survives %s' % (op,), dict(composition=list(comp), cut=cut, op=list(op)),
                                  site='MultiAntennaArray.set_time')
                                ok = False
                        if not ok:
                            break
                    t0 = arr.t_start
                    try:
                        out = np.array(arr.get_samples(req if not c.get('ntype') else np.dtype(c['ntype']).type(req)))
                    except Exception as e:
                        V('request_raised', 'request %d of composition %s: %s: %s' % (j, comp, type(e).__name__, e),
                          dict(composition=list(comp), cut=cut, op=list(op) if op else None))
                        ok = False
                        break
                    res['transitions'] += 1
                    if out.shape != (n, npol, req):
                        V('shape', 'shape %s, expected %s' % (out.shape, (n, npol, req)), dict(composition=list(comp)))
                        ok = False
                        break
                    drawn = req + (mx if start else 0)
                    for i in range(n):
                        for p in range(npol):
                            kk = k_local + np.arange(req)
                            times = t_restart + kk
                            own = _own(i, p)(times)
                            if c.get('cplx') and i == n - 1 and p == npol - 1:
                                own = own + _cplx(times)
                            if noise_bg:
                                idx = pos0 + kk + mx - delays[i]
                                want = own + twin[p][idx]
                            else:
                                want = own + _bgf(p)(times + (mx - delays[i]))
                            if c.get('cplx_bg'):
                                want = want + _cplx(times + (mx - delays[i]))
                            got = out[i][p]
                            if not np.allclose(got, want, rtol=1e-12, atol=1e-9):
                                b = int(np.argmax(np.abs(got - want)))
                                V('alignment', 'antenna %d (delay %d of max %d) pol %d, %s background: sample %d since (re)start is %r, '
                                  'expected own + bg(k + max - delay) = %r; composition %s, clock op %s at cut %s'
                                  % (i, delays[i], mx, p, 'noise' if noise_bg else 'deterministic', int(kk[b]), got[b], want[b], comp, op, cut),
                                  dict(composition=list(comp), cut=cut, op=list(op) if op else None, noise_bg=noise_bg))
                                ok = False
                                break
                        if not ok:
                            break
                    if not ok:
                        break
                    clock += req
                    k_local += req
                    pos += drawn
                    start = False
                    if arr.t_start != t0 + req:
                        V('clock', 'array clock %r after a request of %d from %r' % (arr.t_start, req, t0), dict(composition=list(comp)))
                        ok = False
                        break
                    res['state_keys'].add('%d/%s/%d/%d' % (n, tuple(delays), min(k_local, 2 * N), int(start)))
                res['traces'] += 1
                res['n'] += 1
                if not ok and len(viol) >= 2:
                    return _fin(res, c)
    return _fin(res, c)


def _fin(res, c):
    res['state_keys'] = sorted(res['state_keys'])
    res['nontrivial'] = [engine.sha(c)] if (c['delays'] is None or max(c['delays']) > 0 or c['n'] > 1) else []
    res['outcomes'] = ['n%d/max%d' % (c['n'], 0 if c['delays'] is None else max(c['delays']))]
    return res


def run(ctx):
    T = ctx.tier == 'thorough'
    N = 12 if T else 9
    cases = []
    for n in (1, 2, 3):
        vecs = [None] + [list(v) for v in itertools.product(range(4), repeat=n)]
        for dl in vecs:
            for npol in (1, 2):
                for t0 in ((0.0, 20.0) if T else (0.0,)):
                    cases.append(dict(n=n, delays=dl, npol=npol, N=N, t_start=t0, seed=21 + ctx.seed, all_cuts=T))
    # (sub-box) a complex custom source on the last stream only; a non-zero construction time in the quick tier too
    for dl in ([0, 2], [1, 0, 3]):
        for npol in (1, 2):
            cases.append(dict(n=len(dl), delays=dl, npol=npol, N=N, t_start=0.0, seed=21 + ctx.seed, all_cuts=False, cplx=True))
            cases.append(dict(n=len(dl), delays=dl, npol=npol, N=N, t_start=20.0, seed=21 + ctx.seed, all_cuts=False))
            cases.append(dict(n=len(dl), delays=dl, npol=npol, N=N, t_start=0.0, seed=21 + ctx.seed, all_cuts=False, cplx_bg=True))
    # request sizes as numpy fixed-width integers near the top of their range (size + largest delay does not fit the type)
    for nt, comps, dl in (('uint8', [[200, 150, 130], [255, 101, 254]], [0, 100]), ('int8', [[100, 120, 127], [127, 31]], [30, 0]),
                          ('int16', [[200, 150, 130]], [0, 100]), ('uint8', [[200, 150]], [100, 0, 57])):
        for npol in (1, 2):
            cases.append(dict(n=len(dl), delays=dl, npol=npol, N=sum(comps[0]), t_start=0.0, seed=21 + ctx.seed, all_cuts=False,
                              comps=comps, ntype=nt))
    ctx.pmap(case_array, cases, chunk=1)
    return ctx.finish(
        rule='one case per (antenna count 1..3, delay vector in {0..3}^n or omitted, polarisations, start time); inside each case '
             'every composition of N samples with parts > max delay, x {no clock op, set_time/reset_start/add_time at %s}, '
             'x {deterministic, seeded-noise} background is executed on a real MultiAntennaArray.  transitions = requests, '
             'traces = complete schedules; states = (config, samples since restart, start flag).  Non-trivial = some delay > 0, '
             'several antennas, or the omitted default' % ('every cut' if T else 'the first cut'),
        assumptions=['sample_rate 1 Hz and integer-valued times so that timestamps are exact and alignment is unambiguous',
                     'seeded background noise compared with a same-seed twin array whose background stream makes one request'],
        coverage_extra={'bounds': {'N': N, 'delays': '{0..3}^n, n<=3, + omitted', 'clock_ops': ['set_time(50)', 'reset_start()', 'add_time(3)']}})
