---------------------------- MODULE CadenceList ----------------------------
(***************************************************************************)
(* C18, second oracle (E-TLC).  The cadence as an abstract machine:        *)
(*   seq  : the sequence of item ids held by the cadence (a Python list)   *)
(*   lab  : the sticky order label of every item ("none" = not labelled)   *)
(*   last : history variable -- the operation that produced this state,    *)
(*          with its arguments and its result, so that every edge of the   *)
(*          dumped state graph is self-describing.                         *)
(*                                                                         *)
(* Operations take Python index semantics (0-based positions, negative     *)
(* indices count from the end, insert clamps, item assignment / deletion / *)
(* pop raise IndexError out of range).  Items 1..NItems; item Bad belongs  *)
(* to another compatibility class than the others; the cadence's class is  *)
(* that of its first element.                                              *)
(*                                                                         *)
(* To keep the graph small the machine is two-phase: an operation is taken *)
(* from a quiescent state (last = Idle) and leads to a state whose `last`  *)
(* describes it; the only step from there is Ret (back to Idle, nothing    *)
(* else changes).  Without this every abstract state would be duplicated   *)
(* once per incoming operation label and each copy would carry the full    *)
(* fan-out.  The op edges are the ones replayed on the implementation.     *)
(*                                                                         *)
(* Where the property is silent (an unlabelled item would land at a        *)
(* position that has no letter in Order) the operation is not enabled.     *)
(***************************************************************************)
EXTENDS Integers, Sequences

CONSTANTS NItems, Bad, MaxLen, Order

VARIABLES seq, lab, last

vars == <<seq, lab, last>>

Items == 1..NItems
Idx   == (0 - MaxLen - 2)..(MaxLen + 2)

Class(x) == IF x = Bad THEN 1 ELSE 0
Compatible(s, x) == Len(s) = 0 \/ Class(x) = Class(s[1])

Idle == [op |-> "idle", i |-> 0, x |-> 0, res |-> "ok"]
Did(o, i, x, r) == [op |-> o, i |-> i, x |-> x, res |-> r]

(* ---- Python list index semantics; p is a 0-based position ---- *)
InsPos(i, n) == LET j == IF i < 0 THEN i + n ELSE i
                IN  IF j < 0 THEN 0 ELSE IF j > n THEN n ELSE j
ItemPos(i, n) == IF i < 0 THEN i + n ELSE i
InRange(p, n) == 0 <= p /\ p < n
InsertAt(s, p, x) == SubSeq(s, 1, p) \o <<x>> \o SubSeq(s, p + 1, Len(s))
RemoveAt(s, p)    == SubSeq(s, 1, p) \o SubSeq(s, p + 2, Len(s))
SetAt(s, p, x)    == [s EXCEPT ![p + 1] = x]

(* ---- sticky labels ---- *)
HasLetter(x, p) == lab[x] # "none" \/ p < Len(Order)
Labelled(x, p)  == IF lab[x] = "none" THEN [lab EXCEPT ![x] = Order[p + 1]] ELSE lab

Init == seq = <<>> /\ lab = [x \in Items |-> "none"] /\ last = Idle

Rejected(o, i, x, r) == /\ UNCHANGED <<seq, lab>>
                        /\ last' = Did(o, i, x, r)

DoAppend(x) ==
    /\ last = Idle
    /\ IF ~Compatible(seq, x)
       THEN Rejected("append", 0, x, "guard")
       ELSE /\ Len(seq) < MaxLen
            /\ HasLetter(x, Len(seq))
            /\ seq' = Append(seq, x)
            /\ lab' = Labelled(x, Len(seq))
            /\ last' = Did("append", 0, x, "ok")

DoInsert(i, x) ==
    /\ last = Idle
    /\ IF ~Compatible(seq, x)
       THEN Rejected("insert", i, x, "guard")
       ELSE LET p == InsPos(i, Len(seq)) IN
            /\ Len(seq) < MaxLen
            /\ HasLetter(x, p)
            /\ seq' = InsertAt(seq, p, x)
            /\ lab' = Labelled(x, p)
            /\ last' = Did("insert", i, x, "ok")

DoSet(i, x) ==
    /\ last = Idle
    /\ LET p == ItemPos(i, Len(seq)) IN
       IF ~Compatible(seq, x)
       THEN Rejected("set", i, x, "guard")
       ELSE IF ~InRange(p, Len(seq))
       THEN Rejected("set", i, x, "IndexError")
       ELSE /\ HasLetter(x, p)
            /\ seq' = SetAt(seq, p, x)
            /\ lab' = Labelled(x, p)
            /\ last' = Did("set", i, x, "ok")

DoDel(i) ==
    /\ last = Idle
    /\ LET p == ItemPos(i, Len(seq)) IN
       IF ~InRange(p, Len(seq))
       THEN Rejected("del", i, 0, "IndexError")
       ELSE /\ seq' = RemoveAt(seq, p)
            /\ UNCHANGED lab
            /\ last' = Did("del", i, seq[p + 1], "ok")      \* x = the item removed

DoPop(i) ==
    /\ last = Idle
    /\ LET p == ItemPos(i, Len(seq)) IN
       IF ~InRange(p, Len(seq))
       THEN Rejected("popi", i, 0, "IndexError")
       ELSE /\ seq' = RemoveAt(seq, p)
            /\ UNCHANGED lab
            /\ last' = Did("popi", i, seq[p + 1], "ok")     \* x = the item returned

DoPopLast ==
    /\ last = Idle
    /\ IF Len(seq) = 0
       THEN Rejected("pop", 0, 0, "IndexError")
       ELSE /\ seq' = SubSeq(seq, 1, Len(seq) - 1)
            /\ UNCHANGED lab
            /\ last' = Did("pop", 0, seq[Len(seq)], "ok")

Ret == /\ last # Idle
       /\ last' = Idle
       /\ UNCHANGED <<seq, lab>>

Next == \/ \E x \in Items : DoAppend(x)
        \/ \E i \in Idx, x \in Items : DoInsert(i, x)
        \/ \E i \in Idx, x \in Items : DoSet(i, x)
        \/ \E i \in Idx : DoDel(i)
        \/ \E i \in Idx : DoPop(i)
        \/ DoPopLast
        \/ Ret

Spec == Init /\ [][Next]_vars

(* ---- order strings the .cfg files substitute for Order ---- *)
OrderABACAD == <<"A", "B", "A", "C", "A", "D">>
OrderAB     == <<"A", "B">>

(* ---- invariants TLC checks on the model itself ---- *)
TypeOK == /\ seq \in Seq(Items) /\ Len(seq) <= MaxLen
          /\ \A x \in Items : lab[x] \in {"none"} \cup {Order[k] : k \in 1..Len(Order)}
Consistent == \A k \in 1..Len(seq) : Class(seq[k]) = Class(seq[1])
MembersLabelled == \A k \in 1..Len(seq) : lab[seq[k]] # "none"
=============================================================================
