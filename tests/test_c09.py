"""
Plain replay of the C09 defect (no explorer needed):  PYTHONPATH=<tree> /venv/bin/python -m pytest /verif/tests/test_c09.py

A zero-variance (constant) voltage array must quantise to the target mean.  On the pinned tree the rounded mean
of e.g. three samples of 0.1 is 0.10000000000000002, estimate_stats returns a deviation of 1.4e-17 instead of 0,
and the quantiser maps every sample to target_mean - target_std (-14 for the default 8-bit / FWHM 32).
"""
import numpy as np
import pytest

CASES = [(0.1, 3), (0.1, 7), (0.1, 40), (1.9, 10), (-2.7, 100), (1e150, 100), (3.3e150, 10), (7.0, 5), (0.0, 4)]


@pytest.mark.parametrize('value,n', CASES)
def test_constant_input_maps_to_target_mean(value, n):
    from setigen.voltage import quantization as Q
    x = np.full(n, value)
    with np.errstate(over='raise', invalid='raise', divide='raise'):
        q = Q.quantize_real(x, target_mean=0, num_bits=8)
        r = Q.RealQuantizer(target_mean=3, target_fwhm=32, num_bits=8).quantize(x)
        c = Q.ComplexQuantizer(target_mean=-2, target_fwhm=8, num_bits=4).quantize(x + 1j * x)
        f = Q.quantize_complex(x - 1j * x, target_mean=1, num_bits=8)
    assert np.array_equal(q, np.zeros(n, dtype=int))
    assert np.array_equal(r, np.full(n, 3))
    assert np.array_equal(c, np.full(n, -2 - 2j))
    assert np.array_equal(f, np.full(n, 1 + 1j))


@pytest.mark.parametrize('value,n', CASES)
def test_constant_prefix_has_zero_deviation(value, n):
    from setigen.voltage.data_stream import estimate_stats
    m, s = estimate_stats(np.full(n, value), 10000)
    assert s == 0 and m == value
