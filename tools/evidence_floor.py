#!/usr/bin/env python3
"""
Guards against a check that silently explores less than it did (DESIGN.md 10.3: the main box of C20 was once dropped by
an editing slip and the smaller exploration stayed silent).

    python3 tools/evidence_floor.py            compare evidence/*.json (quick tier) with tools/evidence_floor.json; exit 1
                                               if a check's evaluations / distinct non-trivial cases fell below 90 % of the floor
    python3 tools/evidence_floor.py --update   rewrite the floor from the current evidence files (quick tier only)

The floor is raised deliberately (with --update, committed together with the change that grew a check), never lowered
without a reason stated in the commit message.
"""
import glob, json, os, sys
HERE = os.path.dirname(os.path.dirname(os.path.abspath(__file__)))
FLOOR = os.path.join(HERE, 'tools', 'evidence_floor.json')


def current():
    out = {}
    for fn in sorted(glob.glob(os.path.join(HERE, 'evidence', 'C??.json'))):
        e = json.load(open(fn))
        if e.get('tier') != 'quick':
            continue
        cov = e.get('coverage', {})
        out[e['property_id']] = {'evaluations': int(cov.get('evaluations', 0)), 'distinct_nontrivial': int(cov.get('distinct_nontrivial', 0)),
                                 'distinct_outcomes': int(cov.get('distinct_outcomes', 0))}
    return out


def main():
    cur = current()
    if '--update' in sys.argv:
        json.dump(cur, open(FLOOR, 'w'), indent=1, sort_keys=True)
        print('floor written for %d checks' % len(cur))
        return 0
    floor = json.load(open(FLOOR))
    bad = 0
    for pid, f in sorted(floor.items()):
        c = cur.get(pid)
        if c is None:
            print('%s: no quick-tier evidence file (last run was another tier?)' % pid)
            continue
        for k in ('evaluations', 'distinct_nontrivial', 'distinct_outcomes'):
            if c[k] < 0.9 * f[k]:
                print('BELOW-FLOOR %s %s=%d floor=%d' % (pid, k, c[k], f[k]))
                bad += 1
    print('%d checks compared, %d below floor' % (len(floor), bad))
    return 1 if bad else 0


if __name__ == '__main__':
    sys.exit(main())
