#!/bin/bash
# Offline setup: nothing to compile (pure Python run by /venv/bin/python against /repo's working tree).
# Verifies that the interpreter, the repo binding and the evidence validator are available.
cd "$(dirname "$0")" || exit 1
mkdir -p evidence replays
chmod +x check
PYTHONPATH=/repo:$(pwd) PYTHONWARNINGS=ignore /venv/bin/python - <<'PY' || exit 1
import numpy, scipy, h5py, astropy, blimpy, setigen, mc.engine
print('setup ok: setigen from', setigen.__file__)
PY
python3-vt -W ignore -c "import jsonschema" || echo "warning: python3-vt/jsonschema missing; evidence validation skipped"
exit 0
