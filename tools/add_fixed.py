#!/usr/bin/env python3
"""tools/add_fixed.py <Dnn> <PROP> <commit> <site> <failure> "<what failed>" ["<short table text>"]
Records a repaired defect: known_findings.json ('fixed:' line) + a row in DESIGN.md section 10.2."""
import sys, json, re
key, prop, commit, site, failure, text = sys.argv[1:7]
short = sys.argv[7] if len(sys.argv) > 7 else text
p = '/verif/known_findings.json'
d = json.load(open(p))
d['findings'] = [f for f in d['findings'] if f.get('key') != key]
d['findings'].append({"property": prop, "status": "fixed", "key": key, "commit": commit, "site": site, "failure": failure,
                      "line": "fixed: property=%s %s %s" % (prop, commit, text)})
json.dump(d, open(p, 'w'), indent=1)
s = open('/verif/DESIGN.md').read()
rows = [m for m in re.finditer(r'^\| D\d+ .*\n', s, flags=re.M)]
last = rows[-1]
row = "| %s (new, independent review of the unchanged tree) | %s | %s | %s |\n" % (key, prop, commit, short)
s = s[:last.end()] + row + s[last.end():]
m = re.search(r'Besides the (\d+) real defects', s)
if m:
    s = s.replace(m.group(0), 'Besides the %d real defects' % (int(m.group(1)) + 1))
open('/verif/DESIGN.md', 'w').write(s)
print('recorded', key)
