#!/bin/bash
# usage: mk.sh <wave> <prop-lower>...  -> prints lane items with next free indices
w=$1; shift
for p in "$@"; do
  P=$(echo $p | tr a-z A-Z)
  n=$(ls /verif/seeded | grep "^$P-" | sed "s/$P-//" | sort -n | tail -1)
  for k in 1 2 3; do echo -n "/tmp/seed$w-$p/seeded/$k:$P:$P-$((n+k)) "; done
done
