"""
C02 -- Recorded RAW samples equal the reference pipeline, whatever the partitioning.

E-HIST (composition schedules) over an E-PROD box.  One case = one backend configuration; inside the
case EVERY computation partition (num_subblocks 1..r, r+1, 32) x blocks_per_file is recorded by the real
backend with a spy antenna and spy quantisers, the files are decoded by the independent GUPPI parser, and
  (a) each stage is compared with the reference pipeline (digitiser: affine-round-clip on the observed
      stream chunk; filterbank: FIR+DFT definition in long double over the whole observed digitised stream;
      requantiser: affine-round-clip on the observed channelised chunk; byte layout exact), and
  (b) with statistics pinned to a common prefix, all partitions must produce identical payload bytes.
Transitions = sub-block steps (one antenna request each); traces = complete recordings.
"""
import os
import numpy as np

from mc import engine, vharness
from mc.refs import guppi

PROPERTY = 'C02'
LEVEL = 'model_checking'
LD = np.longdouble


class SharedStage(Exception):
    pass


def _stats_ok(got, x, n_lead, V, what):
    """cached (mean, std) equal those of the leading n_lead entries (rows for 2-D)"""
    lead = np.asarray(x)[:n_lead]
    m, s = float(np.mean(lead.astype(LD))), float(np.std(lead.astype(LD)))
    if got[0] is None or got[1] is None:
        V('stats_prefix', '%s: the quantiser holds no cached statistics after the call (%r); the leading %d samples have (%r, %r)'
          % (what, got, len(lead), m, s))
        return False
    gm, gs = float(got[0]), float(got[1])
    scale = max(abs(m), abs(s), 1e-300)
    if abs(gm - m) > 1e-9 * scale or abs(gs - s) > 1e-9 * scale:
        V('stats_prefix', '%s: cached stats (%r, %r) but leading %d samples have (%r, %r)' % (what, gm, gs, len(lead), m, s))
        return False
    return True


def _record(cfg, nsub, bpf, pin, seed, stem, template=False):
    c = dict(cfg, num_subblocks=nsub, bpf=bpf, pin_stats=pin, template=template)
    be, src, dig, fb, rq = vharness.make_backend(c, seed=seed)
    if template:
        objs = [o for grid in (dig, fb, rq) for row in grid for o in row]
        objs += [q for row in rq for o in row for q in (o.quantizer_r, o.quantizer_i)]
        if len(set(id(o) for o in objs)) != len(objs):
            raise SharedStage('stage objects expanded from a template are shared between antennas / polarisations')
    for fn in guppi.list_files(stem):
        os.remove(fn)
    # the first output file name is already taken by a leftover of some earlier run (not a RAW file at all): a recording
    # replaces what is there
    with open(stem + '.0000.raw', 'wb') as f:
        f.write(b'\x55' * 1000)
    be.record(output_file_stem=stem, num_blocks=cfg['nb'], length_mode='num_blocks', header_dict={},
              digitize=cfg['digitize'], load_template=False, verbose=False)
    return be, src, dig, fb, rq


def _verify(cfg, nsub, bpf, pin, seed, stem, V, res, nrec=1, template=False):
    """Record one partition (nrec recordings in a row from the SAME backend) and check each stage by stage.
    Returns the concatenated payload bytes of the first recording (or None)."""
    objs = None
    first = None
    for rec in range(nrec):
        pl, objs = _verify1(cfg, nsub, bpf, pin, seed, stem, V, res, objs, rec, template)
        if pl is None:
            return None
        if rec == 0:
            first = pl
    return first


def _verify1(cfg, nsub, bpf, pin, seed, stem, V, res, objs, rec, template=False):
    M, P, r, nb = cfg['M'], cfg['P'], cfg['r'], cfg['nb']
    T = r * M
    sc, nc, npol, bits = cfg['start_chan'], cfg['num_chans'], cfg['npol'], cfg['bits']
    na = vharness.nants_of(cfg)
    tag = 'nsub=%d bpf=%d pin=%s recording#%d' % (nsub, bpf, pin, rec)
    try:
        if objs is None:
            be, src, dig, fb, rq = _record(cfg, nsub, bpf, pin, seed, stem, template=template)
        else:
            be, src, dig, fb, rq = objs
            del src.log[:]
            for row in dig + rq:
                for q in row:
                    del q.calls[:]
            # the second recording of the same backend goes to the SAME stem, over the files of the first
            be.record(output_file_stem=stem, num_blocks=cfg['nb'], length_mode='num_blocks', header_dict={},
                      digitize=cfg['digitize'], load_template=False, verbose=False)
    except SharedStage as e:
        V('shared_stage_objects', '%s: %s' % (tag, e), site='RawVoltageBackend')
        return None, None
    except Exception as e:
        V('record_raised', '%s: %s: %s' % (tag, type(e).__name__, e))
        return None, None
    objs = (be, src, dig, fb, rq)
    res['traces'] += 1
    res['transitions'] += len(src.log)
    for j in range(len(src.log)):
        res['state_keys'].add('%d/%d/%d/%d/%d/%d' % (M, r, nsub, bpf, min(j, 3 * (r + 1)), int(j == 0)))
    files = guppi.list_files(stem)
    try:
        blocks = [b for fn in files for b in guppi.parse_file(fn)]
    except guppi.GuppiFormatError as e:
        V('framing', '%s: %s' % (tag, e))
        return None, None
    finally:
        pass
    nfiles = -(-nb // bpf)
    if len(files) != nfiles or len(blocks) != nb:
        V('block_count', '%s: %d files / %d blocks, expected %d / %d' % (tag, len(files), len(blocks), nfiles, nb))
        return None, None
    # ---- stage 0: the antenna stream as actually delivered
    total = sum(k for k, _, _ in src.log)
    if total != nb * T * P + M * P:
        V('samples_requested', '%s: %d samples requested, expected %d' % (tag, total, nb * T * P + M * P))
        return None, None
    if any(k % (M * P) for k, _, _ in src.log):
        V('request_granularity', '%s: requests %s' % (tag, [k for k, _, _ in src.log]))
    win = vharness.ref_window(M, P, cfg.get('window', 'hamming'))
    for a in range(na):
        for p in range(npol):
            stream = np.concatenate([arr[a][p] for _, _, arr in src.log])
            # ---- stage 1: digitiser
            if cfg['digitize']:
                calls = dig[a][p].calls
                if len(calls) != len(src.log):
                    V('digitizer_calls', '%s: %d digitiser calls for %d requests' % (tag, len(calls), len(src.log)))
                    return None, None
                for j, cl in enumerate(calls):
                    if not np.array_equal(cl['x'], src.log[j][2][a][p]):
                        V('digitizer_input', '%s: digitiser call %d was not given the antenna samples of request %d' % (tag, j, j))
                        return None, None
                    if pin:
                        lead_src, nlead = calls[0]['x'], M * P
                    else:
                        lead_src, nlead = cl['x'], 10000
                    if not _stats_ok(cl['stats'], lead_src, nlead, V, '%s digitiser[%d][%d] call %d' % (tag, a, p, j)):
                        return None, None
                    bad, worst, ties = vharness.quant_check(cl['x'], cl['q'], 8, cl['tmean'], cl['tstd'], cl['stats'][0], cl['stats'][1])
                    res['ambiguous'] += ties
                    if bad:
                        V('digitizer_output', '%s: %d digitised samples differ from round-clip of the affine map (worst |q-y|=%.3f)'
                          % (tag, bad, worst))
                        return None, None
                pfb_in = np.concatenate([cl['q'] for cl in calls])
            else:
                if dig[a][p].calls:
                    V('digitizer_calls', '%s: digitiser used although digitize=False' % tag)
                pfb_in = stream
            # ---- stage 2: filterbank definition over the whole stream, channel selection
            ref = vharness.pfb_definition(pfb_in, M, P, win)[:, sc:sc + nc]
            rcalls = rq[a][p].calls
            rin = np.concatenate([cl['x'] for cl in rcalls]) if rcalls else np.zeros((0, nc))
            if rin.shape != (nb * T, nc):
                V('spectra_count', '%s: requantiser received %s spectra x channels in %d calls, expected (%d, %d)'
                  % (tag, rin.shape, len(rcalls), nb * T, nc))
                return None, None
            scale = float(np.abs(ref).max()) + 1.0
            err = np.abs(rin.astype(np.clongdouble) - ref)
            if float(err.max()) > 1e-9 * scale:
                row = int(np.argmax(err.max(axis=1)))
                V('pfb_mismatch', '%s: channelised spectrum %d (of %d) differs from the FIR+DFT definition by %.3g '
                  '(scale %.3g); sub-block boundaries at rows %s' % (tag, row, nb * T, float(err.max()), scale,
                                                                    list(np.cumsum([cl['x'].shape[0] for cl in rcalls]))[:8]))
                return None, None
            # ---- stage 3: requantiser
            for j, cl in enumerate(rcalls):
                if pin:
                    lead, nlead = rcalls[0]['x'], M
                else:
                    lead, nlead = cl['x'], 10000
                okr = _stats_ok(cl['stats_r'], np.real(lead), nlead, V, '%s requantiser[%d][%d].r call %d' % (tag, a, p, j))
                oki = _stats_ok(cl['stats_i'], np.imag(lead), nlead, V, '%s requantiser[%d][%d].i call %d' % (tag, a, p, j))
                if not (okr and oki):
                    return None, None
                for part, fn_, st, k in (('real', np.real, cl['stats_r'], 0), ('imag', np.imag, cl['stats_i'], 1)):
                    bad, worst, ties = vharness.quant_check(fn_(cl['x']), fn_(cl['q']), bits, cl['tmean'][k], cl['tstd'][k], st[0], st[1])
                    res['ambiguous'] += ties
                    if bad:
                        V('requantizer_output', '%s: %d requantised %s parts differ from round-clip of the affine map (worst %.3f)'
                          % (tag, bad, part, worst))
                        return None, None
            rout = np.concatenate([cl['q'] for cl in rcalls])          # (nb*T, nc) complex ints
            # ---- stage 4: byte layout on disk
            for b in range(nb):
                dec = guppi.decode_payload(blocks[b]['payload'], na, nc, npol, bits)   # (na, nc, T, npol)
                got = dec[a, :, :, p]                                                   # (nc, T)
                want = rout[b * T:(b + 1) * T, :].T
                if got.shape != want.shape or not np.array_equal(got, want):
                    nbad = int(np.count_nonzero(got != want)) if got.shape == want.shape else -1
                    V('byte_layout', '%s: block %d antenna %d pol %d: %d of %d decoded samples differ from the requantiser '
                      'output in time order (standard layout, %d-bit)' % (tag, b, a, p, nbad, want.size, bits))
                    return None, None
    payload = b''.join(b['payload'] for b in blocks)
    res['n'] += 1
    return payload, objs


def case_config(c):
    viol = []

    def V(failure, detail, site='RawVoltageBackend.record'):
        viol.append({'site': site, 'failure': failure, 'detail': detail})
    res = {'viol': viol, 'n': 0, 'traces': 0, 'transitions': 0, 'state_keys': set(), 'ambiguous': 0}
    cfg = dict(c)
    r, nb = c['r'], c['nb']
    seed = 11 + c.get('seed', 0)
    stem = os.path.join(engine.workdir(), 'c02_%s' % engine.sha(c))
    nsubs = list(range(1, r + 1)) + [r + 1, 32]
    bpfs = c['bpfs'] if nb > 1 else [1]
    payloads = {}
    try:
        # (b) + (a) with pinned statistics: every partition
        for nsub in nsubs:
            for bpf in bpfs:
                pl = _verify(cfg, nsub, bpf, True, seed, stem, V, res)
                if viol:
                    return _fin(res, c)
                payloads[(nsub, bpf)] = pl
        keys = sorted(payloads)
        base = payloads[keys[0]]
        for k in keys[1:]:
            if payloads[k] != base:
                a0 = np.frombuffer(base, dtype=np.int8)
                a1 = np.frombuffer(payloads[k], dtype=np.int8)
                nd = int(np.count_nonzero(a0 != a1)) if a0.size == a1.size else -1
                # every stage passed its tie-tolerant comparison on both sides: a mismatch of a handful of bytes
                # can only be a rounding tie resolved differently (rule 5); anything systematic is reported
                if 0 < nd <= 2 and res['ambiguous'] > 0:
                    res['ambiguous'] += nd
                else:
                    V('partition_differential', 'payload bytes differ between partitions %s and %s (num_subblocks, '
                      'blocks_per_file) with statistics pinned to a common prefix: %d of %d bytes' % (keys[0], k, nd, a0.size))
                    return _fin(res, c)
        # (a) with the default (per-call) statistics on representative partitions
        # (not for the gated sub-box: per-call statistics of a sub-block of exact zeros are a division by zero, outside the property)
        for nsub in ([] if c.get('gated') else sorted(set([1, r, 32]))):
            _verify(cfg, nsub, bpfs[-1], False, seed, stem, V, res, nrec=2, template=True)
            if viol:
                return _fin(res, c)
        # a second recording from the same backend with pinned statistics (stale caches would show)
        _verify(cfg, r, bpfs[0], True, seed, stem, V, res, nrec=2, template=True)
        if viol:
            return _fin(res, c)
    finally:
        for fn in guppi.list_files(stem):
            try:
                os.remove(fn)
            except OSError:
                pass
    res['outcomes'] = [engine.sha(base)[:8]] if payloads else []
    return _fin(res, c)


def _fin(res, c):
    res['state_keys'] = sorted(res['state_keys'])
    res['nontrivial'] = [engine.sha(c)]
    return res


def configs(tier):
    T = tier == 'thorough'
    out = []
    for M in ((1, 2, 3, 4) if T else (2, 3)):
        for P in ((4, 6, 8, 16) if T else (4, 8)):
            half = P // 2
            wins = [(s, n) for s in range(half) for n in range(1, half - s + 1)]
            if P == 8:
                wins = [(0, 4), (1, 2), (3, 1), (0, 1)] + ([(2, 2), (1, 3)] if T else [])
            if P == 6:
                wins = [(0, 3), (1, 2), (2, 1)]
            if T and P == 16:
                wins = [(0, 8), (2, 3), (7, 1), (0, 1), (5, 3)]
            for (s, n) in wins:
                for r in ((1, 2, 3, 4, 6) if T else range(1, 5)):
                    for nb in ((1, 2, 3, 5) if T else (1, 2, 3)):
                        for npol in (1, 2):
                            for source in (('ant', 'arr2', 'arr3') if T else ('ant', 'arr2')):
                                for bits in (8, 4):
                                    for dig in (True, False):
                                        for asc in ((True, False) if (T and source == 'ant') else (True,)):
                                            out.append(dict(M=M, P=P, start_chan=s, num_chans=n, r=r, nb=nb, npol=npol,
                                                            source=source, bits=bits, digitize=dig, asc=asc,
                                                            bpfs=([1, 2, 3] if nb >= 3 else [1, 2]) if T else [1, 2],
                                                            delays={'ant': None, 'arr2': [0, 1], 'arr3': [0, 2, 1]}[source]))
    # (sub-boxes) another window function (the template form must carry it to every stream), and sky content 2^-40 times
    # smaller (nothing in the pipeline is tied to an absolute voltage scale: the recorded bytes do not depend on it)
    sub = [c for c in out if c['M'] == out[0]['M'] and c['P'] == 8 and c['r'] in (2, 3) and c['nb'] == 2 and c['bits'] == 8]
    out += [dict(c, window=w) for c in sub for w in ('hann', 'boxcar')]
    out += [dict(c, noise=2.0 ** -40, level=0.6 * 2.0 ** -40) for c in sub]
    out += [dict(c, noise2=True) for c in sub]          # two noise sources per stream
    out += [dict(c, gated=True) for c in sub if c['source'] == 'ant']      # a noise-free stream with a gated tone: sub-blocks of exact zeros
    out += [dict(c, sample_rate=3e9, t_start=100.0) for c in sub]        # a realistic sample rate, 100 s into an observation
    return out


def run(ctx):
    cases = configs(ctx.tier)
    for c in cases:
        c['seed'] = ctx.seed
        if c['delays'] is None:
            del c['delays']
    # coarsest parameters outermost already (M, P, window, r, nb, ...): a wall-clock cap leaves a complete smaller box
    ctx.pmap(case_config, cases, chunk=4)
    return ctx.finish(
        rule='one case per backend configuration (taps x branches x channel window x windows-per-block r x num_blocks x '
             'pols x source x bits x digitiser x orientation); inside each case every partition num_subblocks in '
             '{1..r, r+1, 32} x blocks_per_file is recorded by the real backend and verified stage by stage, and all '
             'partitions are compared byte for byte with pinned statistics.  states = distinct (taps, r, num_subblocks, '
             'blocks_per_file, step index, first-request flag) positions; transitions = sub-block steps (antenna '
             'requests); traces = complete recordings verified against the reference pipeline',
        assumptions=['"leading samples" of a 2-D channelised input = leading spectra, all recorded channels',
                     'rounding ties accepted either way (|q - y| <= 0.5 + 1e-6)',
                     'filterbank output compared with the long-double definition at 1e-9 of the output scale',
                     'window = scipy.signal.firwin(M*P, 1/P, window="hamming", scale=True) * M*P (documented design)'],
        coverage_extra={'bounds': {'tier': ctx.tier, 'configs': len(cases)}})
