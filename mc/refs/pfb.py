"""
Reference polyphase filterbank: the FIR + DFT *definition*, evaluated in extended precision.

Written from the property statement (C08) and the documented window design, not from the code.

Definition.  With M = num_taps, P = num_branches, w a length-M*P prototype filter and x a
(real or complex) sample sequence, output spectrum n, channel k (k < P/2, "lower half") is

    X[n, k] = P**-0.5 * sum_{p<P} ( sum_{m<M} w[m*P + p] * x[(n + m)*P + p] ) * exp(-2*pi*i*p*k / P)

i.e. the DFT over the branch index p of the window-weighted sum of M consecutive length-P
segments starting at sample n*P.

Spectrum count.  A call on W whole windows (window = M*P samples; trailing samples that do not
fill a window are ignored) yields the (W-1)*M spectra n = 0 .. (W-1)*M - 1.  The last window is
held back: it is the streaming tail that a cached filterbank prepends to the next chunk, which is
what makes a chunked stream return the one-shot spectra with none missing or repeated:
a stream cut into chunks of c_1, c_2, ... windows returns (c_1 - 1)*M, then c_2*M, c_3*M, ... spectra.

Window.  Documented design: scipy.signal.firwin(M*P, cutoff=1/P, window=fn, scale=True) * M*P
(`design_window`), cross-checked by `sinc_window`: a hand-written windowed sinc with cutoff at
1/P of Nyquist, normalised to unit DC gain, times M*P.

Everything numeric is np.longdouble / np.clongdouble (x87 80-bit here: eps 1.1e-19); the DFT is the
plain O(P^2) sum with exactly reduced phases (p*k mod P is computed in integers).
"""
import numpy as np

LD = np.longdouble
CLD = np.clongdouble
PI = LD(4) * np.arctan(LD(1))


# ------------------------------------------------------------------ window
def _sym_window(fn, N):
    """Symmetric N-point window, hand-written textbook formulas, long double. `fn` a name or (name, param)."""
    n = np.arange(N).astype(LD)
    if N == 1:
        return np.ones(1, LD)
    a = 2 * PI * n / LD(N - 1)
    if isinstance(fn, (tuple, list)):
        name, par = fn[0], fn[1]
    else:
        name, par = fn, None
    if name in ('boxcar', 'rectangular', 'box', 'ones'):
        return np.ones(N, LD)
    if name in ('hann', 'hanning'):
        return LD(0.5) - LD(0.5) * np.cos(a)
    if name == 'hamming':
        return LD('0.54') - LD('0.46') * np.cos(a)
    if name == 'blackman':
        return LD('0.42') - LD('0.5') * np.cos(a) + LD('0.08') * np.cos(2 * a)
    if name == 'bartlett':
        return LD(1) - np.abs(2 * n / LD(N - 1) - 1)
    if name == 'blackmanharris':
        return (LD('0.35875') - LD('0.48829') * np.cos(a) + LD('0.14128') * np.cos(2 * a)
                - LD('0.01168') * np.cos(3 * a))
    if name == 'nuttall':
        return (LD('0.3635819') - LD('0.4891775') * np.cos(a) + LD('0.1365995') * np.cos(2 * a)
                - LD('0.0106411') * np.cos(3 * a))
    if name == 'kaiser':
        r = 2 * n / LD(N - 1) - 1
        arg = np.sqrt(np.maximum(LD(0), 1 - r * r)).astype(float) * float(par)
        return (np.i0(arg) / np.i0(float(par))).astype(LD)        # np.i0 is double precision only
    raise ValueError('no hand-written formula for window %r' % (fn,))


def window_arg(fn):
    """JSON round trip turns ('kaiser', 8.0) into a list; scipy wants a tuple."""
    return tuple(fn) if isinstance(fn, (list, tuple)) else fn


def sinc_taps_unnormalised(M, P, fn):
    """(1/P) * sinc((n - (N-1)/2) / P) * window[n], n = 0..N-1, N = M*P: ideal low-pass with cutoff 1/P of Nyquist."""
    N = M * P
    t = (np.arange(N).astype(LD) - LD(N - 1) / 2) / LD(P)
    s = np.ones(N, LD)
    nz = t != 0
    s[nz] = np.sin(PI * t[nz]) / (PI * t[nz])
    return s / LD(P) * _sym_window(fn, N)


def window_is_degenerate(M, P, fn, floor=1e-6):
    """True when the windowed sinc has (numerically) no DC gain, so 'scale to unit DC gain' is undefined
    (e.g. a 2-point hann window is identically zero).  Such designs are outside the property."""
    h = sinc_taps_unnormalised(M, P, fn)
    return bool(abs(float(h.sum())) < floor)


def sinc_window(M, P, fn):
    """Hand-written design: windowed sinc normalised to unit DC gain, times M*P (long double)."""
    h = sinc_taps_unnormalised(M, P, fn)
    return h / h.sum() * LD(M * P)


def design_window(M, P, fn):
    """The documented design, float64: firwin(M*P, cutoff=1/P, window=fn, scale=True) * M*P."""
    import scipy.signal
    return scipy.signal.firwin(M * P, cutoff=1.0 / P, window=window_arg(fn), scale=True) * (M * P)


# ------------------------------------------------------------------ FIR + DFT
def n_windows(n_samples, M, P):
    return int(n_samples) // (M * P)


def n_spectra(n_samples, M, P):
    """Spectra returned by one call on n_samples samples (no cache in front)."""
    return max(0, (n_windows(n_samples, M, P) - 1) * M)


def chunk_rows(comp, M):
    """Spectra returned by each call of a cached stream cut into chunks of comp[j] windows."""
    return [(c - 1) * M if j == 0 else c * M for j, c in enumerate(comp)]


def _as_ld(x):
    x = np.asarray(x)
    return x.astype(CLD) if np.iscomplexobj(x) else x.astype(LD)


def ref_frontend(x, w, M, P):
    """FIR part only: y[n, p] = sum_m w[m*P+p] * x[(n+m)*P+p], n < (W-1)*M.  Long double."""
    x = _as_ld(x)
    W = n_windows(len(x), M, P)
    S = max(0, (W - 1) * M)
    rows = x[:W * M * P].reshape(W * M, P)
    wl = np.asarray(w).astype(LD).reshape(M, P)
    y = np.zeros((S, P), dtype=x.dtype)
    for m in range(M):
        y += wl[m][None, :] * rows[m:m + S]
    return y


def dft_matrix(P, K=None):
    """D[p, k] = exp(-2*pi*i*p*k/P), k < K (default P//2), clongdouble, phases reduced exactly."""
    if K is None:
        K = P // 2
    p = np.arange(P, dtype=np.int64)[:, None]
    k = np.arange(K, dtype=np.int64)[None, :]
    r = (p * k) % P
    ang = 2 * PI * r.astype(LD) / LD(P)
    D = np.empty((P, K), CLD)
    D.real = np.cos(ang)
    D.imag = -np.sin(ang)
    # the four exact phases
    for q, val in ((0, 1), (1, -1j), (2, -1), (3, 1j)):
        if (q * P) % 4 == 0:
            D[r == q * P // 4] = val
    return D


def ref_dft(y, P, K=None):
    """X[n, k] = P**-0.5 * sum_p y[n, p] * D[p, k]; plain O(P^2) sum, row by row."""
    D = dft_matrix(P, K)
    y = np.asarray(y)
    out = np.empty((y.shape[0], D.shape[1]), CLD)
    for n in range(y.shape[0]):
        out[n] = (y[n].astype(CLD)[:, None] * D).sum(axis=0)
    return out / np.sqrt(LD(P))


def ref_pfb(x, w, M, P, K=None):
    """The definition: spectra (n_spectra, K=P//2) in clongdouble for sample sequence x and prototype filter w."""
    return ref_dft(ref_frontend(x, w, M, P), P, K)


def gain(w, P):
    """Worst-case output magnitude per unit input magnitude: sum|w| / sqrt(P) (used to scale tolerances)."""
    return float(np.abs(np.asarray(w).astype(LD)).sum() / np.sqrt(LD(P)))
