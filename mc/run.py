"""CLI: python -m mc.run <ID> [--tier quick|thorough] [--replay file]"""
import sys, os, json, argparse, importlib, traceback


def main():
    ap = argparse.ArgumentParser()
    ap.add_argument('prop')
    ap.add_argument('--tier', default=os.environ.get('VERIF_TIER', 'quick'), choices=['quick', 'thorough'])
    ap.add_argument('--replay', default=None)
    a = ap.parse_args()
    try:
        seed = int(os.environ.get('VERIF_SEED', '0'))
    except ValueError:
        seed = 0
    from mc import engine
    engine._silence()
    try:
        engine.check_repo_binding()
        mod = importlib.import_module('mc.checks.%s' % a.prop.lower())
    except Exception:
        print('HARNESS-ERROR property=%s\n%s' % (a.prop, traceback.format_exc()))
        return 2
    if a.replay:
        with open(a.replay) as f:
            doc = json.load(f)
        fn = getattr(mod, doc['fn'])
        r = fn(doc['case']) or {}
        viol = r.get('viol', [])
        findings = engine.load_findings(mod.PROPERTY)
        bad = 0
        for v in viol:
            v = dict(v)
            v.setdefault('params', doc['case'])
            if engine.match_finding(findings, v) is not None:
                print('KNOWN-FINDING: property=%s %s' % (mod.PROPERTY, v.get('site')))
                continue
            bad += 1
            print('violation detail: site=%s failure=%s :: %s' % (v.get('site'), v.get('failure'),
                                                                 str(v.get('detail'))[:1500]))
        if bad:
            print('VIOLATION property=%s replay=%s' % (mod.PROPERTY, a.replay))
            return 1
        print('%s replay: no violation' % mod.PROPERTY)
        return 0
    ctx = engine.Ctx(mod, a.tier, seed)
    try:
        rc = mod.run(ctx)
    except engine.HarnessError:
        print('HARNESS-ERROR property=%s\n%s' % (a.prop, traceback.format_exc()))
        ctx._cleanup()
        return 2
    except Exception:
        print('HARNESS-ERROR property=%s\n%s' % (a.prop, traceback.format_exc()))
        ctx._cleanup()
        return 2
    return rc


if __name__ == '__main__':
    rc = main()
    sys.stdout.flush()
    os._exit(rc if rc is not None else 0)
