"""
Plain replays (no explorer) of the defects D38-D62 (DESIGN.md 10.2 / 10.5) found by the checks after the independent
review of the unchanged tree, and fixed in /repo.
Run:  PYTHONPATH=/repo:/verif /venv/bin/python -m pytest /verif/tests/test_fixes_d38_d62.py -q
Each test fails on the tree as it was before the corresponding repair and passes on the repaired tree (all but d64 also fail
on the pinned tree b965850: D64 became reachable through the Python-float clock introduced by the D40 repair).
"""
import os, logging, signal
import numpy as np
import pytest
from astropy import units as u

logging.disable(logging.CRITICAL)
import setigen as stg
import setigen.voltage as sv
from setigen.voltage import raw_utils
from mc.refs import guppi
from mc import engine

engine._silence()


def _frame(fchans=64, tchans=8, df=2.0, dt=1.0, fch1=6000 * u.MHz, asc=False, **kw):
    return stg.Frame(fchans=fchans, tchans=tchans, df=df * u.Hz, dt=dt * u.s, fch1=fch1, ascending=asc, **kw)


def _backend(src, P=4, M=2, nc=2, bits=8, bpf=2, bs=None, npol=2, nants=1, T=4):
    if bs is None:
        bs = T * nants * nc * (2 * npol * 8 // 8)
    return sv.RawVoltageBackend(src, digitizer=sv.RealQuantizer(), filterbank=sv.PolyphaseFilterbank(num_taps=M, num_branches=P),
                                requantizer=sv.ComplexQuantizer(num_bits=bits), start_chan=0, num_chans=nc, block_size=bs,
                                blocks_per_file=bpf, num_subblocks=1)


def _antenna(rate=1024.0, npol=2, **kw):
    a = sv.Antenna(sample_rate=rate, num_pols=npol, seed=1, **kw)
    for s in a.streams:
        s.add_noise(0, 1)
    return a


def test_d38_frame_axes_are_float64_and_sizes_int():
    fr = stg.Frame(fchans=np.int16(256), tchans=np.int8(16), df=np.float32(2.79), dt=np.float32(18.25), fch1=6000 * u.MHz)
    assert fr.fs.dtype == np.float64 and np.all(np.diff(fr.fs) > 0)
    assert type(fr.fchans) is int and type(fr.tchans) is int
    assert isinstance(fr.shape, tuple)
    ref = stg.Frame(fchans=256, tchans=16, df=float(np.float32(2.79)), dt=float(np.float32(18.25)), fch1=6000 * u.MHz)
    assert np.array_equal(fr.fs, ref.fs) and np.array_equal(fr.ts, ref.ts)
    assert fr.get_drift_rate(np.uint16(4), np.uint16(0)) == ref.get_drift_rate(4, 0)


def test_d39_quantiser_integer_and_single_precision_voltages():
    mk = lambda n: sv.RealQuantizer(target_fwhm=32, num_bits=8, stats_calc_period=-1, stats_calc_num_samples=n)
    # int8 voltages whose leading samples are constant (x - mean wrapped in int8 after the constant-input repair)
    v = np.array([3] * 4 + [-100, 100, 50, -50, 0, 120, -128, 127] * 8, dtype=np.int8)
    out = np.asarray(mk(68).quantize(v.copy()), dtype=float)
    ref = np.asarray(mk(68).quantize(v.astype(np.float64)), dtype=float)
    assert np.array_equal(out, ref)
    # half-precision voltages on an offset (statistics and scaling done in half precision on the pinned tree)
    rng = np.random.default_rng(3)
    base = (1e3 + np.round(rng.normal(0, 8, 256)) * 0.25).astype(np.float16)
    out = np.asarray(mk(256).quantize(base.copy()), dtype=float)
    ref = np.asarray(mk(256).quantize(base.astype(np.float64)), dtype=float)
    assert np.array_equal(out, ref)


def test_d40_stream_clock_with_single_precision_start():
    s = sv.DataStream(sample_rate=1e3, t_start=np.float32(100.25), seed=1)
    seen = []
    s.add_signal(lambda ts: (seen.append(np.array(ts, dtype=float)), np.zeros(len(ts)))[1])
    s.get_samples(8)
    s.get_samples(8)
    assert seen[1][0] == pytest.approx(100.25 + 8e-3, abs=1e-9)
    assert not np.array_equal(seen[0], seen[1])


def test_d41_stand_alone_pfb_functions():
    from setigen.voltage import polyphase_filterbank as pfb
    assert len(pfb.get_pfb_window(np.uint8(8), np.uint8(40))) == 320
    x = np.arange(64, dtype=float) + 1j * np.arange(64)[::-1]
    out = pfb.get_pfb_voltages(x, 2, 8)            # complex voltages: refused on the pinned tree
    ref = sv.PolyphaseFilterbank(num_taps=2, num_branches=8).channelize(x)
    assert out.shape == (ref.shape[0], 5) and np.allclose(out[:, :4], ref, atol=1e-9)
    xr = np.sin(np.arange(96) * 0.3)
    assert pfb.get_pfb_voltages(xr, np.uint8(2), np.uint8(8)).shape == pfb.get_pfb_voltages(xr, 2, 8).shape


def test_d42_refused_channelize_call_leaves_stream_alone():
    x = np.sin(np.arange(96) * 0.37)
    a = sv.PolyphaseFilterbank(num_taps=2, num_branches=8)
    with pytest.raises(Exception):
        a.channelize([1.0, 2.0, 3.0])
    b = sv.PolyphaseFilterbank(num_taps=2, num_branches=8)
    oa, ob = a.channelize(x), b.channelize(x)
    assert oa.shape == ob.shape and np.array_equal(oa, ob)


def test_d43_complex_background_on_array():
    arr = sv.MultiAntennaArray(num_antennas=2, sample_rate=1024.0, num_pols=1, delays=[0, 0], seed=1)
    arr.bg_streams[0].add_signal(lambda ts: np.exp(2j * np.pi * 100.0 * ts))
    out = arr.get_samples(32)
    assert np.iscomplexobj(np.asarray(out))


def test_d44_add_signal_numpy_scalar_forms():
    def run(tp):
        fr = _frame()
        fr.add_signal(stg.constant_path(f_start=fr.get_frequency(20), drift_rate=0.5), tp,
                      stg.box_f_profile(width=4 * u.Hz), stg.constant_bp_profile(level=1))
        return fr.data
    ref = run(1.75)
    assert np.array_equal(run(np.float32(1.75)), ref)
    assert np.array_equal(run(np.array(1.75)), ref)
    # unsigned-integer path array drifting down, with smearing
    fr1, fr2 = _frame(fch1=8000 * u.Hz, asc=True), _frame(fch1=8000 * u.Hz, asc=True)
    path = 8100 - 3 * np.arange(9)
    for fr, p in ((fr1, path.astype(np.uint64)), (fr2, path.astype(np.float64))):
        fr.add_signal(p, 1.0, stg.box_f_profile(width=4 * u.Hz), stg.constant_bp_profile(level=1), doppler_smearing=True)
    assert np.allclose(fr1.data, fr2.data, rtol=0, atol=1e-12)


def test_d45_open_ended_bounding_range():
    fr, fr2 = _frame(), _frame()
    args = (stg.constant_path(f_start=fr.get_frequency(40), drift_rate=0.0), stg.constant_t_profile(level=1),
            stg.box_f_profile(width=4 * u.Hz), stg.constant_bp_profile(level=1))
    fr.add_signal(*args, bounding_f_range=(fr.get_frequency(30), np.inf))
    fr2.add_signal(*args)
    assert fr.data.sum() > 0 and np.allclose(fr.data, fr2.data)


def test_d46_periodic_gaussian_quantity_phase_and_unsigned_pnum():
    fr = _frame(tchans=32)
    t = stg.periodic_gaussian_t_profile(pulse_width=1, period=8, phase=2 * u.s, pnum=np.uint8(3), amplitude=1, level=0.1,
                                        min_level=0, seed=0)
    t2 = stg.periodic_gaussian_t_profile(pulse_width=1, period=8, phase=2, pnum=3, amplitude=1, level=0.1, min_level=0, seed=0)
    assert np.allclose(t(fr.ts), t2(fr.ts))


def test_d47_sub_sampling_on_a_time_axis_with_a_gap():
    ts = np.concatenate([np.arange(4.0), 100 + np.arange(4.0)])
    fr = stg.Frame(fchans=64, tchans=8, df=2.0 * u.Hz, dt=1.0 * u.s, fch1=6000 * u.MHz)
    fr.ts = ts
    fr.add_signal(stg.constant_path(f_start=fr.get_frequency(32), drift_rate=0), lambda t: np.asarray(t, dtype=float),
                  stg.box_f_profile(width=2 * u.Hz), stg.constant_bp_profile(level=1), integrate_t_profile=True, t_subsamples=4)
    col = fr.data[:, 32]
    assert col[4] > 90          # rows after the gap are evaluated near t = 100, not near t = 4


def _alarm(sec, fn):
    def h(*a):
        raise TimeoutError('did not return')
    old = signal.signal(signal.SIGALRM, h)
    signal.alarm(sec)
    try:
        return fn()
    finally:
        signal.alarm(0)
        signal.signal(signal.SIGALRM, old)


def test_d48_split_array_with_narrow_integer_sizes():
    data = np.arange(4000.0).reshape(4, 1000)
    out = _alarm(10, lambda: stg.split_array(data, f_sample_num=np.uint8(100), f_shift=np.uint8(100)))
    ref = stg.split_array(data, f_sample_num=100, f_shift=100)
    assert np.array_equal(np.asarray(out), np.asarray(ref))


def test_d49_get_fs_of_a_selection(tmp_path):
    fr = _frame(fchans=64, tchans=4)
    fr.add_noise(5, 1)
    fn = str(tmp_path / 'a.fil')
    fr.save_fil(fn)
    pieces = list(stg.split_waterfall_generator(fn, 16))
    fs_all = stg.get_fs(fn)
    got = np.concatenate([stg.get_fs(p) for p in pieces])
    assert len(stg.get_fs(pieces[0])) == 16
    assert np.allclose(np.sort(got), np.sort(fs_all))


def test_d50_noise_bookkeeping_is_float():
    fr = _frame()
    fr.add_noise(100, x_std=np.int8(20), noise_type='gaussian')
    assert fr.get_intensity(30) == pytest.approx(30 * 20 / np.sqrt(fr.tchans), rel=1e-12)
    s = sv.DataStream(sample_rate=1e3, seed=1)
    s.add_noise(0, np.int16(200))
    assert s.noise_std == pytest.approx(200.0)


def test_d51_constant_signal_helper_with_narrow_integer_width():
    def run(w, d):
        fr = stg.Frame(fchans=256, tchans=8, df=2861 * u.Hz, dt=1.0 * u.s, fch1=6000 * u.MHz)
        fr.add_constant_signal(f_start=fr.get_frequency(128), drift_rate=d, level=1, width=w, f_profile_type='box')
        return fr.data
    assert run(np.int16(28610), np.int16(0)).sum() > 0
    assert np.array_equal(run(np.int16(28610), np.int16(0)), run(28610.0, 0.0))


def test_d52_backend_counts_are_python_ints(tmp_path):
    a = _antenna(npol=np.uint8(2))
    be = sv.RawVoltageBackend(a, digitizer=sv.RealQuantizer(), filterbank=sv.PolyphaseFilterbank(num_taps=2, num_branches=4),
                              requantizer=sv.ComplexQuantizer(num_bits=np.uint8(8)), start_chan=0, num_chans=2, block_size=144,
                              blocks_per_file=2, num_subblocks=1)
    be.record(str(tmp_path / 'a'), num_blocks=4, length_mode='num_blocks', header_dict={}, load_template=False, verbose=False)
    ref = _backend(_antenna(npol=2), bs=144)
    ref.record(str(tmp_path / 'b'), num_blocks=4, length_mode='num_blocks', header_dict={}, load_template=False, verbose=False)
    assert int(ref.total_obs_num_samples) > 255
    assert int(be.total_obs_num_samples) == int(ref.total_obs_num_samples)
    assert type(be.num_pols) is int and type(be.num_bits) is int


def test_d53_cadence_single_precision_slew():
    frames = [stg.Frame(fchans=16, tchans=4, df=2.0, dt=1.0, fch1=6000 * u.MHz, t_start=1.6e9) for _ in range(3)]
    c = stg.Cadence(frames, t_slew=np.float32(10), t_overwrite=True)
    starts = [f.t_start for f in c]
    assert np.allclose(np.diff(starts), 4 + 10)
    assert np.allclose(c.slew_times, 10)


def test_d54_get_stem_keeps_inner_dots():
    assert str(raw_utils.get_stem('obs_1.5GHz.0000.raw')) == 'obs_1.5GHz'
    assert str(raw_utils.get_stem('/a/b.c/obs.v2.0003.raw')) == '/a/b.c/obs.v2'


def test_d55_frames_from_one_waterfall_object_are_isolated():
    fr = _frame(fchans=32, tchans=4)
    fr.add_noise(5, 1)
    wf = fr.get_waterfall()
    before = np.array(wf.data, copy=True)
    a, b = stg.Frame(waterfall=wf), stg.Frame(waterfall=wf)
    b_before = np.array(b.data, copy=True)
    a.add_noise(100, 1)
    assert np.array_equal(wf.data, before)
    assert np.array_equal(b.data, b_before)


def test_d56_slice_of_h5_frame_keeps_parent_reader(tmp_path):
    fr = _frame(fchans=32, tchans=4)
    fr.add_noise(5, 1)
    fn = str(tmp_path / 'a.h5')
    fr.save_h5(fn)
    parent = stg.Frame(waterfall=fn)
    had = hasattr(parent.waterfall.container, 'h5')
    parent.get_slice(4, 12)
    assert hasattr(parent.waterfall.container, 'h5') == had


def test_d57_empty_string_card(tmp_path):
    stem = str(tmp_path / 'e')
    _backend(_antenna()).record(stem, num_blocks=2, length_mode='num_blocks', header_dict={'NOTE': ''}, load_template=False,
                                verbose=False)
    blocks = guppi.parse_file(stem + '.0000.raw')
    assert len(blocks) == 2


def test_d58_stem_with_glob_characters(tmp_path):
    stem = str(tmp_path / 'run[1]_x')
    _backend(_antenna()).record(stem, num_blocks=3, length_mode='num_blocks', header_dict={}, load_template=False, verbose=False)
    assert raw_utils.get_total_blocks(stem) == 3


def test_d59_from_data_without_optional_cards(tmp_path):
    stem = str(tmp_path / 'in')
    T, nc, npol, P, rate = 4, 2, 2, 4, 1024.0
    blocsize = nc * T * 2 * npol
    cards = [('BACKEND', 'GUPPI'), ('NBITS', 8), ('NPOL', 4), ('OBSNCHAN', nc), ('BLOCSIZE', blocsize), ('TBIN', P / rate),
             ('CHAN_BW', rate / P * 1e-6), ('OBSBW', rate / P * nc * 1e-6), ('OBSFREQ', (nc - 1) / 2 * rate / P * 1e-6),
             ('DIRECTIO', 0), ('PKTIDX', 0)]           # no SCANLEN / TELESCOP / OBSERVER / SRC_NAME
    payload = ((np.arange(blocsize) * 37 + 11) % 256).astype(np.uint8).tobytes()
    guppi.write_files(stem, [(cards, payload), (cards, payload)], 2)
    a = _antenna()
    be = sv.RawVoltageBackend.from_data(input_file_stem=stem, antenna_source=a, digitizer=sv.RealQuantizer(),
                                        filterbank=sv.PolyphaseFilterbank(num_taps=2, num_branches=4), start_chan=0,
                                        num_subblocks=1)
    be.record(str(tmp_path / 'out'), verbose=False, load_template=True)
    assert raw_utils.get_total_blocks(str(tmp_path / 'out')) == 2


def test_d60_sample_instants_do_not_depend_on_chunking():
    def instants(chunks):
        s = sv.DataStream(sample_rate=1e3, t_start=100.25, seed=1)
        seen = []
        s.add_signal(lambda ts: (seen.append(np.array(ts, dtype=float)), np.zeros(len(ts)))[1])
        for c in chunks:
            s.get_samples(c)
        return np.concatenate(seen)
    assert np.array_equal(instants([1] * 8), instants([8]))
    assert np.array_equal(instants([3, 5]), instants([8]))


def test_d61_integer_data_frames_accept_injection():
    data = (np.arange(64 * 4).reshape(4, 64) % 7).astype(np.int32)
    fr = stg.Frame.from_data(2 * u.Hz, 1 * u.s, 6000 * u.MHz, False, data)
    fr.add_signal(stg.constant_path(f_start=fr.get_frequency(20), drift_rate=0), stg.constant_t_profile(level=1.5),
                  stg.box_f_profile(width=2 * u.Hz), stg.constant_bp_profile(level=1))
    assert np.issubdtype(fr.data.dtype, np.floating)
    assert fr.data[0, 20] == pytest.approx(data[0, 20] + 1.5)


def test_d62_constant_signal_helper_on_a_time_axis_with_an_offset():
    def mk():
        fr = stg.Frame(fchans=128, tchans=8, df=2.0 * u.Hz, dt=1.0 * u.s, fch1=6000 * u.MHz)
        ts = np.concatenate([np.arange(4.0), 20 + np.arange(4.0)])
        fr.ts = ts
        return fr
    a, b = mk(), mk()
    f0, d = a.get_frequency(10), 4.0
    a.add_constant_signal(f_start=f0, drift_rate=d, level=1, width=4, f_profile_type='box', doppler_smearing=False)
    b.add_signal(stg.constant_path(f_start=f0, drift_rate=d), stg.constant_t_profile(level=1), stg.box_f_profile(width=4),
                 stg.constant_bp_profile(level=1))
    assert np.allclose(a.data, b.data, atol=1e-12)
    assert a.data[5:].sum() > 0


def test_d63_get_level_counts_whole_fine_spectra():
    from setigen.voltage import level_utils
    a = _antenna(rate=1e3, npol=1)
    be = sv.RawVoltageBackend(a, digitizer=sv.RealQuantizer(), filterbank=sv.PolyphaseFilterbank(num_taps=2, num_branches=15),
                              requantizer=sv.ComplexQuantizer(num_bits=8), start_chan=0, num_chans=1, block_size=12,
                              blocks_per_file=2, num_subblocks=1)
    assert be.samples_per_block == 6
    lv = level_utils.get_level(10.0, be, 1, num_blocks=10, length_mode='num_blocks')
    want = (10.0 * (2.0 / 2) ** 0.5 / 60 ** 0.5) ** 0.5 / (15 * 1 / 4.0) ** 0.5
    assert lv == pytest.approx(want, rel=1e-12)


# ---------------------------------------------------------------------------------------------- D64 - D76 (second review round)
def test_d64_add_time_with_single_precision_step():
    s = sv.DataStream(sample_rate=1e3, t_start=0.0123456789, seed=1)
    s.add_time(np.float32(0.5))
    assert s.t_start == 0.0123456789 + 0.5
    a = sv.Antenna(sample_rate=1e3, t_start=0.0123456789, num_pols=2, seed=1)
    a.add_time(np.float32(0.0))
    assert a.t_start == 0.0123456789 and a.x.t_start == 0.0123456789


def test_d65_refused_set_time_changes_nothing():
    arr = sv.MultiAntennaArray(num_antennas=2, sample_rate=1e3, num_pols=1, delays=[3, 0], seed=1)
    arr.bg_streams[0].add_signal(lambda ts: np.round(np.asarray(ts) * 1e3))        # background sample j equals j
    first = np.array(arr.get_samples(5))
    with pytest.raises(Exception):
        arr.set_time(None)
    assert arr.start_obs is False
    second = np.array(arr.get_samples(5))
    assert np.allclose(second[1, 0], first[1, 0] + 5)


def test_d66_single_precision_duration():
    a = _antenna(rate=1e3, npol=1)
    be = sv.RawVoltageBackend(a, digitizer=sv.RealQuantizer(), filterbank=sv.PolyphaseFilterbank(num_taps=2, num_branches=8),
                              requantizer=sv.ComplexQuantizer(num_bits=8), start_chan=0, num_chans=1, block_size=12,
                              blocks_per_file=2, num_subblocks=1)
    d32 = np.float32(0.336)                       # 6.9999999 blocks of 0.048 s
    assert float(d32) < 7 * 0.048
    assert be.get_num_blocks(d32) == be.get_num_blocks(float(d32)) == 6
    assert sv.get_total_obs_num_samples(obs_length=d32, length_mode='obs_length', num_antennas=1, sample_rate=1e3, block_size=12,
                                        num_bits=8, num_pols=1, num_branches=8, num_chans=1) == 6 * 6 * 8


def test_d67_get_level_with_numpy_fft_length():
    from setigen.voltage import level_utils
    a = _antenna(rate=1e3, npol=1)
    be = sv.RawVoltageBackend(a, digitizer=sv.RealQuantizer(), filterbank=sv.PolyphaseFilterbank(num_taps=2, num_branches=48),
                              requantizer=sv.ComplexQuantizer(num_bits=8), start_chan=0, num_chans=1, block_size=2000,
                              blocks_per_file=2, num_subblocks=1)
    lv = level_utils.get_level(10.0, be, 1000, num_blocks=4, length_mode='num_blocks')
    assert level_utils.get_level(10.0, be, np.int16(1000), num_blocks=4, length_mode='num_blocks') == lv


def test_d68_unparseable_directio_card(tmp_path):
    stem = str(tmp_path / 'u')
    _backend(_antenna()).record(stem, num_blocks=3, length_mode='num_blocks', header_dict={'DIRECTIO': 'abc', 'K1': 1}, load_template=False,
                                verbose=False)
    assert [len(guppi.parse_file(fn)) for fn in guppi.list_files(stem)] == [2, 1]
    assert raw_utils.get_total_blocks(stem) == 3


def test_d69_caller_identity_cards_on_input_raw(tmp_path):
    stem = str(tmp_path / 'in')
    _backend(_antenna()).record(stem, num_blocks=2, length_mode='num_blocks',
                                header_dict={'TELESCOP': 'GBT', 'OBSERVER': 'ME', 'SRC_NAME': 'VOYAGER'}, load_template=False, verbose=False)
    be = sv.RawVoltageBackend.from_data(input_file_stem=stem, antenna_source=_antenna(), digitizer=sv.RealQuantizer(),
                                        filterbank=sv.PolyphaseFilterbank(num_taps=2, num_branches=4), start_chan=0, num_subblocks=1)
    out = str(tmp_path / 'out')
    be.record(out, header_dict={'TELESCOP': 'MINE', 'SRC_NAME': 'MYSRC'}, load_template=False, verbose=False)
    h = dict(guppi.parse_file(out + '.0000.raw')[0]['header'])
    assert str(h['TELESCOP']).strip().strip("'").strip() == 'MINE'
    assert str(h['SRC_NAME']).strip().strip("'").strip() == 'MYSRC'
    assert 'ME_SETIGEN' in str(h['OBSERVER'])          # not supplied by the caller: relabelled from the input as before


def test_d70_dedrift_with_numpy_integer_rate():
    fr = stg.Frame(fchans=16, tchans=4, df=64.0, dt=1.0, fch1=1e6, ascending=True)
    fr.data[:] = np.arange(64.0).reshape(4, 16)
    a, b = stg.dedrift(fr, np.uint8(128)), stg.dedrift(fr, 128.0)
    assert a.data.shape == b.data.shape and np.array_equal(a.data, b.data)
    assert b.data.shape[1] < 16


def test_d71_get_index_container_forms_on_both_orientations():
    a = stg.Frame(fchans=8, tchans=2, df=2.0, dt=1.0, fch1=1000.0, ascending=True)
    d = stg.Frame(fchans=8, tchans=2, df=2.0, dt=1.0, fch1=1014.0, ascending=False)
    fs = [1000.0, 1006.0, 1014.0]
    assert list(a.get_index(fs)) == list(d.get_index(fs)) == [0, 3, 7]
    assert list(a.get_index(tuple(fs))) == [0, 3, 7]


def test_d72_scale_factor_in_double_precision():
    from setigen.voltage import quantization as Q
    rng = np.random.default_rng(4)
    x = rng.normal(0.25, 1.5, 4000)
    ref = Q.quantize_real(x, target_mean=0, target_std=13.6, num_bits=8, data_mean=0.25, data_std=1.5)
    got = Q.quantize_real(x, target_mean=0, target_std=13.6, num_bits=8, data_mean=np.float16(0.25), data_std=np.float16(1.5))
    assert np.array_equal(got, ref)


def test_d73_path_function_returning_unsigned_integers():
    def run(cast):
        fr = stg.Frame(fchans=64, tchans=8, df=1.0, dt=1.0, fch1=100.0, ascending=True)
        path = lambda t: cast(150 - 3 * np.round(np.asarray(t, dtype=float)))
        return fr.add_signal(path, 1.0, stg.box_f_profile(width=2.0), stg.constant_bp_profile(level=1), doppler_smearing=True,
                             smearing_subsamples=4)
    assert np.allclose(run(lambda v: v.astype(np.uint64)), run(lambda v: v.astype(float)))


def test_d74_background_streams_do_not_share_a_default_member_list():
    s = sv.DataStream(sample_rate=48e3, seed=1)
    s.add_noise(0, 3.0)
    bg_a = sv.BackgroundDataStream(sample_rate=48e3, seed=2)
    bg_a.antenna_streams.append(s)
    bg_a.add_noise(0, 4.0)
    bg_b = sv.BackgroundDataStream(sample_rate=48e3, seed=3)
    assert bg_b.antenna_streams == []
    bg_b.add_noise(0, 12.0)
    assert s.get_total_noise_std() == pytest.approx(5.0)


def test_d75_frame_from_8bit_file_saves_floats(tmp_path):
    from mc.refs import sigproc as S
    fn = str(tmp_path / 'a8.fil')
    hdr = S.default_header(16, 1000.0, 1e-6, 1.0, source_name='S8', nbits=8)
    S.write_fil(fn, hdr, (np.arange(64) % 90).reshape(4, 16))
    fr = stg.Frame(waterfall=fn)
    fr.data = np.array(fr.data, dtype=float) + 0.25
    out = str(tmp_path / 'b.fil')
    fr.save_fil(out)
    h2, pay, _ = S.read_fil(out)
    assert h2['nbits'] == 32
    assert np.allclose(np.sort(np.asarray(pay).ravel()), np.sort(fr.data.ravel()))


def test_d76_saved_frame_carries_its_own_source_name(tmp_path):
    donor = stg.Frame(fchans=16, tchans=4, df=2.0, dt=1.0, fch1=1e9, source_name='DONOR')
    fr = stg.Frame.from_data(2.0, 1.0, 1e9, False, np.ones((4, 16)), waterfall=donor.get_waterfall(), source_name='MINE')
    fn = str(tmp_path / 'c.fil')
    fr.save_fil(fn)
    assert stg.Frame(waterfall=fn).source_name == 'MINE'


def test_d77_frame_from_time_selected_waterfall(tmp_path):
    from blimpy import Waterfall
    fr = stg.Frame(fchans=16, tchans=8, df=2.0, dt=1.5, fch1=1e9, t_start=1.6e9)
    fn = str(tmp_path / 't.fil')
    fr.save_fil(fn)
    first = stg.Frame(waterfall=Waterfall(fn, t_start=0, t_stop=4))
    second = stg.Frame(waterfall=Waterfall(fn, t_start=4, t_stop=8))
    assert second.t_start - first.t_start == pytest.approx(4 * 1.5, abs=1e-3)


def test_d78_float_directio_card(tmp_path):
    stem = str(tmp_path / 'f')
    _backend(_antenna()).record(stem, num_blocks=3, length_mode='num_blocks', header_dict={'DIRECTIO': 1.0, 'K1': 1}, load_template=False,
                                verbose=False)
    assert raw_utils.get_total_blocks(stem) == 3
    assert [len(guppi.parse_file(fn)) for fn in guppi.list_files(stem)] == [2, 1]
