"""
Plain replays (no explorer) of the voltage-side defects found by C04/C07/C10/C12/C14/C15/C20 and fixed in /repo.
Run:  PYTHONPATH=/repo:/verif /venv/bin/python -m pytest /verif/tests/test_voltage_fixes.py -q
Each test fails on the pinned tree (b965850) and passes on the repaired tree.
"""
import os, itertools, logging
import numpy as np
import pytest

logging.disable(logging.CRITICAL)
import setigen as stg
import setigen.voltage as sv
from setigen.voltage import raw_utils, waterfall as svw
from mc.refs import guppi
from mc import engine

engine._silence()


def _backend(nants=1, npol=2, P=4, M=2, nc=2, T=4, bpf=2, bits=8, rate=1024.0):
    if nants == 1:
        src = sv.Antenna(sample_rate=rate, num_pols=npol, seed=1)
        streams = src.streams
    else:
        src = sv.MultiAntennaArray(num_antennas=nants, sample_rate=1024.0, num_pols=npol, delays=[0] * nants, seed=1)
        streams = [s for a in src.antennas for s in a.streams]
    for s in streams:
        s.add_noise(0, 1)
    bs = T * nants * nc * (2 * npol * bits // 8)
    return sv.RawVoltageBackend(src, digitizer=sv.RealQuantizer(), filterbank=sv.PolyphaseFilterbank(num_taps=M, num_branches=P),
                                requantizer=sv.ComplexQuantizer(num_bits=bits), start_chan=0, num_chans=nc, block_size=bs,
                                blocks_per_file=bpf, num_subblocks=1)


def test_d07_aligned_directio_header(tmp_path):
    # find the number of user cards that makes (cards + END) a multiple of 32
    for n in range(0, 40):
        stem = str(tmp_path / ('a%d' % n))
        hd = {'DIRECTIO': 1}
        hd.update({'K%d' % j: j for j in range(n)})
        _backend().record(stem, num_blocks=2, length_mode='num_blocks', header_dict=hd, load_template=False, verbose=False)
        blocks = guppi.parse_file(stem + '.0000.raw')      # raises GuppiFormatError on mis-framing
        assert len(blocks) == 2
        assert all(b['pad'] == (-80 * b['n_cards']) % 512 for b in blocks)


def test_d08_blocks_in_file_without_directio(tmp_path):
    stem = str(tmp_path / 'b')
    _backend(bpf=12).record(stem, num_blocks=12, length_mode='num_blocks', header_dict={'DIRECTIO': 0}, load_template=False, verbose=False)
    assert len(guppi.parse_file(stem + '.0000.raw')) == 12
    assert raw_utils.get_blocks_in_file(stem + '.0000.raw') == 12


def test_d09_total_blocks_any_listing_order(tmp_path, monkeypatch):
    stem = str(tmp_path / 'c')
    _backend(bpf=2).record(stem, num_blocks=3, length_mode='num_blocks', header_dict={}, load_template=False, verbose=False)
    files = guppi.list_files(stem)
    for perm in itertools.permutations(files):
        class G:
            @staticmethod
            def glob(pattern):
                return list(perm)
        monkeypatch.setattr(raw_utils, 'glob', G)
        assert raw_utils.get_total_blocks(stem) == 3


def test_d10_d11_quicklook_reducer(tmp_path):
    stem = str(tmp_path / 'd')
    be = _backend(T=16)
    be.record(stem, num_blocks=1, length_mode='num_blocks', header_dict={'DIRECTIO': 0}, load_template=False, verbose=False)
    blk = guppi.parse_file(stem + '.0000.raw')[0]
    dec = guppi.decode_payload(blk['payload'], 1, 2, 2, 8)[0]
    N, I = 4, 2
    pw = 0
    for p in range(2):
        x = dec[:, :, p]
        X = np.fft.fftshift(np.fft.fft(x.reshape(2, 16 // N, N), axis=2), axes=2) / np.sqrt(N)
        pw = pw + np.abs(X) ** 2
    pw = np.concatenate(list(pw), axis=1)
    want = pw.reshape(pw.shape[0] // I, I, -1).sum(axis=1)
    got = svw.get_waterfall_from_raw(stem + '.0000.raw', be.block_size, 2, int_factor=I, fftlength=N)
    assert got.shape == want.shape and np.allclose(got, want)


def test_d13_two_noise_sources_chunk_invariant():
    def mk():
        s = sv.DataStream(sample_rate=1e3, seed=5)
        s.add_noise(0, 1); s.add_noise(1, 3)
        return s
    whole = np.array(mk().get_samples(8))
    s = mk()
    parts = np.concatenate([np.array(s.get_samples(1)) for _ in range(8)])
    assert np.array_equal(whole, parts)


def test_d14_record_does_not_mutate_header_dicts(tmp_path):
    d = {'MYKEY': 1}
    for k in range(2):
        stem = str(tmp_path / ('e%d' % k))
        _backend().record(stem, num_blocks=3, length_mode='num_blocks', header_dict=d, load_template=False, verbose=False)
        assert guppi.parse_file(stem + '.0000.raw')[0]['header']['PKTIDX'] == 0
    assert d == {'MYKEY': 1}
    for k in range(2):
        stem = str(tmp_path / ('f%d' % k))
        _backend().record(stem, num_blocks=3, length_mode='num_blocks', load_template=False, verbose=False)
        assert guppi.parse_file(stem + '.0000.raw')[0]['header']['PKTIDX'] == 0


def test_d17_channelized_stds_not_rescaled(tmp_path):
    from mc.checks import c14
    c = dict(bits=8, npol=2, nants=1, directio=1, aligned=False, layout=[3, 2], content='tone', digitize=True, T=8,
             nchans=4, start_chan=0, recordings=1, seed=0)
    stem_in = str(tmp_path / 'in')
    c14.write_input(c, stem_in, 5)
    ant = sv.Antenna(sample_rate=1024.0, num_pols=2, seed=8)
    ant.x.add_constant_signal(f_start=200.0, drift_rate=0.0, level=0.5)
    fb = sv.PolyphaseFilterbank(num_taps=2, num_branches=8)
    fb.estimate_channelized_stds(factor=100, seed=12)
    fb2 = sv.PolyphaseFilterbank(num_taps=2, num_branches=8)
    fb2.estimate_channelized_stds(factor=100, seed=13)
    before = np.array(fb.channelized_stds, copy=True)
    be = sv.RawVoltageBackend.from_data(stem_in, ant, digitizer=sv.RealQuantizer(), filterbank=[[fb, fb2]], start_chan=0, num_subblocks=4)
    be.record(str(tmp_path / 'out'), verbose=False, load_template=False)
    assert np.array_equal(fb.channelized_stds, before)


def test_d18_default_delays():
    arr = sv.MultiAntennaArray(num_antennas=2, sample_rate=1e3, num_pols=1, seed=3)
    arr.bg_x.add_noise(0, 1)
    out = np.array(arr.get_samples(4))
    assert out.shape == (2, 1, 4) and np.array_equal(out[0], out[1])      # zero delay: both see the same background


def test_d28_total_obs_num_samples(tmp_path):
    be = _backend(P=8, M=2, nc=4, T=6, rate=3e9)
    be.record(str(tmp_path / 'g'), num_blocks=1, length_mode='num_blocks', header_dict={}, load_template=False, verbose=False)
    assert be.total_obs_num_samples == 1 * 6 * 8


def test_d29_user_nants_card(tmp_path):
    stem = str(tmp_path / 'h')
    _backend().record(stem, num_blocks=1, length_mode='num_blocks', header_dict={'NANTS': 9}, load_template=False, verbose=False)
    h = guppi.parse_file(stem + '.0000.raw')[0]['header']
    assert h.get('NANTS', 1) == 1
    assert raw_utils.get_raw_params(stem)['num_chans'] == 2


def test_d30_copy_of_h5_loaded_frame(tmp_path):
    fr = stg.Frame(fchans=8, tchans=4, seed=1, t_start=0.0)
    fr.add_noise(3.0)
    fn = str(tmp_path / 'x.h5')
    fr.save_h5(fn)
    ld = stg.Frame(waterfall=fn)
    cp = ld.copy()
    assert np.array_equal(cp.data, ld.data) and np.array_equal(cp.fs, ld.fs)


def test_d32_pfb_cache_is_not_a_view_of_the_callers_buffer():
    M, P = 2, 8
    rng = np.random.default_rng(5)
    chunks = [rng.normal(size=4 * P) for _ in range(3)]
    one = sv.PolyphaseFilterbank(num_taps=M, num_branches=P)
    want = np.asarray(one.channelize(np.concatenate(chunks)))
    fb = sv.PolyphaseFilterbank(num_taps=M, num_branches=P)
    buf = np.empty(4 * P)
    outs = []
    for ch in chunks:
        buf[:] = ch                      # the caller refills ONE buffer, as a streaming reader does
        outs.append(np.array(fb.channelize(buf)))
    assert np.allclose(np.concatenate(outs), want, rtol=1e-12, atol=1e-12)


def test_d33_constant_samples_have_zero_deviation():
    from setigen.voltage import data_stream
    m, s = data_stream.estimate_stats(np.full(3, 0.1), stats_calc_num_samples=3)
    assert s == 0 and m == 0.1
    q = sv.RealQuantizer(target_fwhm=32, num_bits=8)
    assert np.all(np.asarray(q.quantize(np.full(3, 0.1))) == 0)      # target mean, not -/+ target deviation


def test_d34_numpy_fixed_width_integer_arguments():
    i32 = np.int32
    bs = sv.get_block_size(num_antennas=i32(1), tchans_per_block=i32(16), num_bits=i32(8), num_pols=i32(2), num_branches=i32(1024),
                           num_chans=i32(64), fftlength=i32(1048576), int_factor=i32(1))
    assert int(bs) == 16 * 1048576 * 64 * 4
    u8 = np.uint8
    ant = sv.Antenna(sample_rate=1024.0, num_pols=1, seed=1)
    be = sv.RawVoltageBackend(ant, digitizer=sv.RealQuantizer(), filterbank=sv.PolyphaseFilterbank(num_taps=2, num_branches=8),
                              requantizer=sv.ComplexQuantizer(), start_chan=u8(0), num_chans=u8(2), block_size=u8(96),
                              blocks_per_file=u8(100), num_subblocks=u8(1))
    be._make_header = lambda f, h: None
    be.collect_data_block = lambda **kw: np.zeros((0,))
    be.record(output_file_stem=os.path.join(engine.workdir(), 'd34'), num_blocks=u8(6), length_mode='num_blocks', header_dict={},
              load_template=False, verbose=False)
    assert be.samples_per_block == 24 and int(be.total_obs_num_samples) == 6 * 24 * 8
    g = sv.get_total_obs_num_samples(num_blocks=u8(6), length_mode='num_blocks', num_antennas=u8(1), sample_rate=1024.0,
                                     block_size=u8(96), num_bits=u8(8), num_pols=u8(1), num_branches=u8(8), num_chans=u8(2))
    assert int(g) == 6 * 24 * 8


@pytest.mark.parametrize('ty', [np.uint8, np.int8, np.int16])
def test_d35_num_bits_as_numpy_fixed_width_integer(ty):
    x = np.random.default_rng(3).normal(size=500) * 3
    want = np.asarray(sv.RealQuantizer(target_fwhm=32, num_bits=8).quantize(x))
    got = np.asarray(sv.RealQuantizer(target_fwhm=32, num_bits=ty(8)).quantize(x))
    assert np.array_equal(got, want)


def test_d36_array_request_size_as_numpy_fixed_width_integer():
    mk = lambda: sv.MultiAntennaArray(num_antennas=2, sample_rate=1024.0, num_pols=1, delays=[0, 100], seed=1)
    a, b = mk(), mk()
    for z in (a, b):
        z.bg_x.add_noise(0, 1)
    assert np.array_equal(np.asarray(a.get_samples(np.uint8(200))), np.asarray(b.get_samples(200)))


@pytest.mark.parametrize('ty', [np.uint8, np.uint16, np.int8])
def test_d37_pfb_settings_as_numpy_fixed_width_integers(ty):
    x = np.random.default_rng(4).normal(size=2 * 8 * 6)
    want = np.asarray(sv.PolyphaseFilterbank(num_taps=2, num_branches=8).channelize(x))
    fb = sv.PolyphaseFilterbank(num_taps=ty(2), num_branches=ty(8))
    got = np.concatenate([np.asarray(fb.channelize(x[k * 16:(k + 1) * 16])) for k in range(6)])
    assert got.shape == want.shape and np.allclose(got, want, rtol=1e-12, atol=1e-12)
