"""
Plain replay tests for C08 (polyphase filterbank = FIR+DFT definition, invariant to chunking).

Run against the tree under test:  PYTHONPATH=<repo>:/verif /venv/bin/python -m pytest -q /verif/tests/test_c08.py
test_complex_input_keeps_imaginary_part fails on the pinned tree (D12) and passes after the fix.
"""
import warnings
import numpy as np

from mc import engine
from mc.refs import pfb as R

warnings.simplefilter('ignore')


def _fb(M, P, win='hamming'):
    from setigen.voltage.polyphase_filterbank import PolyphaseFilterbank
    return PolyphaseFilterbank(num_taps=M, num_branches=P, window_fn=win)


def test_complex_input_keeps_imaginary_part():
    M, P = 2, 4
    x = np.arange(16.0) + 1j * np.arange(16.0)[::-1]
    got = _fb(M, P).channelize(x, cache=False)
    want = R.ref_pfb(x, R.design_window(M, P, 'hamming'), M, P)
    assert float(np.abs(got - want).max()) <= 1e-10 * 16
    split = _fb(M, P).channelize(x.real.copy(), cache=False) + 1j * _fb(M, P).channelize(x.imag.copy(), cache=False)
    assert float(np.abs(got - split).max()) <= 1e-10 * 16


def test_every_composition_of_five_windows_is_bit_identical_to_one_shot():
    M, P = 3, 8
    x = np.random.default_rng(0).standard_normal(5 * M * P)
    one = _fb(M, P).channelize(x, cache=True)
    assert one.shape == (4 * M, P // 2)
    assert float(np.abs(one - R.ref_pfb(x, R.design_window(M, P, 'hamming'), M, P)).max()) <= 1e-10 * np.abs(x).max()
    for comp in engine.compositions(5):
        fb, a, outs = _fb(M, P), 0, []
        for cj in comp:
            outs.append(fb.channelize(x[a * M * P:(a + cj) * M * P], cache=True))
            a += cj
        assert [o.shape[0] for o in outs] == R.chunk_rows(comp, M)
        assert np.array_equal(np.concatenate(outs), one)


def test_window_is_the_documented_design():
    for M, P, win in ((4, 8, 'hamming'), (8, 64, 'hann'), (3, 6, 'blackman')):
        w = _fb(M, P, win).window
        assert float(np.abs(w - R.design_window(M, P, win)).max()) <= 1e-13 * np.abs(w).max()
        assert float(np.abs(w - R.sinc_window(M, P, win)).max()) <= 1e-11 * np.abs(w).max()
