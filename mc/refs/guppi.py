"""
Independent GUPPI RAW reader / writer / sample codec, written from the format description
(80-byte ASCII cards `KEY     = value`, terminated by an `END` card; if DIRECTIO is non-zero the
header is zero-padded to the next multiple of 512 bytes -- none when already aligned; followed by
exactly BLOCSIZE payload bytes).  Payload layout: channel-major (antennas outermost: OBSNCHAN =
NANTS * channels), then time, then polarisation, then real/imag.  8-bit: one signed byte per
component.  4-bit: one byte per complex sample, real in the high nibble, imaginary in the low nibble,
both two's complement.

Nothing in here imports setigen.
"""
import os
import numpy as np


class GuppiFormatError(Exception):
    pass


def parse_value(raw):
    """Card value text -> (kind, python value).  kind in {'str','int','float'}."""
    s = raw.strip()
    if len(s) >= 2 and s[0] == "'" and s[-1] == "'":
        return 'str', s[1:-1].rstrip()
    if s.startswith("'"):
        return 'str', s.strip("'").rstrip()
    try:
        return 'int', int(s)
    except ValueError:
        pass
    try:
        return 'float', float(s)
    except ValueError:
        return 'str', s


def directio_flag(cards):
    for k, raw in cards:
        if k == 'DIRECTIO':
            kind, v = parse_value(raw)
            try:
                return int(str(v).strip() or 0) != 0
            except ValueError:
                return False
    return False


def parse_header(buf, off):
    """Parse one header starting at byte `off`.  Returns (cards, end_off_unpadded, n_cards_incl_END)."""
    cards = []
    pos = off
    n = 0
    while True:
        card = buf[pos:pos + 80]
        if len(card) < 80:
            raise GuppiFormatError('truncated header card at byte %d (got %d bytes)' % (pos, len(card)))
        try:
            text = card.decode('ascii')
        except UnicodeDecodeError:
            raise GuppiFormatError('non-ASCII header card at byte %d: %r' % (pos, card[:20]))
        pos += 80
        n += 1
        if text[:3] == 'END' and text[3:].strip() == '':
            break
        if text[8] != '=':
            raise GuppiFormatError('card without "=" in column 9 at byte %d: %r' % (pos - 80, text))
        cards.append((text[:8].strip(), text[9:]))
        if n > 4096:
            raise GuppiFormatError('no END card within 4096 cards')
    return cards, pos, n


def parse_file(path_or_bytes):
    """Walk a RAW file to EOF.  Returns list of blocks; raises GuppiFormatError on any framing problem.
    block = dict(cards=[(key, rawvalue)], header=dict key->python value, raw=dict key->stripped text,
                 hdr_off, hdr_len (incl. padding), n_cards (incl. END), pad, payload_off, blocsize, payload(bytes))"""
    if isinstance(path_or_bytes, (bytes, bytearray)):
        buf = bytes(path_or_bytes)
    else:
        with open(path_or_bytes, 'rb') as f:
            buf = f.read()
    blocks = []
    off = 0
    while off < len(buf):
        cards, end, n = parse_header(buf, off)
        hdr = {}
        raw = {}
        for k, v in cards:
            hdr[k] = parse_value(v)[1]
            raw[k] = v.strip()
        pad = 0
        if directio_flag(cards):
            pad = (-(end - off)) % 512
            if buf[end:end + pad] != bytes(pad):
                raise GuppiFormatError('DIRECTIO padding at byte %d is not %d zero bytes' % (end, pad))
        if 'BLOCSIZE' not in hdr:
            raise GuppiFormatError('no BLOCSIZE card in header at byte %d' % off)
        bs = int(hdr['BLOCSIZE'])
        p0 = end + pad
        payload = buf[p0:p0 + bs]
        if len(payload) != bs:
            raise GuppiFormatError('truncated payload at byte %d: %d of %d bytes' % (p0, len(payload), bs))
        blocks.append(dict(cards=cards, header=hdr, raw=raw, hdr_off=off, hdr_len=p0 - off, n_cards=n, pad=pad,
                           payload_off=p0, blocsize=bs, payload=payload))
        off = p0 + bs
    return blocks


def decode_payload(payload, nants, nchans, npols, nbits):
    """payload bytes -> complex128 array of shape (nants, nchans, ntime, npols)."""
    raw = np.frombuffer(payload, dtype=np.int8)
    obsnchan = nants * nchans
    if nbits == 8:
        per_t = 2 * npols
        if raw.size % (obsnchan * per_t):
            raise GuppiFormatError('payload size %d not a multiple of %d' % (raw.size, obsnchan * per_t))
        a = raw.reshape(nants, nchans, -1, npols, 2).astype(np.int64)
        return a[..., 0] + 1j * a[..., 1]
    elif nbits == 4:
        per_t = npols
        if raw.size % (obsnchan * per_t):
            raise GuppiFormatError('payload size %d not a multiple of %d' % (raw.size, obsnchan * per_t))
        b = raw.view(np.uint8).reshape(nants, nchans, -1, npols).astype(np.int64)
        hi = b >> 4
        lo = b & 15
        hi = np.where(hi >= 8, hi - 16, hi)
        lo = np.where(lo >= 8, lo - 16, lo)
        return hi + 1j * lo
    raise GuppiFormatError('unsupported NBITS %r' % nbits)


def encode_payload(v, nbits):
    """complex integer array (nants, nchans, ntime, npols) -> payload bytes."""
    v = np.asarray(v)
    re = np.real(v).astype(np.int64)
    im = np.imag(v).astype(np.int64)
    if nbits == 8:
        out = np.empty(v.shape + (2,), dtype=np.int8)
        out[..., 0] = re
        out[..., 1] = im
        return out.tobytes()
    elif nbits == 4:
        b = ((re & 15) << 4) | (im & 15)
        return b.astype(np.uint8).tobytes()
    raise GuppiFormatError('unsupported NBITS %r' % nbits)


def format_card(key, value):
    if isinstance(value, str):
        body = "'%-8s'" % value
        line = '%-8s= %-20s' % (key, body)
    elif isinstance(value, float):
        line = '%-8s= %20s' % (key, repr(value))
    else:
        line = '%-8s= %20s' % (key, value)
    if len(line) > 80:
        raise GuppiFormatError('card too long: %r' % line)
    return line.ljust(80)


def build_header(cards, directio=None):
    """cards: list of (key, value).  Returns header bytes incl. END and padding (when DIRECTIO != 0)."""
    out = ''.join(format_card(k, v) for k, v in cards) + 'END'.ljust(80)
    b = out.encode('ascii')
    if directio is None:
        d = dict(cards).get('DIRECTIO', 0)
        try:
            directio = int(str(d).strip()) != 0
        except ValueError:
            directio = False
    if directio:
        b += bytes((-len(b)) % 512)
    return b


def write_files(stem, headers_and_payloads, blocks_per_file):
    """headers_and_payloads: list of (cards, payload bytes).  Writes stem.NNNN.raw; returns filenames."""
    names = []
    for i in range(0, len(headers_and_payloads), blocks_per_file):
        fn = '%s.%04d.raw' % (stem, i // blocks_per_file)
        with open(fn, 'wb') as f:
            for cards, payload in headers_and_payloads[i:i + blocks_per_file]:
                f.write(build_header(cards))
                f.write(payload)
        names.append(fn)
    return names


def list_files(stem):
    d = os.path.dirname(stem) or '.'
    base = os.path.basename(stem)
    out = []
    for fn in os.listdir(d):
        if fn.startswith(base + '.') and fn.endswith('.raw') and len(fn) == len(base) + 9 and fn[len(base) + 1:len(base) + 5].isdigit():
            out.append(os.path.join(d, fn))
    return sorted(out)
