"""
Plain replay of the C17 defects (D22), runnable without the explorer:

    PYTHONPATH=<tree> /venv/bin/python -m pytest -q -p no:cacheprovider /verif/tests/test_c17.py

On the pinned tree every test fails (derived frames are stamped with the clock and 'Synthetic');
on branch fix-c17 they pass.
"""
import logging
import numpy as np
import pytest

logging.disable(logging.CRITICAL)
import setigen as stg
import setigen.frame as sf

T0 = 1600000000.25
NAME = 'C17-SRC'


class _Clock(object):
    def __init__(self):
        self.k = 0

    def time(self):
        self.k += 1
        return -1.0e9 - self.k


@pytest.fixture(autouse=True)
def owned_clock():
    old = sf.time
    sf.time = _Clock()
    yield
    sf.time = old


def _parent(ascending):
    data = 16.0 + np.arange(4 * 9, dtype=float).reshape(4, 9)
    return stg.Frame(shape=(4, 9), df=2.0, dt=0.5, fch1=1e9, ascending=ascending, data=data,
                     t_start=T0, source_name=NAME)


@pytest.mark.parametrize('ascending', [True, False])
def test_slice_keeps_start_time_and_source(ascending):
    p = _parent(ascending)
    s = p.get_slice(2, 5)
    assert np.array_equal(s.data, p.data[:, 2:5]) and np.allclose(s.fs, p.fs[2:5], rtol=0, atol=1e-5)
    assert s.t_start == p.t_start
    assert s.source_name == p.source_name


@pytest.mark.parametrize('ascending', [True, False])
@pytest.mark.parametrize('q', [1.7, -1.7])
def test_dedrift_keeps_start_time_and_source(ascending, q):
    p = _parent(ascending)
    d = stg.dedrift(p, q * p.df / p.dt)
    assert d.t_start == p.t_start
    assert d.source_name == p.source_name


@pytest.mark.parametrize('ascending', [True, False])
def test_integrated_frames_keep_start_time_and_source(ascending):
    p = _parent(ascending)
    for out in (stg.spectrum(p), stg.timeseries(p), stg.integrate(p, axis='f', mode='sum', as_frame=True)):
        assert out.t_start == p.t_start
        assert out.source_name == p.source_name


def test_file_backed_parent(tmp_path):
    path = str(tmp_path / 'p.fil')
    _parent(False).save_fil(path)
    p = stg.Frame(path)
    for out in (p.get_slice(1, 4), stg.dedrift(p, 1.0 * p.df / p.dt), stg.spectrum(p)):
        assert out.t_start == p.t_start
        assert out.source_name == p.source_name
