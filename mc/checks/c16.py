"""
C16 -- Cadence injection is time-continuous and leaves frame time axes intact.

E-ENV (fault enumeration) over an E-PROD box.  One case = (geometry, start-time pattern, frame count,
tchans pattern, cadence view, injection sequence, flag combination, sub-sample counts).  For every case

  1. the cadence is built from real Frames, `t_overwrite` spacing and `slew_times` are checked;
  2. the injection sequence is run fault-free through the real `Cadence.add_signal` on the view (plain,
     sliced, index-picked or label-selected) with every user callable wrapped in a counting spy; every
     member frame is compared with a *twin* single frame injected with path'(t) = path(t + D_m),
     t_profile'(t) = t_profile(t + D_m), D_m = t_start_m - t_start_(first frame of the injected cadence
     object); for the linear-path/gaussian family additionally with an independent closed form in
     extended precision (all 16 flag combinations); every frame's `ts` must be bit-identical to before;
     `consolidate()` must be the in-order concatenation with absolute times;
  3. FAULTS: for every injection r, every callable slot (path, t_profile, f_profile, bp_profile) and every
     k in 1..(number of invocations counted in the fault-free run) the whole thing is rebuilt from
     fresh frames, injections 0..r-1 are run, injection r is run with that callable raising a private
     exception on its k-th invocation, and after the exception has propagated every frame's `ts` must
     be bit-identical to its value before.

Oracle rules: DESIGN.md section 3 (2: box edges masked through the twin's own evaluation points,
4: conditioning-scaled tolerance, 5: ts identity bit for bit, 8: nothing beyond the statement).
"""
import numpy as np

from mc import engine
from mc.refs.axes import F, ulp

PROPERTY = 'C16'
LEVEL = 'fault_enumeration'

LD = np.longdouble
K_T = 16      # ulps of the largest |time| allowed between the two ways of forming t + D
K_F = 8       # ulps of the largest frequency magnitude met while evaluating a path

GEOMS = {
    'toy': dict(df=1.0, dt=1.0, fch1=100.0, fchans=12),
    'bl': dict(df=2.7939677238464355, dt=18.253611008, fch1=6e9, fchans=12),
    'hi': dict(df=0.5, dt=0.25, fch1=1420.40575e6, fchans=12),
}
TCH = {'u3': (3, 3, 3, 3), 'mixed': (3, 2, 4, 1), 'u1': (1, 1, 1, 1), 'u2': (2, 2, 2, 2)}
PATTERNS = ['contig0', 'slew', 'gaps', 'epoch', 'epochgap', 'unsorted']
VIEWS = ['full', 'even', 'tail', 'rev', 'labelA', 'labelB', 'pick']
SLOTS = ['path', 't_profile', 'f_profile', 'bp_profile']
FLAGS16 = [dict(ip=a, it=b, jf=c, sm=d) for d in (0, 1) for c in (0, 1) for b in (0, 1) for a in (0, 1)]
FLAGS4 = [FLAGS16[0], FLAGS16[3], FLAGS16[8], FLAGS16[15]]

PATHS = ['lin+', 'lin-', 'fast', 'sine', 'sq', 'lam', 'rfi', 'float', 'array']
TPROFS = ['const', 'sine', 'lam', 'float', 'array']
FPROFS = ['gauss', 'box', 'sinc2']
BPS = ['none', 'const', 'lam', 'array']

CORE = [dict(path='lin+', tprof='const', fprof='gauss', bp='none'),
        dict(path='sine', tprof='sine', fprof='gauss', bp='const'),
        dict(path='fast', tprof='lam', fprof='box', bp='lam'),
        dict(path='lin-', tprof='sine', fprof='sinc2', bp='const')]


class Boom(Exception):
    """Private exception raised by a faulty user callable."""


class Abort(BaseException):
    """An interruption that is not an Exception (what a KeyboardInterrupt / SystemExit inside a user callback looks like)."""


class Spy(object):
    """Counting wrapper around a user callable; raises Boom (or `exc`) on its `raise_at`-th invocation."""

    def __init__(self, fn, raise_at=None, exc=None):
        self.fn = fn
        self.n = 0
        self.raise_at = raise_at
        self.exc = exc or Boom

    def __call__(self, *a):
        self.n += 1
        if self.raise_at is not None and self.n == self.raise_at:
            raise self.exc('fault at invocation %d' % self.n)
        return self.fn(*a)


# ------------------------------------------------------------------ building real cadences
def _mk_frames(c):
    import setigen as stg
    G = GEOMS[c['geom']]
    M = c['M']
    tcs = TCH[c['tch']][:M]
    dt = G['dt']
    pat = c['pattern']
    over, slew = False, 0
    if pat == 'contig0':
        starts, over, slew = [0.0] * M, True, 0
    elif pat == 'slew':
        starts, over, slew = [1300.7] * M, True, 37.3
    elif pat == 'epoch':
        starts, over, slew = [1.6e9 + 0.123] * M, True, np.float32(10.0)     # the slew time as a single-precision scalar
    elif pat == 'gaps':
        gaps = [311.25, 47.1, 1300.7]
        starts = [59000.5]
        for m in range(1, M):
            starts.append(starts[-1] + tcs[m - 1] * dt + gaps[m - 1])
    elif pat == 'epochgap':
        starts = [0.0, 1.6e9, 1.6e9 + 400.3, 3.2e9][:M]
    elif pat == 'unsorted':
        starts = [500.0, 100.3, 800.9, 100.3][:M]
    else:
        raise ValueError(pat)
    rng = np.random.default_rng([int(c['seed']), 16])
    frames = []
    init = []
    for m in range(M):
        fr = stg.Frame(fchans=G['fchans'], tchans=tcs[m], df=G['df'], dt=dt, fch1=G['fch1'],
                       ascending=c['asc'], t_start=starts[m])
        d0 = rng.chisquare(4, size=(tcs[m], G['fchans'])) * 2.5
        fr.data = d0.copy()
        frames.append(fr)
        init.append(d0)
    return frames, init, starts, over, slew


def _mk_cadence(c):
    """Fresh frames -> parent cadence -> the cadence object ("view") that will be injected."""
    import setigen as stg
    frames, init, starts, over, slew = _mk_frames(c)
    view = c['view']
    if view == 'labelA':
        parent = stg.OrderedCadence(frames, order='ABACAD', t_slew=slew, t_overwrite=over)
    elif view == 'labelB':
        parent = stg.OrderedCadence(frames, order='AABB', t_slew=slew, t_overwrite=over)
    else:
        parent = stg.Cadence(frames, t_slew=slew, t_overwrite=over)
    M = len(frames)
    if view == 'full':
        v = parent
    elif view == 'even':
        v = parent[::2]
    elif view == 'tail':
        v = parent[1:]
    elif view == 'rev':
        v = parent[::-1]
    elif view == 'pick':
        v = parent[list(range(M - 1, -1, -2))]
    elif view == 'labelA':
        v = parent.by_label('A')
    elif view == 'labelB':
        v = parent.by_label('B')
    else:
        raise ValueError(view)
    members = []
    for f in v.frames:
        members.append([i for i, g in enumerate(frames) if g is f][0])
    return dict(frames=frames, init=init, starts=starts, over=over, slew=slew, parent=parent, view=v,
                members=members)


# ------------------------------------------------------------------ signals
def _window(c, t_starts, members):
    """Time window of the injected cadence object in its own reference time (first member at 0)."""
    G = GEOMS[c['geom']]
    tcs = TCH[c['tch']]
    dt = G['dt']
    t0 = t_starts[members[0]]
    Ds = [t_starts[m] - t0 for m in members]
    lo = min(Ds)
    hi = max(D + tcs[m] * dt for D, m in zip(Ds, members))
    mlast = max(range(len(members)), key=lambda q: Ds[q])
    tabs = max(abs(D) + (tcs[m] + 1) * dt for D, m in zip(Ds, members))
    uni = set(tcs[m] for m in members)
    return dict(Ds=Ds, lo=lo, hi=hi, span=hi - lo, mid=0.5 * (lo + hi), tabs=tabs,
                anchor_last=Ds[mlast] + 0.5 * tcs[members[mlast]] * dt,
                tchans=(list(uni)[0] if len(uni) == 1 else None))


def _fgrid(c):
    G = GEOMS[c['geom']]
    n, df = G['fchans'], G['df']
    fmin = G['fch1'] if c['asc'] else G['fch1'] - (n - 1) * df
    return fmin, fmin + (n - 1) * df, fmin + (n // 2) * df + 0.3 * df


def _build(spec, c, W, salt):
    """Fresh callables / values for one injection + the conditioning metadata of the signal."""
    import setigen as stg
    G = GEOMS[c['geom']]
    df, dt, n = G['df'], G['dt'], G['fchans']
    fmin, fmax, fc = _fgrid(c)
    span, mid = W['span'], W['mid']
    tmax = max(abs(W['lo']), abs(W['hi']))
    meta = {}
    p = spec['path']
    if p in ('lin+', 'lin-'):
        drift = (0.5 if p == 'lin+' else -0.5) * n * df / span
        f0 = fc - drift * mid
        path = stg.constant_path(f_start=f0, drift_rate=drift)
        Lp, fmag = abs(drift), abs(f0) + abs(drift) * tmax
        meta['lin'] = (f0, drift)
    elif p == 'fast':
        drift = 0.7 * df / dt
        f0 = fc - drift * W['anchor_last']
        path = stg.constant_path(f_start=f0, drift_rate=drift)
        Lp, fmag = abs(drift), abs(f0) + abs(drift) * tmax
        meta['lin'] = (f0, drift)
    elif p == 'sine':
        drift = 0.2 * n * df / span
        f0 = fc - drift * mid
        per, amp = span / 1.7, 2 * df
        path = stg.sine_path(f_start=f0, drift_rate=drift, period=per, amplitude=amp)
        Lp, fmag = abs(drift) + amp * 2 * np.pi / per, abs(f0) + abs(drift) * tmax + amp
    elif p == 'sq':
        f0 = fc - 3 * df
        drift = 12 * df / max(tmax, dt) ** 2
        path = stg.squared_path(f_start=f0, drift_rate=drift)
        Lp, fmag = drift * tmax, abs(f0) + 6 * df
    elif p == 'lam':
        w = span / 4
        path = (lambda t, fc=fc, df=df, mid=mid, w=w: fc + 3 * df * np.tanh((t - mid) / w))
        Lp, fmag = 3 * df / w, abs(fc) + 3 * df
    elif p == 'rfi':
        drift = 0.4 * n * df / span
        f0 = fc - drift * mid
        path = stg.simple_rfi_path(f_start=f0, drift_rate=drift, spread=2 * df, spread_type='uniform',
                                   rfi_type='stationary', seed=[int(c['seed']), 7, salt])
        Lp, fmag = abs(drift), abs(f0) + abs(drift) * tmax + df
    elif p == 'float':
        path = float(fc)
        Lp, fmag = 0.0, abs(fc)
    elif p == 'array':
        path = fc + 0.5 * df * np.arange(W['tchans'])
        Lp, fmag = 0.0, abs(fc) + df * W['tchans']
    else:
        raise ValueError(p)
    tp = spec['tprof']
    T0 = 3 * dt
    if tp == 'const':
        tprof, A, Lt = stg.constant_t_profile(level=2.0), 2.0, 0.0
    elif tp == 'sine':
        per = 2.3 * T0
        tprof = stg.sine_t_profile(period=per, phase=0.37 * T0, amplitude=0.5, level=1.5)
        A, Lt = 2.0, 0.5 * 2 * np.pi / per
    elif tp == 'lam':
        lo = W['lo']
        tprof = (lambda t, lo=lo, span=span: 1.0 + 0.5 * np.cos(2 * np.pi * 3 * (t - lo) / span))
        A, Lt = 1.5, 0.5 * 2 * np.pi * 3 / span
    elif tp == 'float':
        tprof, A, Lt = 1.5, 1.5, 0.0
    elif tp == 'array':
        tprof, A, Lt = 1.0 + 0.25 * np.arange(W['tchans']), 1.0 + 0.25 * W['tchans'], 0.0
    else:
        raise ValueError(tp)
    fp = spec['fprof']
    edge = None
    if fp == 'gauss':
        width = 2.5 * df
        fprof = stg.gaussian_f_profile(width=width)
        sigma = width / (2 * np.sqrt(2 * np.log(2)))
        Lf = 0.61 / sigma
        meta['sigma'] = sigma
    elif fp == 'box':
        width = 3 * df
        fprof = stg.box_f_profile(width=width)
        Lf, edge = 0.0, width / 2
    elif fp == 'sinc2':
        width = 2 * df
        fprof = stg.sinc2_f_profile(width=width)          # crossing, truncated at the first zero (continuous)
        Lf = 2.0 / (width / 2)
    else:
        raise ValueError(fp)
    b = spec['bp']
    if b == 'none':
        bp, B = None, 1.0
    elif b == 'const':
        bp, B = stg.constant_bp_profile(level=0.8), 0.8
    elif b == 'lam':
        bp = (lambda f, fmin=fmin, w=n * df: 1.0 + 0.1 * (f - fmin) / w)
        B = 1.1
    elif b == 'array':
        bp, B = np.linspace(0.5, 1.0, n), 1.0
    else:
        raise ValueError(b)
    meta.update(A=A * B, Lt=Lt * B, Lp=Lp, Lf=Lf, fmag=max(fmag, abs(fmin), abs(fmax)), edge=edge,
                level=(A if tp == 'const' else None), bpl=(B if b in ('none', 'const') else None))
    return dict(path=path, t_profile=tprof, f_profile=fprof, bp_profile=bp, meta=meta)


def _kwargs(c):
    fl = c['flags']
    ts, fs, ss = c['subs']
    return dict(integrate_path=bool(fl['ip']), integrate_t_profile=bool(fl['it']),
                integrate_f_profile=bool(fl['jf']), doppler_smearing=bool(fl['sm']),
                t_subsamples=ts, f_subsamples=fs, smearing_subsamples=ss)


def _tolerance(meta, tabs):
    d_t = K_T * ulp(tabs)
    d_f = meta['Lp'] * d_t + K_F * ulp(meta['fmag'])
    return 4.0 * (meta['A'] * meta['Lf'] * d_f + 1.1 * meta['Lt'] * d_t) + 1e-9 * meta['A'], d_f


def _shift(fn, D):
    if callable(fn):
        return lambda t, fn=fn, D=D: fn(t + D)
    return fn


def _closed_form(c, meta, fs, tch, D_exact):
    """Independent reference for constant_path x constant level x gaussian x constant bandpass (all flags)."""
    G = GEOMS[c['geom']]
    dt, df = LD(G['dt']), LD(G['df'])
    fl = c['flags']
    nt, nf, ns = c['subs']
    f0, drift = LD(meta['lin'][0]), LD(meta['lin'][1])
    sig = LD(meta['sigma'])
    rows = tch + (1 if fl['sm'] else 0)
    tt = LD(D_exact.numerator) / LD(D_exact.denominator) + np.arange(rows).astype(LD) * dt
    if fl['ip']:
        p = np.zeros(rows, dtype=LD)
        for s in range(nt):
            p += f0 + drift * (tt + LD(s) * dt / LD(nt))
        p /= LD(nt)
    else:
        p = f0 + drift * tt
    ff = np.asarray(fs).astype(LD)
    out = np.zeros((tch, len(ff)), dtype=LD)
    fsub = [LD(s) * df / LD(nf) for s in range(nf)] if fl['jf'] else [LD(0)]
    copies = range(ns) if fl['sm'] else [0]
    for cidx in copies:
        if fl['sm']:
            cen = p[:-1] + LD(cidx) * (p[1:] - p[:-1]) / LD(ns)
        else:
            cen = p[:tch]
        for o in fsub:
            x = (ff[None, :] + o) - cen[:, None]
            out += np.exp(-(x * x) / (2 * sig * sig))
    out /= LD(len(fsub) * len(list(copies)))
    return (LD(meta['level']) * LD(meta['bpl']) * out).astype(float)


# ------------------------------------------------------------------ the case function
def _ts_snapshot(frames):
    return [np.array(f.ts, copy=True) for f in frames]


def _same_ts(a, b):
    a = np.asarray(a)
    return a.shape == b.shape and a.dtype == b.dtype and np.array_equal(a, b)


def case_cadence(c):
    import setigen as stg
    viol = []
    outcomes = set()
    extra = {'fault_runs': 0, 'fault_runs_in_shifted_frame': 0, 'frames_compared': 0, 'closed_form_frames': 0,
             'ts_checks': 0, 'injections': 0, 'faults_swallowed': 0}
    amb = 0

    def V(site, failure, detail):
        viol.append({'site': site, 'failure': failure, 'detail': detail})

    G = GEOMS[c['geom']]
    dt = G['dt']
    tcs = TCH[c['tch']]
    kw = _kwargs(c)
    timeint = bool(c['flags']['ip'] or c['flags']['it'])
    mism = 'signal_mismatch_integrated' if timeint else 'signal_mismatch'

    # ---------------------------------------------------------------- 1. construction, overwrite, slew
    cad = _mk_cadence(c)
    frames, parent, view, members = cad['frames'], cad['parent'], cad['view'], cad['members']
    M = len(frames)
    ts0 = _ts_snapshot(frames)
    t_starts = [float(f.t_start) for f in frames]
    # the start times the frames were created with are the ones they have (zero included): every offset below is taken from them
    for m in range(M):
        if (m == 0 or not cad['over']) and t_starts[m] != float(cad['starts'][m]):
            V('Frame.__init__', 't_start_not_kept', 'frame %d was created with t_start=%r and reports t_start=%r'
              % (m, cad['starts'][m], frames[m].t_start))
    if cad['over']:
        slew = cad['slew']
        for m in range(1, M):
            want_same = float(frames[m - 1].t_stop) + float(slew)
            exact = F(t_starts[m - 1]) + tcs[m - 1] * F(dt) + F(slew)
            if t_starts[m] != want_same or abs(F(t_starts[m]) - exact) > 2 * F(ulp(float(exact))):
                V('Cadence.overwrite_times', 'start_spacing',
                  'frame %d: t_start=%r, previous t_stop + slew=%r (exact %r)' % (m, t_starts[m], want_same, float(exact)))
        st = np.asarray(parent.slew_times)
        if st.shape != (M - 1,):
            V('Cadence.slew_times', 'shape', 'slew_times has shape %s for %d frames' % (st.shape, M))
        else:
            for m in range(1, M):
                if abs(F(st[m - 1]) - F(slew)) > 2 * F(ulp(max(abs(t_starts[m]), abs(slew), dt))):
                    V('Cadence.slew_times', 'value', 'slew_times[%d]=%r, slew=%r' % (m - 1, st[m - 1], slew))
    outcomes.add('view/%s/%d-of-%d' % (c['view'], len(members), M))

    res = {'viol': viol}
    if not members:
        # empty cadence object: injection is a no-op on every frame
        W = None
        try:
            view.add_signal(100.0, 1.0, stg.gaussian_f_profile(width=2.0), **kw)
            outcomes.add('empty/ok')
        except Exception as e:     # the statement does not say what an empty cadence does; only the frames are checked
            outcomes.add('empty/%s' % type(e).__name__)
        for m in range(M):
            extra['ts_checks'] += 1
            if not _same_ts(frames[m].ts, ts0[m]):
                V('Cadence.add_signal', 'ts_not_restored', 'frame %d (not a member) ts changed' % m)
            if not np.array_equal(frames[m].data, cad['init'][m]):
                V('Cadence.add_signal', 'nonmember_data', 'frame %d (not a member) data changed' % m)
        res.update(outcomes=sorted(outcomes), extra=extra, n=1)
        return res

    W = _window(c, t_starts, members)
    Ds = W['Ds']
    t_first = t_starts[members[0]]

    # ---------------------------------------------------------------- 2. fault-free run + oracle
    twins = []
    for m in members:
        tw = stg.Frame(fchans=G['fchans'], tchans=tcs[m], df=G['df'], dt=dt, fch1=G['fch1'],
                       ascending=c['asc'], t_start=0.0)
        tw.data = cad['init'][m].copy()
        twins.append(tw)
    closed = [np.zeros((tcs[m], G['fchans'])) for m in members]
    closed_ok = True
    counts = []
    tol_acc = 0.0
    mask = [np.zeros((tcs[m], G['fchans']), dtype=bool) for m in members]
    offset_matters = False
    failed = False
    for r, spec in enumerate(c['inj']):
        sig = _build(spec, c, W, r)
        meta = sig['meta']
        spies = {}
        args = {}
        for s in SLOTS:
            if callable(sig[s]):
                spies[s] = Spy(sig[s])
                args[s] = spies[s]
            else:
                args[s] = sig[s]
        try:
            view.add_signal(args['path'], args['t_profile'], args['f_profile'], args['bp_profile'], **kw)
        except Exception as e:
            V('Cadence.add_signal', 'raised', 'fault-free injection %d raised %s: %s' % (r, type(e).__name__, e))
            failed = True
            break
        extra['injections'] += 1
        counts.append(dict((s, spies[s].n) for s in spies))
        # ts restored, bit for bit, on every frame of the parent (members or not)
        for m in range(M):
            extra['ts_checks'] += 1
            if not _same_ts(frames[m].ts, ts0[m]):
                d = np.asarray(frames[m].ts) - ts0[m] if np.shape(frames[m].ts) == ts0[m].shape else None
                V('Cadence.add_signal', 'ts_not_restored',
                  'after injection %d frame %d ts differs from its value before by %r (D=%r)'
                  % (r, m, None if d is None else float(np.abs(d).max()),
                     (t_starts[m] - t_first)))
        # twin oracle (fresh, identically seeded callables)
        tol, d_f = _tolerance(meta, W['tabs'])
        tol_acc += tol
        ref = _build(spec, c, W, r)
        ref0 = _build(spec, c, W, r)
        for q, m in enumerate(members):
            D = Ds[q]
            fprof = ref['f_profile']
            if meta['edge'] is not None:
                def fprof(ff, pp, _f=ref['f_profile'], _q=q, _e=meta['edge'], _d=d_f, _n=tcs[m]):
                    near = np.abs(np.abs(ff - pp) - _e) <= _d
                    if near.shape[1] != G['fchans']:
                        near = near.reshape(_n, G['fchans'], -1).any(axis=2)
                    mask[_q] |= near
                    return _f(ff, pp)
            twins[q].add_signal(_shift(ref['path'], D), _shift(ref['t_profile'], D), fprof, ref['bp_profile'], **kw)
            if r == 0 and not offset_matters and D != 0:
                # non-triviality probe: would ignoring the offset give a different signal?
                z = stg.Frame(fchans=G['fchans'], tchans=tcs[m], df=G['df'], dt=dt, fch1=G['fch1'],
                              ascending=c['asc'], t_start=0.0)
                s0 = z.add_signal(ref0['path'], ref0['t_profile'], ref0['f_profile'], ref0['bp_profile'], **kw)
                sD = twins[q].data - cad['init'][m]
                if float(np.abs(s0 - sD).max()) > 1e4 * tol + 1e-6 * meta['A']:
                    offset_matters = True
            if closed_ok and 'lin' in meta and 'sigma' in meta and meta['level'] is not None and meta['bpl'] is not None:
                closed[q] += _closed_form(c, meta, frames[m].fs, tcs[m], F(t_starts[m]) - F(t_first))
            else:
                closed_ok = False
        # compare accumulated data of every member with its twin
        for q, m in enumerate(members):
            extra['frames_compared'] += 1
            got = np.asarray(frames[m].data)
            want = twins[q].data
            if got.shape != want.shape:
                V('Cadence.add_signal', 'data_shape', 'frame %d data shape %s' % (m, got.shape)); continue
            t_here = tol_acc + 8 * ulp(float(np.abs(want).max()))
            bad = (np.abs(got - want) > t_here) & ~mask[q]
            amb_here = int(np.count_nonzero((np.abs(got - want) > t_here) & mask[q]))
            amb += amb_here
            if bad.any():
                j = np.unravel_index(int(np.argmax(np.abs(got - want) * bad)), got.shape)
                V('Cadence.add_signal', mism,
                  'injection %d, frame %d (D=%r): pixel %s is %r, shifted single-frame injection gives %r '
                  '(|diff| %.3g > tol %.3g; %d pixels differ)' % (r, m, Ds[q], tuple(int(x) for x in j), float(got[j]),
                                                                float(want[j]), abs(got[j] - want[j]), t_here, int(bad.sum())))
            if closed_ok:
                extra['closed_form_frames'] += 1
                delta = got - cad['init'][m]
                badc = np.abs(delta - closed[q]) > t_here
                if badc.any():
                    j = np.unravel_index(int(np.argmax(np.abs(delta - closed[q]))), got.shape)
                    V('Cadence.add_signal', mism + '_closed_form',
                      'injection %d, frame %d (D=%r): injected value at %s is %r, closed form %r (tol %.3g)'
                      % (r, m, Ds[q], tuple(int(x) for x in j), float(delta[j]), float(closed[q][j]), t_here))
        # frames that are not members of the injected cadence object are untouched
        for m in range(M):
            if m not in members and not np.array_equal(frames[m].data, cad['init'][m]):
                V('Cadence.add_signal', 'nonmember_data', 'frame %d is not in the injected cadence but its data changed' % m)
    outcomes.add('ff/%d-members/offset-matters-%d/closed-%d' % (len(members), offset_matters, closed_ok))

    # consolidation of the injected cadence object
    if not failed:
        try:
            cf = view.consolidate()
            want = np.concatenate([frames[m].data for m in members], axis=0)
            if np.shape(cf.data) != want.shape or not np.array_equal(cf.data, want):
                V('Cadence.consolidate', 'data_order', 'consolidated data is not the in-order row concatenation')
            k = 0
            cts = np.asarray(cf.ts)
            if cts.shape != (want.shape[0],):
                V('Cadence.consolidate', 'ts_shape', 'consolidated ts has shape %s' % (cts.shape,))
            else:
                for m in members:
                    for i in range(tcs[m]):
                        ex = F(frames[m].ts[i]) + F(t_starts[m])
                        if abs(F(cts[k]) - ex) > F(ulp(float(ex))):
                            V('Cadence.consolidate', 'ts_absolute',
                              'consolidated ts[%d]=%r, frame %d ts[%d]+t_start=%r' % (k, cts[k], m, i, float(ex)))
                            break
                        k += 1
        except Exception as e:
            V('Cadence.consolidate', 'raised', '%s: %s' % (type(e).__name__, e))

    # ---------------------------------------------------------------- 3. fault enumeration
    n_eval = 1
    if not failed:
        for r in range(len(c['inj'])):
            for s in SLOTS:
                total = counts[r].get(s, 0)
                per_frame = total // len(members) if len(members) else 0
                # every k with an ordinary exception; the first invocation in the first and in the second member and the very last
                # one also with an interruption that is not an Exception
                plan = [(k, Boom) for k in range(1, total + 1)] + [(k, Abort) for k in sorted(set([1, per_frame + 1, total])) if 1 <= k <= total]
                for k, exc_cls in plan:
                    n_eval += 1
                    extra['fault_runs'] += 1
                    cad2 = _mk_cadence(c)
                    fr2, view2 = cad2['frames'], cad2['view']
                    before = _ts_snapshot(fr2)
                    raised = None
                    for r2 in range(r + 1):
                        sig = _build(c['inj'][r2], c, W, r2)
                        a = dict((x, sig[x]) for x in SLOTS)
                        if r2 == r:
                            a[s] = Spy(sig[s], raise_at=k, exc=exc_cls)
                        try:
                            view2.add_signal(a['path'], a['t_profile'], a['f_profile'], a['bp_profile'], **kw)
                        except Boom:
                            raised = 'boom'
                        except Abort:
                            raised = 'abort'
                        except Exception as e:
                            raised = type(e).__name__
                    q_fault = (k - 1) // per_frame if per_frame else 0
                    m_fault = cad2['members'][min(q_fault, len(members) - 1)]
                    shifted = (cad2['frames'][m_fault].t_start != cad2['frames'][cad2['members'][0]].t_start)
                    if shifted:
                        extra['fault_runs_in_shifted_frame'] += 1
                    if raised is None:
                        extra['faults_swallowed'] += 1
                    done = sum(1 for m in cad2['members'] if not np.array_equal(fr2[m].data, cad2['init'][m]))
                    outcomes.add('fault/%s/member-%d/%s/frames-written-%d' % (s, q_fault, raised, done))
                    for m in range(len(fr2)):
                        extra['ts_checks'] += 1
                        if not _same_ts(fr2[m].ts, before[m]):
                            d = float(np.abs(np.asarray(fr2[m].ts) - before[m]).max()) \
                                if np.shape(fr2[m].ts) == before[m].shape else float('nan')
                            kind = 'ts_shifted_after_fault' if m == m_fault else 'ts_not_restored_after_fault'
                            V('Cadence.add_signal', kind,
                              '%s raised on invocation %d of injection %d (member %d = frame %d, %s): afterwards frame '
                              '%d ts differs from its value before by %r'
                              % (s, k, r, q_fault, m_fault, raised, m, d))

    res['n'] = n_eval
    res['ambiguous'] = amb
    res['extra'] = extra
    res['outcomes'] = sorted(outcomes)
    if len(members) >= 2 and offset_matters:
        res['nontrivial'] = [engine.sha(c)]
    return res



# ------------------------------------------------------------------ Box D: histories on ONE cadence object
H_OPS = ['inj_full', 'inj_tail', 'inj_even', 'inj_label', 'inj_single', 'set1', 'ins0', 'app', 'del0']
H_FLAGS = [dict(), dict(integrate_path=True, integrate_t_profile=True, t_subsamples=3), dict(doppler_smearing=True, smearing_subsamples=3)]
H_G = dict(df=1.0, dt=2.0, fch1=200.0, fchans=16, tchans=3)


def _h_sig():
    f0, drift = 203.25, 0.004

    def path(t):
        return f0 + drift * np.asarray(t)

    def tprof(t):
        return 2.0 + 0.001 * np.asarray(t)
    return path, tprof


def case_history(c):
    """Every history of up to `depth` operations from H_OPS on one (Ordered)Cadence built from real frames: injections
    into the whole cadence, into slices / label selections of it, into one member directly, and list edits in
    between.  After EVERY operation each frame ever involved must hold init + the sum of the shifted single-frame
    injections it was a member of (twin frames), its ts must be bit-identical to the start, and building a selection
    must not move any frame's start time."""
    import itertools
    import setigen as stg
    viol = []
    res = {'viol': viol, 'n': 0, 'transitions': 0, 'traces': 0, 'state_keys': set(), 'outcomes': set()}

    def V(site, failure, detail, hist):
        viol.append({'site': site, 'failure': failure, 'detail': 'history %s: %s' % ('>'.join(hist), detail)})

    G = H_G
    kw = dict(c['flags'])
    path, tprof = _h_sig()
    import setigen as stg
    fprof = stg.gaussian_f_profile(width=2.0)

    def new_frame(k, t_start):
        fr = stg.Frame(fchans=G['fchans'], tchans=G['tchans'], df=G['df'], dt=G['dt'], fch1=G['fch1'], ascending=True, t_start=t_start)
        fr.data = np.full((G['tchans'], G['fchans']), 0.5 * (k + 1))
        return fr

    checked = set()
    for depth in range(1, c['depth'] + 1):
        for tail in itertools.product(H_OPS, repeat=depth - len(c['head'])) if depth >= len(c['head']) else ():
            hist = list(c['head']) + list(tail)
            if len(hist) != depth:
                continue
            # fresh world
            starts = [100.0, 100.0 + 6.0 + 31.5, 100.0 + 2 * 6.0 + 31.5 + 212.25]
            frames = [new_frame(k, t) for k, t in enumerate(starts)]
            pool = [new_frame(10 + k, 2000.0 + 333.5 * k) for k in range(depth)]      # frames added later
            early = [new_frame(20 + k, 40.0 - 9.5 * k) for k in range(depth)]         # frames inserted in front (earlier)
            allf = frames + pool + early
            twins = {id(f): (f, new_frame(0, 0.0)) for f in allf}
            for f, tw in twins.values():
                tw.data = f.data.copy()
            ts0 = {id(f): np.array(f.ts, copy=True) for f in allf}
            if c['kind'] == 'ordered':
                cad = stg.OrderedCadence(list(frames), order='ABACAD', t_slew=c['slew'], t_overwrite=c['over'])
            else:
                cad = stg.Cadence(list(frames), t_slew=c['slew'], t_overwrite=c['over'])
            npool = nearly = 0
            ok = True
            for j, op in enumerate(hist):
                pre = tuple(hist[:j + 1])
                fresh = pre not in checked
                tstart_before = {id(f): f.t_start for f in allf}
                X = None
                try:
                    if op == 'inj_full':
                        X = cad
                    elif op == 'inj_tail':
                        X = cad[1:]
                    elif op == 'inj_even':
                        X = cad[::2]
                    elif op == 'inj_label':
                        X = cad.by_label('A') if c['kind'] == 'ordered' else cad[[i for i in range(len(cad.frames) - 1, -1, -2)]]
                    elif op == 'inj_single':
                        if len(cad.frames) >= 2:
                            f = cad.frames[1]
                            f.add_signal(path, tprof, fprof, **kw)
                            twins[id(f)][1].add_signal(path, tprof, fprof, **kw)
                    elif op == 'set1':
                        if len(cad.frames) >= 2:
                            cad[1] = pool[npool]; npool += 1
                    elif op in ('ins0', 'app') and c['kind'] == 'ordered' and len(cad.frames) >= 6:
                        pass          # the order string 'ABACAD' has no letter for a seventh frame (C18's business): not attempted
                    elif op == 'ins0':
                        cad.insert(0, early[nearly]); nearly += 1
                    elif op == 'app':
                        cad.append(pool[npool]); npool += 1
                    elif op == 'del0':
                        if len(cad.frames) >= 2:
                            del cad[0]
                except Exception as e:
                    if fresh:
                        V('Cadence', 'operation_raised', '%s raised %s: %s' % (op, type(e).__name__, e), pre)
                    ok = False
                    break
                if X is not None:
                    # building a selection moves no frame in time
                    moved = [k for k, f in enumerate(allf) if f.t_start != tstart_before[id(f)]]
                    if moved and fresh:
                        V('Cadence.__getitem__', 'selection_moved_start_times',
                          'building the selection for %s changed t_start of frame(s) %s (e.g. %r -> %r)'
                          % (op, moved, tstart_before[id(allf[moved[0]])], allf[moved[0]].t_start), pre)
                        ok = False
                        break
                    mem = list(X.frames)
                    if mem:
                        t_first = mem[0].t_start
                        try:
                            X.add_signal(path, tprof, fprof, **kw)
                        except Exception as e:
                            if fresh:
                                V('Cadence.add_signal', 'raised', '%s raised %s: %s' % (op, type(e).__name__, e), pre)
                            ok = False
                            break
                        for f in mem:
                            D = f.t_start - t_first
                            twins[id(f)][1].add_signal(_shift(path, D), _shift(tprof, D), fprof, **kw)
                if fresh:
                    checked.add(pre)
                    res['transitions'] += 1
                    for k, f in enumerate(allf):
                        tw = twins[id(f)][1]
                        if not _same_ts(f.ts, ts0[id(f)]):
                            V('Cadence.add_signal', 'ts_not_restored', 'after %s frame #%d ts differs from its initial value' % (op, k), pre)
                            ok = False
                        got, want = np.asarray(f.data), tw.data
                        if got.shape != want.shape or np.abs(got - want).max() > 1e-7 * 2.5:
                            j2 = np.unravel_index(int(np.argmax(np.abs(got - want))), got.shape) if got.shape == want.shape else None
                            V('Cadence.add_signal', 'history_signal_mismatch',
                              'after %s frame #%d (t_start %r, %s) holds %r at %s; the shifted single-frame injections it was a member of give %r'
                              % (op, k, f.t_start, 'member' if any(f is g for g in cad.frames) else 'not a member',
                                 None if j2 is None else float(got[j2]), j2, None if j2 is None else float(want[j2])), pre)
                            ok = False
                    res['state_keys'].add('%s/%d/%d' % (c['kind'], len(cad.frames), j))
                    res['outcomes'].add('%s/%s' % (op, 'ok' if ok else 'bad'))
                if not ok:
                    break
            res['traces'] += 1
            res['n'] += 1
            if len(viol) > 12:
                break
    res['state_keys'] = sorted(res['state_keys'])
    res['outcomes'] = sorted(res['outcomes'])
    res['nontrivial'] = [engine.sha(c)]
    res['viol'] = viol[:12]
    return res


# ------------------------------------------------------------------ enumeration
def _valid(c):
    """Array forms need one common tchans in the injected object; array bandpass + integrate_f_profile and
    array path + doppler_smearing are rejected by single-frame injection itself (C01's business: D02, D01),
    so those combinations are not part of this box."""
    arr = any(s['path'] == 'array' or s['tprof'] == 'array' for s in c['inj'])
    if arr and c['tch'] == 'mixed':
        return False
    if c['flags']['sm'] and any(s['path'] == 'array' for s in c['inj']):
        return False
    if c['flags']['jf'] and any(s['bp'] == 'array' for s in c['inj']):
        return False
    return True


def _cases(tier, seed):
    out = []
    thorough = tier == 'thorough'

    def add(box, geom, asc, pattern, M, tch, view, inj, flags, subs):
        c = dict(box=box, geom=geom, asc=asc, pattern=pattern, M=M, tch=tch, view=view, inj=inj, flags=flags,
                 subs=list(subs), seed=seed)
        if _valid(c):
            out.append(c)

    # Box A: every cadence shape x every flag combination x the core signals
    geoms = [('toy', True), ('bl', False)]
    if thorough:
        geoms = [('toy', True), ('toy', False), ('bl', False), ('bl', True), ('hi', False)]
    pats = PATTERNS if thorough else PATTERNS[:5]
    tchs = ['u3', 'mixed', 'u1', 'u2'] if thorough else ['u3', 'mixed']
    subsA = [(3, 2, 5), (1, 1, 1), (10, 10, 10)] if thorough else [(3, 2, 5)]
    for M in (1, 2, 3, 4):
        for geom, asc in geoms:
            for pattern in pats:
                for tch in tchs:
                    for view in VIEWS:
                        for isig, sig in enumerate(CORE):
                            for flags in (FLAGS16 if thorough or isig in (0, 2) else FLAGS4):
                                for subs in subsA:
                                    if subs != (3, 2, 5) and (geom != 'bl' or asc or tch != 'u3'):
                                        continue
                                    add('A', geom, asc, pattern, M, tch, view, [sig], flags, subs)
    # Box B: every signal form x flags on a few cadences
    cadB = [('bl', False, 'slew', 3, 'u3', 'full'), ('bl', False, 'epoch', 4, 'mixed', 'even')]
    if thorough:
        cadB += [('toy', True, 'gaps', 3, 'u3', 'rev'), ('bl', True, 'epochgap', 4, 'u2', 'tail')]
    for (geom, asc, pattern, M, tch, view) in cadB:
        for p in PATHS:
            for tp in TPROFS:
                for fp in FPROFS:
                    for b in BPS:
                        for flags in (FLAGS16 if thorough else FLAGS4):
                            add('B', geom, asc, pattern, M, tch, view, [dict(path=p, tprof=tp, fprof=fp, bp=b)],
                                flags, (3, 2, 5))
    # Box C: repeated injections (the fault lands in every injection of the sequence)
    other = dict(path='lin-', tprof='sine', fprof='gauss', bp='const')
    for n_inj in (2, 3):
        for pattern in pats:
            for M in ((2, 3, 4) if thorough else (2, 3)):
                for view in (VIEWS if thorough else ['full', 'tail']):
                    for sig in CORE:
                        for flags in (FLAGS16 if thorough else FLAGS4):
                            inj = [sig, other, sig][:n_inj]
                            add('C', 'bl', False, pattern, M, 'u3', view, inj, flags, (3, 2, 5))
    return out


def run(ctx):
    cases = _cases(ctx.tier, ctx.seed)
    ctx.pmap(case_cadence, cases)
    thorough = ctx.tier == 'thorough'
    hdepth = 4 if thorough else 3
    hcases = [dict(box='D', kind=kind, over=over, slew=slew, flags=fl, head=[h], depth=hdepth, seed=ctx.seed)
              for kind in ('plain', 'ordered') for (over, slew) in ((False, 0), (True, 17.5)) for fl in H_FLAGS for h in H_OPS]
    ctx.pmap(case_history, hcases, chunk=1)
    return ctx.finish(
        rule='three completely enumerated boxes: A = frame count 1..4 x geometry x start-time pattern x tchans '
             'pattern x cadence view x 4 core signals x all 16 flag combinations (quick: 16 for two of the signals, '
             'the 4 corner combinations for the other two; thorough: x sub-sample counts); B = all '
             'path x t_profile x f_profile x bandpass forms x flags on fixed cadences; C = sequences of 2 and 3 '
             'injections; D = EVERY history of up to %d operations from {inject into the whole cadence / its tail / every '
             'second frame / a label or index selection / one member directly, item assignment, insert in front, append, '
             'delete} on one plain or ordered cadence (with and without start-time overwriting) x 3 flag sets, each frame '
             'compared after every operation with the sum of the shifted single-frame injections it was a member of.  '
             'Inside each case of boxes A-C EVERY fault (injection r, callable slot, k-th invocation, k = 1..count '
             'measured in the fault-free run) is executed on a freshly built cadence; evaluations = fault-free runs + '
             'fault runs.  A case is non-trivial when the injected cadence object has >= 2 frames and the shifted '
             'single-frame reference of some frame differs from the unshifted one by more than 1e4 x tolerance '
             '(the offset matters); distinct = distinct case dicts.' % hdepth +
             '  counters.fault_runs_in_shifted_frame counts '
             'faults landing while a frame with D != 0 was being injected.',
        assumptions=['single-frame Frame.add_signal on a twin frame (ts[0] == 0) is the reference for the shifted signal '
                     '(its own correctness is C01); the linear-path/gaussian family is additionally compared with an '
                     'independent closed form in extended precision',
                     'tolerance = 4*(A*Lf*(Lp*%d ulp(T) + %d ulp(Fmag)) + 1.1*Lt*%d ulp(T)) + 1e-9*A per injection, '
                     'T = largest |t + D| in the cadence object, Lipschitz constants of the chosen families'
                     % (K_T, K_F, K_T),
                     'box-profile pixels whose twin evaluation point lies within the frequency tolerance of an edge are '
                     'masked (counted in ambiguous_skipped only if they actually differ)',
                     'ts identity is bit for bit; t_overwrite start times are compared bit for bit with '
                     'previous.t_stop + slew and within 2 ulp with the exact rational; slew_times within 2 ulp(t)'],
        coverage_extra={'bounds': {'frames': [1, 2, 3, 4], 'geometries': sorted(GEOMS) if thorough else ['toy', 'bl'],
                                   'patterns': PATTERNS if thorough else PATTERNS[:5],
                                   'tchans_patterns': ['u3', 'mixed', 'u1', 'u2'] if thorough else ['u3', 'mixed'],
                                   'views': VIEWS, 'flags': 16, 'injections': [1, 2, 3]},
                        'alphabet': {'paths': PATHS, 't_profiles': TPROFS, 'f_profiles': FPROFS, 'bandpass': BPS,
                                     'fault_slots': SLOTS}})
