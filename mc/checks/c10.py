"""
C10 -- Antenna streams deliver one continuous timeline however requests are chunked.

E-HIST: breadth-first exploration of operation histories (get(n), set_time, add_time, update_noise,
reset_start) on REAL DataStream / Antenna objects, rebuilt by replay for every explored state, against an
exact-rational timeline model; plus every composition of N samples into requests (2^(N-1) schedules).
Noise oracle: differential against an identically built twin that makes ONE request (chunk invariance is
what the property states; which numbers a seed yields is not demanded).  Deterministic sources are checked
in two separate steps: returned timestamps against the rational clock (ulps), voltages against the
long-double closed form evaluated AT the returned timestamps.
"""
from fractions import Fraction as Fr
import numpy as np

from mc import engine
from mc.refs.axes import F, ulp

PROPERTY = 'C10'
LEVEL = 'model_checking'
LD = np.longdouble
TWO_PI = 2 * np.arctan2(LD(0), LD(-1))

GETS = [1, 2, 3, 5]
SET_T = [0.25, 7.0, 1.0 / 3.0, 0.0]     # 1/3 s is off every sample grid used here; the instant 0 is an instant like any other (C10-28)
ADD_T = [0.0, 0.0107421875]      # 11/1024 s: exact in single and double precision, not a whole number of samples at any rate used here
UPD = [4]

SOURCES = {
    'none': [],
    'noise': [('noise', 0.5, 2.0)],
    'chirp': [('chirp', 0.21, 0.013, 1.5, 0.3)],
    'noise+chirp+real': [('noise', 0.0, 1.0), ('chirp', 0.33, -0.02, 0.7, 0.0), ('real',)],
    'chirp+complex': [('chirp', 0.11, 0.0, 1.0, 1.0), ('complex',)],
    'two_noise': [('noise', 0.0, 1.0), ('noise', 1.0, 3.0)],
    'three_noise': [('noise', 0.0, 1.0), ('noise', 1.0, 3.0), ('noise', -0.5, 0.5)],
    'two_chirps': [('chirp', 0.4, 0.05, 1.0, 0.0), ('chirp', 0.05, -0.01, 2.0, 2.0)],
    # a custom source that plays back a STORED table (returns a view of it), then a chirp: the table belongs to the caller
    'table+chirp': [('table',), ('chirp', 0.21, 0.013, 1.5, 0.3)],
    # a chirp, then a COMPLEX stored table handed out as a view: the stream's voltages are real and non-zero when the first
    # complex source arrives, and the caller's table must not become the accumulator (seeded change C10-29)
    'chirp+ctable': [('chirp', 0.11, 0.0, 1.0, 1.0), ('ctable',)],
    # a custom source returning single-precision values, then a chirp (which is still summed in double precision)
    'f32+chirp': [('f32',), ('chirp', 0.21, 0.013, 1.5, 0.3)],
    # chirp parameters as astropy Quantities in non-base units (kHz, kHz/s)
    'chirp_q': [('chirp_q', 0.21, 0.013, 1.5, 0.3)],
}


class _Table(object):
    def __init__(self, val=0.75):
        self.val = val
        self.T = np.full(4096, val)

    def __call__(self, ts):
        return self.T[:len(ts)]


def _f32_fn(ts):
    return np.full(len(ts), 0.3, dtype=np.float32)



def _real_fn(ts):
    return 0.25 * np.sin(40.0 * ts) + 0.1


def _complex_fn(ts):
    return 0.5j * np.cos(3.0 * ts) + 0.125


_DECOY_DONE = set()


def _decoy_streams(rate):
    """Deterministic process history: a stream with ANOTHER sample rate is asked for every request size this check
    uses, before the stream under test exists (something memoised per request size at module level is then poisoned in
    every process alike)."""
    import setigen.voltage as sv
    d = sv.DataStream(sample_rate=rate * 3.0 + 7.0, fch1=0.0, ascending=True, t_start=0.0, seed=1)
    d.add_constant_signal(f_start=rate * 0.1, drift_rate=0.0, level=1.0)
    for n in (1, 2, 3, 4, 5, 6, 7, 8, 9, 10, 13, 28, 33):
        d.get_samples(n)


def build_stream(cfg, twin_noise_only=False, cls=None, seed=None):
    import setigen.voltage as sv
    rate = cfg['rate']
    _decoy_streams(rate)
    s = sv.DataStream(sample_rate=_rate(cfg), fch1=cfg['fch1'], ascending=_asc(cfg), t_start=_t0(cfg),
                      seed=cfg['seed'] if seed is None else seed)
    add_sources(s, cfg, twin_noise_only)
    _shadow(s, rate)
    return s


def _asc(cfg):
    """The orientation flag in the form the caller holds it: a Python bool, a numpy bool (e.g. from `foff > 0`) or 0/1."""
    form = cfg.get('asc_form')
    if form == 'np':
        return np.bool_(cfg['asc'])
    if form == 'int':
        return int(cfg['asc'])
    return cfg['asc']


def _t0(cfg):
    """The start time in the numeric form the caller holds it (sub-box): a single-precision scalar or a 0-d array of the same value."""
    nf = cfg.get('nform')
    if nf == 'f32time':
        return np.float32(cfg['t_start'])
    if nf == 'arr0time':
        return np.array(float(cfg['t_start']))
    return cfg['t_start']


def _rate(cfg):
    return np.float32(cfg['rate']) if cfg.get('nform') == 'f32rate' else cfg['rate']


def _shadow(s, rate):
    """Another stream at ANOTHER sample rate lives in the same process and makes a request of the same size immediately
    before every request of the stream under test (two receivers fed in lock-step): whatever the library keeps per
    request size outside the stream object is then always the other stream's."""
    import setigen.voltage as sv
    d = sv.DataStream(sample_rate=rate * 3.0 + 7.0, fch1=0.0, ascending=True, t_start=0.125, seed=2)
    d.add_constant_signal(f_start=rate * 0.1, drift_rate=0.0, level=1.0)
    orig = s.get_samples

    def get_samples(num_samples):
        try:
            d.get_samples(num_samples)
        except Exception:
            pass
        return orig(num_samples)
    s.get_samples = get_samples


def _refused_requests(obj, streams, V, site):
    """Requests the library refuses (a negative and a fractional sample count) are not requests: no clock moves.  Nor does a
    refused set_time (an instant that is not a number) start a new observation."""
    clocks = [obj.t_start] + [s.t_start for s in streams]
    flags = [obj.start_obs] + [s.start_obs for s in streams]
    for bad in (None, 'noon'):
        try:
            obj.set_time(bad)
        except Exception:
            continue
        return True
    if [obj.start_obs] + [s.start_obs for s in streams] != flags or [obj.t_start] + [s.t_start for s in streams] != clocks:
        V('refused_set_time_changed_state', 'set_time(None) / set_time(\'noon\') raised but changed the clock(s) / start flag(s): %r, %r -> %r, %r'
          % (clocks, flags, [obj.t_start] + [s.t_start for s in streams], [obj.start_obs] + [s.start_obs for s in streams]), site)
        return False
    for bad in (-3, 2.5):
        try:
            obj.get_samples(bad)
        except Exception:
            continue
        return True          # accepted after all: nothing is demanded of such a call here
    now = [obj.t_start] + [s.t_start for s in streams]
    if now != clocks:
        V('refused_request_moved_clock', 'get_samples(-3) / get_samples(2.5) raised but moved the clock(s) %r -> %r' % (clocks, now), site)
        return False
    return True


def add_sources(s, cfg, twin_noise_only=False):
    rate = cfg['rate']
    sgn = 1 if cfg['asc'] else -1
    for src in SOURCES[cfg['sources']]:
        if src[0] == 'noise':
            s.add_noise(src[1], src[2])
        elif twin_noise_only:
            continue
        elif src[0] == 'chirp':
            # f_start inside the band: fch1 +/- frac*rate ; drift in units of rate^2
            f0 = cfg['fch1'] + sgn * src[1] * rate
            if cfg.get('nform') == 'uintf' and float(f0).is_integer() and f0 >= 0:
                f0 = np.uint32(f0)             # a whole-Hz start frequency held as an unsigned integer
            s.add_constant_signal(f_start=f0, drift_rate=src[2] * rate,
                                  level=src[3], phase=src[4])
        elif src[0] == 'real':
            s.add_signal(_real_fn)
        elif src[0] == 'complex':
            s.add_signal(_complex_fn)
        elif src[0] in ('table', 'ctable'):
            tb = _Table() if src[0] == 'table' else _Table(0.75 + 0.25j)
            s._c10_tables = getattr(s, '_c10_tables', []) + [tb]
            s.add_signal(tb)
        elif src[0] == 'f32':
            s.add_signal(_f32_fn)
        elif src[0] == 'chirp_q':
            from astropy import units as u
            s.add_constant_signal(f_start=((cfg['fch1'] + sgn * src[1] * rate) / 1e3) * u.kHz, drift_rate=(src[2] * rate / 1e3) * u.kHz / u.s,
                                  level=src[3], phase=src[4])


def signal_ref(cfg, ts):
    """Deterministic sources at the given timestamps, long double.  Returns (value, tolerance array)."""
    rate = cfg['rate']
    sgn = 1 if cfg['asc'] else -1
    t = np.asarray(ts, dtype=LD)
    tot = np.zeros(t.shape, dtype=np.clongdouble)
    tol = np.zeros(t.shape, dtype=float)
    for src in SOURCES[cfg['sources']]:
        if src[0] == 'table':
            tot += LD(0.75)
        elif src[0] == 'ctable':
            tot += np.clongdouble(0.75 + 0.25j)
        elif src[0] == 'f32':
            tot += LD(np.float32(0.3))
            tol += 1e-13
        if src[0] in ('chirp', 'chirp_q'):
            f0 = LD(cfg['fch1'] + sgn * src[1] * rate) - LD(cfg['fch1'])
            drift = LD(src[2] * rate)
            arg = TWO_PI * (f0 * t + drift * t * t / 2)
            if not cfg['asc']:
                arg = -arg
            tot += LD(src[3]) * np.cos(arg + LD(src[4]))
            tol += abs(src[3]) * (1e-12 + 16 * 2.0 ** -52 * (np.abs(arg).astype(float) + abs(src[4])))
        elif src[0] == 'real':
            tot += _real_fn(np.asarray(ts, dtype=float))
            tol += 1e-13
        elif src[0] == 'complex':
            tot += _complex_fn(np.asarray(ts, dtype=float))
            tol += 1e-13
    return tot, tol


def n_noise(cfg):
    return sum(1 for s in SOURCES[cfg['sources']] if s[0] == 'noise')


def has_complex(cfg):
    return any(s[0] in ('complex', 'ctable') for s in SOURCES[cfg['sources']])


class Model(object):
    """Timeline reference: exact clock, start flag, number of noise draws consumed, float-op count."""
    def __init__(self, cfg):
        self.c = F(cfg['t_start'])
        self.start = True
        self.pos = 0
        self.ops = 0
        self.exact_next = True      # the next first sample must be at exactly the float the clock was set to
        self.set_float = float(cfg['t_start'])

    def key(self):
        return (self.c, self.start, self.pos)


def apply_op(s, m, op, cfg, twin, V, site):
    """Apply one operation to the real stream `s` and the model `m`; check the transition."""
    rate = F(cfg['rate'])
    kind = op[0]
    if kind == 'get':
        n = op[1]
        if cfg.get('refuse') and not _refused_requests(s, [], V, site):
            return False
        v = s.get_samples(n)
        ts = np.asarray(s.ts)
        for tb in getattr(s, '_c10_tables', []):
            if not np.all(tb.T == tb.val):
                V('custom_source_array_modified', 'the array a custom source returned (a view of its own stored table) was written into by the stream', site)
                return False
        if v.shape != (n,) or ts.shape != (n,):
            V('shape', 'get(%d) returned shape %s / ts %s' % (n, v.shape, ts.shape), site)
            return False
        # (a) timestamps against the rational clock
        scale = max(abs(float(m.c)), float(n / rate), float(1 / rate))
        u = ulp(scale)
        worst = max(abs(F(ts[k]) - (m.c + k / rate)) for k in range(n))
        if worst > (m.ops + 3) * F(u):
            V('timestamps', 'sample times off the timeline by %.3g ulp (clock %r, get(%d))' % (float(worst / F(u)), float(m.c), n), site)
            return False
        if m.exact_next and ts[0] != m.set_float:
            V('first_sample_time', 'first sample after the clock was set to %r is at %r' % (m.set_float, ts[0]), site)
            return False
        # (b) voltages
        nz = n_noise(cfg)
        noise = twin[m.pos:m.pos + n] if nz else np.zeros(n)
        sig, tol = signal_ref(cfg, ts)
        if np.iscomplexobj(v) != has_complex(cfg):
            V('dtype', 'complex result %s, complex source present %s' % (np.iscomplexobj(v), has_complex(cfg)), site)
            return False
        if not any(x[0] != 'noise' for x in SOURCES[cfg['sources']]):
            if not np.array_equal(v, noise):
                V('noise_chunking', 'noise samples differ from the single-request stream at draw position %d '
                  '(%d noise source(s)); max diff %.3g' % (m.pos, nz, float(np.abs(v - noise).max())), 'DataStream.get_samples')
                return False
        else:
            d = np.abs(v.astype(np.clongdouble) - (noise.astype(LD) + sig))
            ntol = tol + 1e-13 * (np.abs(noise) + 1)
            if np.any(d > ntol):
                k = int(np.argmax(d - ntol))
                if nz >= 1 and abs(float(d[k])) > 1e-6 and np.allclose(np.abs(v.astype(np.clongdouble) - sig).astype(float), 0, atol=1e-6) is False \
                        and not np.allclose((v - sig.astype(complex)).real if np.iscomplexobj(v) else (v - sig.real.astype(float)), noise, atol=1e-6):
                    V('noise_chunking', 'noise part differs from the single-request stream at draw position %d (%d noise source(s))'
                      % (m.pos, nz), 'DataStream.get_samples')
                else:
                    V('signal_value', 'sample %d at t=%r: got %r, closed form %r (tol %.3g)' % (k, ts[k], v[k], complex(noise[k] + sig[k]), ntol[k]), site)
                return False
        m.c += n / rate
        m.pos += n
        m.start = False
        m.ops += 1
        m.exact_next = False
        if s.start_obs:
            V('start_flag', 'start_obs still set after a request', site)
            return False
    elif kind == 'set':
        s.set_time(op[1])
        m.c = F(op[1]); m.start = True; m.ops = 0; m.exact_next = True; m.set_float = float(op[1])
    elif kind == 'add':
        before = s.t_start
        s.add_time(np.float32(op[1]) if cfg.get('nform') == 'f32add' else op[1])      # (0.0 and 11/1024 are exact in single precision)
        m.c = m.c + F(op[1]); m.start = True; m.ops += 1
        m.exact_next = True
        m.set_float = float(s.t_start)
        # moving the clock by D lands on the requested instant (one float addition of rounding allowed)
        if abs(F(s.t_start) - (F(before) + F(op[1]))) > F(ulp(max(abs(before), abs(op[1]), 1e-300))):
            V('add_time', 'add_time(%r) moved the clock from %r to %r' % (op[1], before, s.t_start), site)
            return False
    elif kind == 'upd':
        k = op[1]
        t0, st0 = s.t_start, s.start_obs
        s.update_noise(k)
        if s.t_start != t0 or s.start_obs != st0:
            V('update_noise_clock', 'update_noise moved the clock/start flag: %r->%r, %r->%r' % (t0, s.t_start, st0, s.start_obs), site)
            return False
        # what it drew: k samples on the current timeline
        nz = n_noise(cfg)
        tsk = float(m.set_float if m.exact_next else t0) + np.arange(k) / cfg['rate']
        sig, stol = signal_ref(cfg, tsk)
        noise = twin[m.pos:m.pos + k] if nz else np.zeros(k)
        want = np.std((noise + sig).astype(complex)) if has_complex(cfg) else np.std((noise + sig.real).astype(float))
        if abs(float(s.noise_std) - float(want)) > 1e-7 * max(float(want), 1e-12) + 1e-12 + 4 * float(np.max(stol)) if k else 0:
            V('update_noise_value', 'noise_std=%r after update_noise(%d); deviation of what it drew is %r' % (s.noise_std, k, float(want)), site)
            return False
        m.pos += k
    else:
        raise ValueError(op)
    # clock invariant after every operation
    scale = max(abs(float(m.c)), float(1 / rate))
    if abs(F(s.t_start) - m.c) > (m.ops + 3) * F(ulp(scale)):
        V('clock', 'clock %r after %s; exact %r' % (s.t_start, op, float(m.c)), site)
        return False
    if bool(s.start_obs) != m.start:
        V('start_flag', 'start_obs=%r after %s, expected %r' % (s.start_obs, op, m.start), site)
        return False
    return True


def alphabet():
    return [('get', n) for n in GETS] + [('set', t) for t in SET_T] + [('add', d) for d in ADD_T] + [('upd', k) for k in UPD]


def case_stream(cfg):
    """BFS over operation histories on a real DataStream."""
    viol = []

    def V(failure, detail, site):
        viol.append({'site': site, 'failure': failure, 'detail': detail, 'params': dict(cfg, history=hist_box[0])})
    hist_box = [None]
    depth = cfg['depth']
    maxdraw = depth * 5 + 8
    twin = None
    if n_noise(cfg):
        twin = np.asarray(build_stream(cfg, twin_noise_only=True).get_samples(maxdraw))
    ops = alphabet()
    seen = {}
    frontier = [[]]
    m0 = Model(cfg)
    seen[m0.key()] = []
    states, transitions, traces = 1, 0, 0
    outcomes = set()
    for d in range(depth):
        nxt = []
        for hist in frontier:
            for op in ops:
                # rebuild by replay (prefix already verified when it was expanded)
                s = build_stream(cfg)
                m = Model(cfg)
                quiet = []
                ok = True
                for h in hist:
                    hist_box[0] = hist
                    if not apply_op(s, m, h, cfg, twin, lambda *a: quiet.append(a), 'DataStream'):
                        ok = False
                        break
                if not ok:
                    continue
                hist_box[0] = hist + [op]
                transitions += 1
                if not apply_op(s, m, op, cfg, twin, V, 'DataStream'):
                    if len(viol) >= 3:
                        return _out(cfg, viol, states, transitions, traces, outcomes)
                    continue
                k = m.key()
                outcomes.add('%s/%s' % (float(m.c), m.pos))
                if k not in seen:
                    seen[k] = hist + [op]
                    states += 1
                    nxt.append(hist + [op])
                if d == depth - 1:
                    traces += 1
        frontier = nxt
    return _out(cfg, viol, states, transitions, traces, outcomes)


def _out(cfg, viol, states, transitions, traces, outcomes):
    return {'viol': viol, 'states': states, 'transitions': transitions, 'traces': traces, 'n': transitions,
            'outcomes': sorted(outcomes)[:50], 'nontrivial': [engine.sha(cfg)]}


def case_compositions(cfg):
    """All 2^(N-1) compositions of N samples into requests (no clock operations)."""
    viol = []
    N = cfg['N']
    one = build_stream(cfg)
    whole = np.array(one.get_samples(N))
    whole_ts = np.array(one.ts)
    nz = n_noise(cfg)
    twin = np.asarray(build_stream(cfg, twin_noise_only=True).get_samples(N)) if nz else None
    pure_noise = not any(x[0] != 'noise' for x in SOURCES[cfg['sources']])
    sig, tol = signal_ref(cfg, whole_ts)
    n = 0
    outs = set()
    def with_zeros():
        # every composition as it is, and with a zero-length request (which the stream accepts) after each of its parts and
        # after the last one: an empty request returns nothing and leaves clock and noise where they were (seeded change C10-30)
        for comp0 in engine.compositions(N):
            yield tuple(comp0)
            z = []
            for k in comp0:
                z += [k, 0]
            yield tuple(z)
    for comp in with_zeros():
        n += 1
        s = build_stream(cfg)
        parts, tparts = [], []
        for k in comp:
            # the caller keeps the returned chunks and concatenates them at the end: no defensive copy here, so a
            # buffer that is reused between requests shows up as a corrupted earlier chunk
            parts.append(s.get_samples(k))
            tparts.append(np.array(s.ts))
        if [len(x) for x in parts] != list(comp) or [len(x) for x in tparts] != list(comp):
            viol.append({'site': 'DataStream.get_samples', 'failure': 'request_length',
                         'detail': 'requests of %s samples returned %s samples (timestamps %s)' % (list(comp), [len(x) for x in parts], [len(x) for x in tparts]),
                         'params': dict(cfg, composition=list(comp))})
            break
        cat = np.concatenate(parts)
        tcat = np.concatenate(tparts)
        u = ulp(max(abs(cfg['t_start']), N / cfg['rate']))
        if float(np.abs(tcat - whole_ts).max()) > (len(comp) + 3) * u:
            viol.append({'site': 'DataStream.get_samples', 'failure': 'timestamps_chunked',
                         'detail': 'composition %s: timestamps differ from the single request by %.3g ulp' % (comp, float(np.abs(tcat - whole_ts).max()) / u),
                         'params': dict(cfg, composition=list(comp))})
            break
        if pure_noise:
            same = np.array_equal(cat, whole)
        else:
            # two separate steps (timestamps were compared in ulps above): the chunked voltages against the
            # closed form at THEIR OWN timestamps plus the one-request twin's noise
            csig, ctol = signal_ref(cfg, tcat)
            nse = twin if nz else np.zeros(N)
            same = bool(np.all(np.abs(cat.astype(np.clongdouble) - (nse.astype(LD) + csig)) <= ctol + 1e-13 * (np.abs(nse) + 1)))
        outs.add((len(comp), 0 in comp))
        # the property, literally: the concatenation EQUALS the single request -- the same instants, hence the same voltages
        if not np.array_equal(tcat, whole_ts) or not np.array_equal(cat, whole):
            dmax = float(np.abs(cat - whole).max())
            viol.append({'site': 'DataStream.get_samples', 'failure': 'chunk_dependent_instants',
                         'detail': 'composition %s of %d samples (rate %g Hz from t=%r): the chunks were evaluated at instants differing from the '
                                   'single request\'s by up to %.3g s (%.3g sample periods); voltages differ by up to %.3g'
                                   % (comp, N, cfg['rate'], cfg['t_start'], float(np.abs(tcat - whole_ts).max()),
                                      float(np.abs(tcat - whole_ts).max()) * cfg['rate'], dmax),
                         'params': dict(cfg, composition=list(comp))})
            break
        if not same:
            viol.append({'site': 'DataStream.get_samples', 'failure': 'noise_chunking' if nz else 'chunked_values',
                         'detail': 'composition %s of %d samples: concatenated voltages differ from the single request '
                                   '(max diff %.3g; %d noise source(s))' % (comp, N, float(np.abs(cat - whole).max()), nz),
                         'params': dict(cfg, composition=list(comp))})
            break
    return {'viol': viol, 'n': n, 'traces': n, 'transitions': n * 2, 'states': 0,
            'outcomes': ['comp%d%s' % (k, '+zeros' if z_ else '') for (k, z_) in outs], 'nontrivial': [engine.sha(cfg)]}


def case_antenna(cfg):
    """BFS over histories on a real Antenna (1 or 2 polarisations)."""
    import setigen.voltage as sv
    viol = []
    hist_box = [None]

    def V(failure, detail, site):
        viol.append({'site': site, 'failure': failure, 'detail': detail, 'params': dict(cfg, history=hist_box[0])})
    depth = cfg['depth']
    npol = cfg['npol']
    # the two polarisations may carry DIFFERENT source sets (e.g. a complex source on y only)
    pcfg = [cfg, dict(cfg, sources=cfg.get('y_sources', cfg['sources']))][:npol]

    def build():
        a = sv.Antenna(sample_rate=_rate(cfg), fch1=cfg['fch1'], ascending=_asc(cfg), num_pols=npol,
                       t_start=_t0(cfg), seed=cfg['seed'])
        for s, pc in zip(a.streams, pcfg):
            add_sources(s, pc)
            _shadow(s, cfg['rate'])
        return a

    def build_twins():
        a = sv.Antenna(sample_rate=_rate(cfg), fch1=cfg['fch1'], ascending=_asc(cfg), num_pols=npol,
                       t_start=_t0(cfg), seed=cfg['seed'])
        tw = []
        for s, pc in zip(a.streams, pcfg):
            add_sources(s, pc, twin_noise_only=True)
            tw.append(np.asarray(s.get_samples(depth * 5 + 8)) if n_noise(pc) else None)
        return tw
    twins = build_twins()
    ops = [('get', 2), ('get', 3), ('set', 7.0), ('set', 0), ('add', 0.5), ('reset',), ('updx', 4)]
    if npol == 2 and n_noise(pcfg[0]) and n_noise(pcfg[1]) and pcfg[0]['sources'] == pcfg[1]['sources'] and np.array_equal(twins[0], twins[1]):
        V('same_noise_xy', 'x and y polarisation streams draw identical noise', 'Antenna')
    frontier = [[]]
    seen = {None}
    states, transitions, traces = 1, 0, 0
    outcomes = set()

    def step(a, ms, op, Vf):
        rate = F(cfg['rate'])
        if op[0] == 'get':
            n = op[1]
            pos0 = [m.pos for m in ms]
            clk0 = [(m.c, m.ops, m.exact_next, m.set_float) for m in ms]
            if cfg.get('refuse') and not _refused_requests(a, list(a.streams), Vf, 'Antenna.get_samples'):
                return False
            out = a.get_samples(n)
            if np.shape(out) != (1, npol, n):
                Vf('shape', 'Antenna.get_samples(%d) returned shape %s' % (n, np.shape(out)), 'Antenna.get_samples')
                return False
            for p, (s, m) in enumerate(zip(a.streams, ms)):
                # check the stream's own view by re-deriving from the recorded ts/v
                ts = np.asarray(s.ts)
                v = np.asarray(out[0][p])
                if not np.array_equal(v, s.v):
                    Vf('stacking', 'row %d of the antenna output is not polarisation %s (a complex stream must stay complex in the '
                       'stacked result)' % (p, 'xy'[p]), 'Antenna.get_samples')
                    return False
                sig, tol = signal_ref(pcfg[p], ts)
                noise = twins[p][m.pos:m.pos + n] if n_noise(pcfg[p]) else np.zeros(n)
                d = np.abs(v.astype(np.clongdouble) - (noise.astype(LD) + sig))
                if np.any(d > tol + 1e-13 * (np.abs(noise) + 1)):
                    Vf('stream_value', 'polarisation %s sample values differ from its own timeline/noise' % 'xy'[p], 'Antenna.get_samples')
                    return False
                worst = max(abs(F(ts[k]) - (m.c + k / rate)) for k in range(n))
                if worst > (m.ops + 3) * F(ulp(max(abs(float(m.c)), float(n / rate)))):
                    Vf('timestamps', 'polarisation %s timestamps off the timeline' % 'xy'[p], 'Antenna.get_samples')
                    return False
                if m.exact_next and ts[0] != m.set_float:
                    Vf('first_sample_time', 'polarisation %s first sample at %r, clock was set to %r' % ('xy'[p], ts[0], m.set_float), 'Antenna.get_samples')
                    return False
                m.c += n / rate; m.pos += n; m.start = False; m.ops += 1; m.exact_next = False
        elif op[0] == 'set':
            a.set_time(op[1])
            for m in ms:
                m.c = F(op[1]); m.start = True; m.ops = 0; m.exact_next = True; m.set_float = float(op[1])
        elif op[0] == 'add':
            a.add_time(np.float32(op[1]) if cfg.get('nform') == 'f32add' else op[1])
            for m in ms:
                m.c += F(op[1]); m.start = True; m.ops += 1; m.exact_next = True; m.set_float = float(a.t_start)
        elif op[0] == 'reset':
            a.reset_start()
            for m in ms:
                m.start = True; m.ops += 1; m.exact_next = True; m.set_float = float(a.t_start)
        elif op[0] == 'updx':
            t0 = a.x.t_start
            a.x.update_noise(op[1])
            if a.x.t_start != t0:
                Vf('update_noise_clock', 'update_noise moved the x clock', 'DataStream.update_noise')
                return False
            ms[0].pos += op[1]
        for s, m in zip(a.streams, ms):
            if s.t_start != a.t_start:
                Vf('clock_split', 'antenna clock %r but polarisation stream clock %r after %s' % (a.t_start, s.t_start, op), 'Antenna')
                return False
            if abs(F(s.t_start) - m.c) > (m.ops + 3) * F(ulp(max(abs(float(m.c)), float(1 / rate)))):
                Vf('clock', 'clock %r after %s; exact %r' % (s.t_start, op, float(m.c)), 'Antenna')
                return False
            if bool(s.start_obs) != m.start or bool(a.start_obs) != m.start:
                Vf('start_flag', 'start flags %r/%r after %s, expected %r' % (a.start_obs, s.start_obs, op, m.start), 'Antenna')
                return False
        return True

    for d in range(depth):
        nxt = []
        for hist in frontier:
            for op in ops:
                a = build()
                ms = [Model(cfg) for _ in range(npol)]
                ok = True
                for h in hist:
                    if not step(a, ms, h, lambda *x: None):
                        ok = False
                        break
                if not ok:
                    continue
                hist_box[0] = hist + [op]
                transitions += 1
                if not step(a, ms, op, V):
                    if len(viol) >= 3:
                        return _out(cfg, viol, states, transitions, traces, outcomes)
                    continue
                k = tuple(m.key() for m in ms)
                outcomes.add(str(float(ms[0].c)))
                if k not in seen:
                    seen.add(k)
                    states += 1
                    nxt.append(hist + [op])
                if d == depth - 1:
                    traces += 1
        frontier = nxt
    return _out(cfg, viol, states, transitions, traces, outcomes)


def run(ctx):
    T = ctx.tier == 'thorough'
    depth = 5 if T else 4
    N = 10 if T else 8
    cfgs = []
    for rate in ((1e3, 48e3, 3e9) if T else (1e3, 3e9)):
        for t0 in ((0, 1.5, 100.25, 0.0123456789) if T else (0, 100.25, 0.0123456789)):
            for asc in (True, False):
                for src in SOURCES:
                    for seed in (ctx.seed + 5, ctx.seed + 6):
                        if seed != ctx.seed + 5 and not (T or src in ('noise', 'two_noise', 'three_noise')):
                            continue
                        cfgs.append(dict(rate=rate, t_start=t0, asc=asc, sources=src, seed=seed,
                                         fch1=0.0 if asc else rate / 2,
                                         depth=(6 if (T and rate == 1e3 and t0 == 1.5 and seed == ctx.seed + 5) else depth)))
    # the seed value 0 itself (a falsy seed is still a seed)
    cfgs += [dict(c, seed=0) for c in cfgs if c['seed'] == ctx.seed + 5 and c['rate'] == 1e3 and c['t_start'] == 0
             and c['sources'] in ('noise', 'three_noise', 'noise+chirp+real') and ctx.seed + 5 != 0 and ctx.seed + 6 != 0]
    # (sub-box) every request preceded by two refused ones
    refuse = [dict(c, refuse=True) for c in cfgs if c['rate'] == 1e3 and c['t_start'] == 100.25 and c['seed'] == ctx.seed + 5]
    # (sub-box) the orientation flag as a numpy bool / as 0, 1
    forms = [dict(c, asc_form=f) for c in cfgs if c['rate'] == 1e3 and c['t_start'] == 100.25 and c['seed'] == ctx.seed + 5
             and 'chirp' in c['sources'] for f in ('np', 'int')]
    # (sub-box) start time / sample rate / start frequency in other numeric forms (values exactly representable in them)
    nforms = [dict(c, nform=f) for c in cfgs if c['rate'] == 1e3 and c['t_start'] == 100.25 and c['seed'] == ctx.seed + 5
              and c['sources'] in ('chirp', 'noise+chirp+real', 'two_chirps') for f in ('f32time', 'arr0time', 'f32rate', 'uintf')]
    # (sub-box) the step of add_time as a single-precision scalar, from a start time that single precision cannot hold
    nforms += [dict(c, nform='f32add') for c in cfgs if c['rate'] == 1e3 and c['t_start'] == 0.0123456789 and c['seed'] == ctx.seed + 5
               and c['sources'] in ('chirp', 'noise+chirp+real')]
    ctx.pmap(case_stream, cfgs + refuse + forms + nforms, chunk=1)
    ctx.pmap(case_compositions, [dict(c, N=N) for c in cfgs], chunk=2)
    ants = []
    for c in cfgs:
        if c['sources'] in ('noise', 'noise+chirp+real', 'chirp+complex', 'two_chirps') and c['seed'] == ctx.seed + 5:
            for npol in (1, 2):
                ants.append(dict(c, npol=npol, depth=depth))
    for c in cfgs:
        if c['sources'] in ('chirp', 'noise') and c['seed'] == ctx.seed + 5:
            ants.append(dict(c, npol=2, depth=depth, y_sources='chirp+complex'))
        if c['sources'] == 'chirp+complex' and c['seed'] == ctx.seed + 5:
            ants.append(dict(c, npol=2, depth=depth, y_sources='noise'))
    ants += [dict(a, asc_form='np') for a in ants if a['rate'] == 1e3 and a['t_start'] == 100.25 and a['npol'] == 2 and 'y_sources' not in a
             and 'chirp' in a['sources']]
    ants += [dict(a, nform=f) for a in ants if a['rate'] == 1e3 and a['t_start'] == 100.25 and a['npol'] == 2 and 'y_sources' not in a
             and 'asc_form' not in a and a['sources'] == 'two_chirps' for f in ('f32time', 'arr0time', 'f32rate')]
    ants += [dict(a, nform='f32add') for a in ants if a['rate'] == 1e3 and a['t_start'] == 0.0123456789 and a['npol'] == 2 and 'y_sources' not in a
             and 'asc_form' not in a and 'nform' not in a and a['sources'] == 'two_chirps']
    ants += [dict(a, refuse=True) for a in ants if 'asc_form' not in a and 'nform' not in a and a['rate'] == 1e3 and a['t_start'] == 100.25 and a['npol'] == 2 and 'y_sources' not in a]
    ctx.pmap(case_antenna, ants, chunk=1)
    return ctx.finish(
        rule='per stream configuration (sample_rate x t_start x orientation x source set x seed): BFS over all operation '
             'histories up to the depth bound over the alphabet get(1,2,3,5)/set_time/add_time/update_noise (antenna: '
             'get/set/add/reset_start/update_noise on x), states de-duplicated by (exact clock, start flag, noise draws '
             'consumed); plus every composition of N samples.  transitions = operations executed and checked on the real '
             'object; traces = complete histories at the depth bound (+ one per composition)',
        assumptions=['noise oracle is differential (one-request twin with the same seed): which numbers a seed yields is not demanded',
                     'timestamps within (ops+3) ulp of the rational clock; chirps compared at the returned timestamps in long double '
                     'with tolerance level*(1e-12 + 16*2^-52*|phase|)',
                     'update_noise draws advance the noise generators (documented behaviour)'],
        coverage_extra={'bounds': {'depth': depth, 'N': N, 'alphabet': [list(o) for o in alphabet()],
                                   'sources': list(SOURCES)}})
