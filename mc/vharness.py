"""
Harness pieces shared by the voltage-side checks (C02, C04, C07, C14, C20): spy antenna sources and
spy quantisers (the backend only checks isinstance, and keeps list-of-lists elements as given), a
backend builder from a plain config dict, and a long-double FIR+DFT filterbank definition.
"""
import os
import numpy as np

LD = np.longdouble


def _mods():
    import setigen.voltage as v
    return v


def make_spies():
    """Classes are created lazily so that `setigen` is imported from the tree under test."""
    v = _mods()

    class SpyAntenna(v.Antenna):
        def __init__(self, *a, **k):
            super().__init__(*a, **k)
            self.log = []          # (n requested, clock before, returned array copy)

        def get_samples(self, n):
            t0 = self.t_start
            out = super().get_samples(n)
            self.log.append((int(n), t0, np.array(out, copy=True)))
            return out

    class SpyArray(v.MultiAntennaArray):
        def __init__(self, *a, **k):
            super().__init__(*a, **k)
            self.log = []

        def get_samples(self, n):
            t0 = self.t_start
            out = super().get_samples(n)
            self.log.append((int(n), t0, np.array(out, copy=True)))
            return out

    class SpyReal(v.RealQuantizer):
        def __init__(self, *a, **k):
            super().__init__(*a, **k)
            self.calls = []

        def quantize(self, voltages, custom_std=None):
            vin = np.array(voltages, copy=True)
            out = super().quantize(voltages, custom_std=custom_std)
            self.calls.append(dict(x=vin, q=np.array(out, copy=True), custom_std=custom_std,
                                   tmean=self.target_mean, tstd=self.target_std, bits=self.num_bits,
                                   stats=tuple(self.stats_cache)))
            return out

    class SpyComplex(v.ComplexQuantizer):
        def __init__(self, *a, **k):
            super().__init__(*a, **k)
            self.calls = []

        def quantize(self, voltages, custom_stds=None):
            vin = np.array(voltages, copy=True)
            cs = None if custom_stds is None else np.array(custom_stds, copy=True)
            tm = (self.quantizer_r.target_mean, self.quantizer_i.target_mean)
            ts = (self.quantizer_r.target_std, self.quantizer_i.target_std)
            out = super().quantize(voltages, custom_stds=custom_stds)
            self.calls.append(dict(x=vin, q=np.array(out, copy=True), custom_stds=cs, tmean=tm, tstd=ts,
                                   bits=self.num_bits,
                                   stats_r=tuple(self.quantizer_r.stats_cache),
                                   stats_i=tuple(self.quantizer_i.stats_cache)))
            return out

    return SpyAntenna, SpyArray, SpyReal, SpyComplex


def make_source(cfg, seed):
    """Antenna / array with seeded noise + a tone per stream (distinct per antenna/polarisation)."""
    SpyAntenna, SpyArray, _, _ = make_spies()
    sr = cfg.get('sample_rate', 1024.0)
    asc = cfg.get('asc', True)
    fch1 = cfg.get('fch1', 0.0)
    npol = cfg['npol']
    P = cfg['P']
    chan_bw = sr / P
    sgn = 1 if asc else -1
    src = cfg['source']
    t_start = cfg.get('t_start', 0)

    def tone_f(k):
        # inside the recorded band, off channel centres
        c = cfg['start_chan'] + (k % max(cfg['num_chans'], 1)) + 0.3 + 0.11 * k
        return fch1 + sgn * c * chan_bw

    noise = cfg.get('noise', 1.0)
    level = cfg.get('level', 0.6)
    if src == 'ant':
        a = SpyAntenna(sample_rate=sr, fch1=fch1, ascending=asc, num_pols=npol, t_start=t_start, seed=seed)
        for k, s in enumerate(a.streams):
            if cfg.get('gated') and k == 0:
                # (sub-box) a NOISE-FREE first stream carrying a gated tone: on for the first one and a half sub-block windows,
                # silent until the end of the first block, on again afterwards -- whole sub-blocks of exact zeros follow an active
                # one, and the filterbank history must still be carried through them (seeded change C02-30)
                w_ = cfg['M'] * P
                a_, b_ = 1.5 * w_, (cfg['r'] + 1) * w_

                def gated(ts, f_=(cfg['start_chan'] + 0.3) * chan_bw, t0_=float(t_start), a_=a_, b_=b_, lv_=level):
                    n_ = np.rint((np.asarray(ts, dtype=float) - t0_) * sr)
                    return np.where((n_ < a_) | (n_ >= b_), lv_ * np.cos(2 * np.pi * f_ * (np.asarray(ts, dtype=float) - t0_) + 0.3), 0.0)
                s.add_signal(gated)
                continue
            if noise:
                s.add_noise(0.1 * k, noise)
                if cfg.get('noise2'):
                    s.add_noise(-0.05, 0.7 * noise)         # a second, independent noise source on the same stream
            s.add_constant_signal(f_start=tone_f(k), drift_rate=cfg.get('drift', 0.0), level=level)
        return a
    n = {'arr2': 2, 'arr3': 3}[src]
    delays = cfg.get('delays', [0, 1, 2][:n])
    arr = SpyArray(num_antennas=n, sample_rate=sr, fch1=fch1, ascending=asc, num_pols=npol,
                   delays=delays, t_start=t_start, seed=seed)
    for k, s in enumerate(arr.bg_streams):
        if noise:
            s.add_noise(0, 0.5 * noise)
        s.add_constant_signal(f_start=tone_f(k + 5), drift_rate=0.0, level=0.5 * level)
    for i, a in enumerate(arr.antennas):
        for k, s in enumerate(a.streams):
            if noise:
                s.add_noise(0.05 * i, noise)
                if cfg.get('noise2'):
                    s.add_noise(-0.05, 0.7 * noise)
            s.add_constant_signal(f_start=tone_f(2 * i + k), drift_rate=cfg.get('drift', 0.0), level=level)
    return arr


def nants_of(cfg):
    return {'ant': 1, 'arr2': 2, 'arr3': 3}[cfg['source']]


def block_size_of(cfg):
    T = cfg['r'] * cfg['M']
    return T * nants_of(cfg) * cfg['num_chans'] * (2 * cfg['npol'] * cfg['bits'] // 8)


def make_backend(cfg, seed=0):
    """cfg keys: M, P, start_chan, num_chans, r (PFB windows per block), num_subblocks, bpf, npol, source,
    bits, window(optional), pin_stats(optional bool), dig_fwhm, rq_fwhm."""
    v = _mods()
    _, _, SpyReal, SpyComplex = make_spies()
    src = make_source(cfg, seed)
    na = nants_of(cfg)
    npol = cfg['npol']
    M, P = cfg['M'], cfg['P']
    pin = cfg.get('pin_stats', False)
    dkw = dict(target_fwhm=cfg.get('dig_fwhm', 32), num_bits=8)
    rkw = dict(target_fwhm=cfg.get('rq_fwhm', 32 if cfg['bits'] == 8 else 6), num_bits=cfg['bits'])
    if pin:
        dkw.update(stats_calc_period=-1, stats_calc_num_samples=M * P)
        rkw.update(stats_calc_period=-1, stats_calc_num_samples=M)
    dig = [[SpyReal(**dkw) for _ in range(npol)] for _ in range(na)]
    # decoys: filterbanks with the same coefficient count but a different taps/branches split (and another
    # window), built first, so that anything memoised at module level on too coarse a key is poisoned
    # deterministically -- whatever this worker process happened to run before
    for (m2, p2) in ((2 * M, P // 2), (M // 2, 2 * P)):
        if m2 >= 1 and p2 >= 2 and m2 * p2 == M * P and p2 % 2 == 0:
            v.PolyphaseFilterbank(num_taps=m2, num_branches=p2, window_fn=cfg.get('window', 'hamming'))
    v.PolyphaseFilterbank(num_taps=M, num_branches=P, window_fn='boxcar')
    fb = [[v.PolyphaseFilterbank(num_taps=M, num_branches=P, window_fn=cfg.get('window', 'hamming'))
           for _ in range(npol)] for _ in range(na)]
    rq = [[SpyComplex(**rkw) for _ in range(npol)] for _ in range(na)]
    if cfg.get('template'):
        # the documented common usage: ONE template object per stage, which the backend copies per antenna and
        # polarisation (spy classes survive the deep copy; the per-stream objects are read back from the backend)
        be = v.RawVoltageBackend(src, digitizer=SpyReal(**dkw),
                                 filterbank=v.PolyphaseFilterbank(num_taps=M, num_branches=P, window_fn=cfg.get('window', 'hamming')),
                                 requantizer=SpyComplex(**rkw),
                                 start_chan=cfg['start_chan'], num_chans=cfg['num_chans'],
                                 block_size=block_size_of(cfg), blocks_per_file=cfg['bpf'],
                                 num_subblocks=cfg['num_subblocks'])
        return be, src, be.digitizer, be.filterbank, be.requantizer
    be = v.RawVoltageBackend(src, digitizer=dig, filterbank=fb, requantizer=rq,
                             start_chan=cfg['start_chan'], num_chans=cfg['num_chans'],
                             block_size=block_size_of(cfg), blocks_per_file=cfg['bpf'],
                             num_subblocks=cfg['num_subblocks'])
    return be, src, dig, fb, rq


def pfb_definition(x, M, P, window):
    """FIR+DFT definition in long double.  x: 1-D real/complex of length S*P (S segments);
    returns complex longdouble array (S - M, P//2):
    X[n,k] = P^-1/2 sum_p (sum_m w[mP+p] x[(n+m)P+p]) exp(-2 pi i p k / P)."""
    x = np.asarray(x)
    S = len(x) // P
    xs = x[:S * P].reshape(S, P)
    w = np.asarray(window, dtype=LD).reshape(M, P)
    nspec = S - M
    if np.iscomplexobj(xs):
        acc = np.zeros((nspec, P), dtype=np.clongdouble)
        xs = xs.astype(np.clongdouble)
    else:
        acc = np.zeros((nspec, P), dtype=LD)
        xs = xs.astype(LD)
    for m in range(M):
        acc += xs[m:m + nspec, :] * w[m]
    p = np.arange(P, dtype=LD)
    k = np.arange(P // 2, dtype=LD)
    two_pi = 2 * np.arctan2(LD(0), LD(-1))          # 2*pi in long double
    ph = (p[:, None] * k[None, :]) % LD(P)
    E = np.cos(two_pi * ph / LD(P)) - 1j * np.sin(two_pi * ph / LD(P))
    return (acc.astype(np.clongdouble) @ E.astype(np.clongdouble)) / np.sqrt(LD(P))


def ref_window(M, P, name='hamming'):
    """Documented design: scipy firwin(M*P, cutoff=1/P, window, scale=True) * M*P."""
    import scipy.signal
    return scipy.signal.firwin(M * P, cutoff=1.0 / P, window=name, scale=True) * (M * P)


def quant_check(x, q, bits, tmean, tstd, dmean, dstd, tie_eps=1e-6):
    """Tie-tolerant check that q == clip(round((tstd/dstd)(x-dmean)+tmean)).  Returns (n_bad, worst, n_tie)."""
    x = np.asarray(x, dtype=LD)
    lo, hi = -2 ** (bits - 1), 2 ** (bits - 1) - 1
    if dstd == 0:
        factor = LD(0)
    else:
        factor = LD(tstd) / LD(dstd)
    y = factor * (x - LD(dmean)) + LD(tmean)
    yc = np.clip(y, lo - 0.5, hi + 0.5)
    q = np.asarray(q)
    d = np.abs(q.astype(LD) - yc)
    # eps scaled to conditioning: |y| * 2^-50 + tie_eps
    tol = 0.5 + tie_eps + np.abs(y) * LD(2.0) ** -45
    inrange = (q >= lo) & (q <= hi)
    bad = (d > tol) | ~inrange
    ties = np.abs(np.abs(y - np.floor(y)) - 0.5) < tie_eps
    return int(bad.sum()), float(d.max()) if d.size else 0.0, int(ties.sum())


def tap_complex_quantizer(q):
    """Log the calls of an EXISTING ComplexQuantizer (e.g. the one a backend built internally) without replacing it:
    the object keeps whatever configuration the library gave it."""
    q.calls = []
    orig = q.quantize

    def tapped(voltages, custom_stds=None):
        vin = np.array(voltages, copy=True)
        cs = None if custom_stds is None else np.array(custom_stds, copy=True)
        tm = (q.quantizer_r.target_mean, q.quantizer_i.target_mean)
        ts = (q.quantizer_r.target_std, q.quantizer_i.target_std)
        out = orig(voltages, custom_stds=custom_stds)
        q.calls.append(dict(x=vin, q=np.array(out, copy=True), custom_stds=cs, tmean=tm, tstd=ts, bits=q.num_bits,
                            bits_ri=(q.quantizer_r.num_bits, q.quantizer_i.num_bits),
                            stats_r=tuple(q.quantizer_r.stats_cache), stats_i=tuple(q.quantizer_i.stats_cache)))
        return out
    q.quantize = tapped
    return q


def unit_noise_channel_stds(M, P, window_name='hamming'):
    """Deviation of the real and of the imaginary parts of the channelised output (pooled over the P/2 lower channels)
    when the input is white real noise of unit variance -- computed from the filterbank DEFINITION:
    Re X_k = P^-1/2 sum_n w_n x_n cos(2 pi n k / P)  =>  var = (1/P) sum_n w_n^2 cos^2(2 pi n k / P)   (sin^2 for Im)."""
    w = np.asarray(ref_window(M, P, window_name), dtype=float)
    n = np.arange(M * P)
    vr = vi = 0.0
    for k in range(P // 2):
        ang = 2 * np.pi * (n % P) * k / P
        vr += np.sum(w ** 2 * np.cos(ang) ** 2) / P
        vi += np.sum(w ** 2 * np.sin(ang) ** 2) / P
    return np.sqrt(vr / (P // 2)), np.sqrt(vi / (P // 2))
