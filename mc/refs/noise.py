"""
Reference helpers for C11 (noise requests and noise bookkeeping).

* SpyGenerator: a Python subclass of np.random.Generator that logs every top-level request
  (method name, bound arguments, returned value).  np.random.default_rng(spy) returns the spy
  unchanged, so it can be handed to Frame / DataStream as `seed=`.
* clipped_stats: an independent numpy implementation of the documented estimator
  (astropy.stats.sigma_clip defaults: cenfunc=median, stdfunc=std, reject data < c - sigma*std or
  data > c + sigma*std, iterate until nothing is rejected or maxiters) followed by mean / std of
  the survivors.
* table / request utilities.

Written from the property statement and the astropy / numpy documentation.
"""
import numpy as np

_SKIP = ('bit_generator', 'spawn')

# positional parameter names of the Generator methods the noise code may legitimately use
_SIG = {
    'chisquare': ('df', 'size'),
    'normal': ('loc', 'scale', 'size'),
    'standard_normal': ('size', 'dtype', 'out'),
    'choice': ('a', 'size', 'replace', 'p', 'axis', 'shuffle'),
    'integers': ('low', 'high', 'size', 'dtype', 'endpoint'),
}
_DEFAULTS = {
    'chisquare': {'size': None},
    'normal': {'loc': 0.0, 'scale': 1.0, 'size': None},
    'standard_normal': {'size': None, 'dtype': np.float64, 'out': None},
    'choice': {'size': None, 'replace': True, 'p': None, 'axis': 0, 'shuffle': True},
    'integers': {'high': None, 'size': None, 'dtype': np.int64, 'endpoint': False},
}


class Request(object):
    __slots__ = ('name', 'args', 'out', 'raw')

    def __init__(self, name, args, out, raw):
        self.name, self.args, self.out, self.raw = name, args, out, raw

    def __repr__(self):
        def short(v):
            if isinstance(v, np.ndarray) and v.size > 4:
                return 'array%s' % (v.shape,)
            return repr(v)
        return '%s(%s)' % (self.name, ', '.join('%s=%s' % (k, short(v)) for k, v in sorted(self.args.items())
                                                if k in ('df', 'loc', 'scale', 'size', 'a', 'low', 'high')))


def _bind(name, a, k):
    if name not in _SIG:
        return None
    names = _SIG[name]
    if len(a) > len(names):
        return None
    d = dict(_DEFAULTS[name])
    d.update(dict(zip(names, a)))
    d.update(k)
    return d


class SpyGenerator(np.random.Generator):
    """PCG64-backed Generator that records every request made at the top level (nested calls that
    numpy makes internally, e.g. choice -> integers, are not recorded)."""

    def __new__(cls, seed):
        return super().__new__(cls, np.random.PCG64(seed))

    def __init__(self, seed):
        super().__init__(np.random.PCG64(seed))
        self.log = []
        self._depth = 0

    def take(self):
        out, self.log = self.log, []
        return out


def _mk(name):
    base = getattr(np.random.Generator, name)

    def f(self, *a, **k):
        self._depth += 1
        try:
            out = base(self, *a, **k)
        finally:
            self._depth -= 1
        if self._depth == 0:
            bound = _bind(name, a, k)
            if name == 'normal' and getattr(self, 'adversarial', True) and isinstance(out, np.ndarray) and out.size and bound:
                # the random source is an ENVIRONMENT the harness owns: it answers with a legitimate but rare deep-tail
                # value in the first slot (6 deviations below the mean), so that whatever the library promises for every
                # draw (e.g. "never below the floor") is exercised on small frames too
                try:
                    out.flat[0] = float(bound['loc']) - 6.0 * abs(float(bound['scale']))
                except (TypeError, ValueError):
                    pass
            self.log.append(Request(name, bound, out, (a, k)))
        return out
    f.__name__ = name
    return f


for _n in dir(np.random.Generator):
    if _n.startswith('_') or _n in _SKIP or not callable(getattr(np.random.Generator, _n)):
        continue
    setattr(SpyGenerator, _n, _mk(_n))


def as_shape(size):
    """Normalise a `size` argument to a tuple of ints (None -> None)."""
    if size is None:
        return None
    if isinstance(size, (int, np.integer)):
        return (int(size),)
    return tuple(int(s) for s in size)


# ------------------------------------------------------------------------------------------
def clipped_stats(data, sigma=3.0, maxiters=5, rtol=1e-11):
    """Return (mean, std, info) of the sigma-clipped data.

    info = {'iters': iterations that rejected something, 'removed': rejected count,
            'ambiguous': True if some sample lies within rtol*scale of a clipping bound, in which
            case a last-bit difference in median/std could flip the decision and the caller must
            not compare (soundness rule 2)}.
    """
    x = np.asarray(data, dtype=float).ravel()
    x = x[np.isfinite(x)]
    n0 = x.size
    iters = 0
    amb = False
    for _ in range(maxiters):
        if x.size == 0:
            break
        c = np.median(x)
        s = np.std(x)
        lo, hi = c - sigma * s, c + sigma * s
        if s > 0:
            tol = rtol * max(abs(lo), abs(hi), s)
            near = (np.abs(x - lo) <= tol) | (np.abs(x - hi) <= tol)
            if near.any():
                amb = True
        keep = ~((x < lo) | (x > hi))
        if keep.all():
            break
        x = x[keep]
        iters += 1
    if x.size == 0:
        return float('nan'), float('nan'), {'iters': iters, 'removed': n0, 'ambiguous': amb}
    return float(np.mean(x)), float(np.std(x)), {'iters': iters, 'removed': n0 - x.size, 'ambiguous': amb}


def close(a, b, rtol, scale=None):
    a, b = float(a), float(b)
    if scale is None:
        scale = max(abs(a), abs(b))
    return abs(a - b) <= rtol * max(scale, 1e-300)


def tables(lens, order, seed):
    """Three parameter tables (mean, std, min) whose entries are pairwise distinct *across all
    three tables*, so that the entry (and hence the index) used by the library is identifiable
    from the values it passes on.  order='gt': every mean exceeds every std; order='lt': every
    std exceeds every mean.  The content moves with the seed, the structure does not."""
    lm, ls, ln = lens
    o = 0.001 * (seed % 89)
    if order == 'gt':
        M = np.array([100.0 + 7.0 * i + o for i in range(lm)])
        S = np.array([3.0 + 0.37 * i + o for i in range(ls)])
    else:
        M = np.array([1.0 + 0.13 * i + o for i in range(lm)])
        S = np.array([3.0 + 0.37 * i + o for i in range(ls)])
    # floors straddle the means so that truncation is active for some indices and idle for others
    cen = float(np.mean(M))
    N = np.array([cen - 9.5 + 4.3 * i + 0.011 * i * i + o / 3 for i in range(ln)])
    allv = np.concatenate([M, S, N])
    srt = np.sort(allv)
    assert allv.size == 1 or np.min(np.diff(srt)) > 1e-6, 'tables not pairwise distinct'
    return M, S, N


def index_of(table, value, rtol=0.0):
    """Indices i with table[i] == value (within rtol)."""
    t = np.asarray(table, dtype=float)
    if rtol == 0.0:
        return np.nonzero(t == value)[0]
    return np.nonzero(np.abs(t - value) <= rtol * np.maximum(np.abs(t), abs(float(value))))[0]
