"""
C18 -- A cadence is a consistency-guarded list of frames with stable order labels.

E-HIST (explicit-state search on the REAL Cadence / OrderedCadence) + E-TLC cross-check (thorough tier).

* Level-synchronous breadth-first search over operation histories.  A state is rebuilt from FRESH frames by
  replaying its representative history on a real cadence; every enabled mutator is executed from every state
  (one transition each), every observer is evaluated in every state.  States are de-duplicated by the
  canonical key computed from the REAL object:
      (class, constructor variant, order string, tuple of pool names in cadence order, labels of all pool frames)
  which is the whole property-relevant state (frames' numeric content never changes; labels of frames that
  are not members are part of the key because labels are sticky and decide what a later insertion does).
* Oracle: mc/refs/cadence_list.py -- a plain Python list + label dict; it lists the ALLOWED outcomes of each
  operation (the property leaves a few things open, see that module's docstring) and the implementation must
  realise one of them.
* An operation that leaves the complete fingerprint of the world (list, order, every pool frame's metadata and
  t_start) unchanged does not force a rebuild: the next operation is executed on the same real object (the
  executed history then simply contains that no-op); any change -> the next transition starts from a fresh
  rebuild.  traces = number of complete histories executed from fresh frames.
* Thorough tier: TLC explores /verif/mc/tla/CadenceList.tla (the same machine written in TLA+), dumps its
  whole state graph, and EVERY op edge is replayed on a real OrderedCadence (and the label-free projection on a
  plain Cadence) rebuilt in the edge's source state.

The pool sharding needs the per-state results (successor keys) back in the main process, which ctx.pmap does
not return; `_pmap_collect` below mirrors ctx.pmap (ordered chunks over engine.pool(), results fed to
ctx.absorb) and returns them.  A worker exception propagates to mc.run -> HARNESS-ERROR, exit 2.
"""
import os, re, copy, json, math, time, shutil, subprocess

import numpy as np

from mc import engine
from mc.refs import cadence_list as R

PROPERTY = 'C18'
LEVEL = 'model_checking'

ORDERS = ['ABACAD', 'ABAB', 'A']
LETTERS = ['A', 'B', 'C', 'D', 'Z']
ITEMS = list(R.COMPAT_CLASS)                       # a b c | d e f g | n5 nN nA
EXT_Q = ['a', 'b', 'c', 'd', 'g', 'n5']            # extend([x, y]) pairs, quick tier
VIOL_CAP = 2                                       # violations listed per (site, failure) and expanded state
TLA_DIR = os.path.join(os.path.dirname(os.path.dirname(os.path.abspath(__file__))), 'tla')
# TLC configurations: (cfg file, TLA+ item id -> pool name (last = Bad), order string, description)
TLC_MODELS = [('CadenceList.cfg', ['a', 'b', 'c', 'd'], 'ABACAD', 'NItems=4, Bad=4, MaxLen=4, Order=ABACAD'),
              ('CadenceList_AB.cfg', ['a', 'b', 'd'], 'AB', 'NItems=3, Bad=3, MaxLen=3, Order=AB')]


# ---------------------------------------------------------------------------------------------- the pool
_TEMPLATES = {}


def _template(name, seed):
    """One really constructed Frame per (pool name, seed) and process."""
    import setigen as stg
    if (name, seed) not in _TEMPLATES:
        t0 = 1.7e9 + 1000.0 * (seed % 1000)
        base = dict(fchans=4, tchans=2, df=2.0, dt=1.0, fch1=1000.0, ascending=True)
        spec = {
            'a': dict(tchans=2, t_start=t0),
            'b': dict(tchans=3, t_start=t0 + 311.5),
            'c': dict(tchans=1, t_start=t0 + 702.25, ascending=False, fch1=1006.0),   # same fmin = 1000.0
            # near misses: a guard that compares with a tolerance (np.isclose, rounding) must not let these through
            'd': dict(df=2.0 + 2e-6, t_start=t0 + 1000.0),
            'e': dict(dt=1.0 + 1e-7, t_start=t0 + 1100.0),
            'f': dict(fchans=8, t_start=t0 + 1200.0),
            'g': dict(fch1=1000.0 + 1e-3, t_start=t0 + 1300.0),
        }
        kw = dict(base)
        kw.update(spec[name])
        fr = stg.Frame(**kw)
        fr.data[:] = float(seed % 7) + ord(name[0]) / 256.0
        # a user who looked at the frame before putting it into a cadence: derived quantities are read once here, so
        # that a value memoised on the frame is present (and must not go stale when the cadence re-times the frame)
        _ = (fr.t_stop, fr.fmid, fr.obs_length, fr.mjd)
        _TEMPLATES[(name, seed)] = (fr, json.dumps(sorted((a, repr(b)) for a, b in fr.metadata.items())), fr.t_start)
    return _TEMPLATES[(name, seed)]


def make_obj(name, seed):
    """A FRESH pool object.  Frames are tiny; compatibility classes follow refs.cadence_list.COMPAT_CLASS.
    VERIF_SEED only moves start times / data content.

    Frame() costs 0.2 ms (sigma clipping), which would dominate the search, so a fresh frame is a new object
    cloned from a per-process template that was built by the real constructor: new identity, own metadata dict,
    own data / ts arrays, own scalar attributes -- everything a cadence operation can touch is private to the
    clone (the template is checked to be untouched after every case)."""
    if R.is_frame(name):
        tpl = _template(name, seed)[0]
        fr = copy.copy(tpl)
        fr.metadata = dict(tpl.metadata)
        fr.data = tpl.data.copy()
        fr.ts = tpl.ts.copy()
        if name in 'defg':
            # deterministic process history: every incompatible frame has already been a LEGITIMATE member of another
            # cadence (alone), so a guard that remembers "already validated" frames is poisoned in every process alike
            import setigen as stg
            try:
                stg.Cadence([fr])
                stg.OrderedCadence([], order='ABACAD')
            except Exception:
                pass
            fr.metadata = dict(tpl.metadata)
        return fr
    if name == 'n5':
        return 5
    if name == 'nN':
        return None
    if name == 'nA':
        return np.zeros((2, 4))
    raise ValueError(name)


def _templates_untouched():
    for (name, seed), (fr, meta, t0) in _TEMPLATES.items():
        if json.dumps(sorted((a, repr(b)) for a, b in fr.metadata.items())) != meta or fr.t_start != t0:
            raise engine.HarnessError('template frame %s was modified' % name)


class World(object):
    """One fresh universe: lazily created pool objects + the real cadence under test."""
    def __init__(self, cls, variant, seed):
        self.cls, self.variant, self.seed = cls, variant, seed
        self.objs = {}
        self.name_of = {}
        self.cad = None

    def get(self, name):
        if name not in self.objs:
            o = make_obj(name, self.seed)
            self.objs[name] = o
            if R.is_frame(name):
                self.name_of[id(o)] = name
        return self.objs[name]

    def names(self, seq):
        return [self.name_of.get(id(x), '?' + type(x).__name__) for x in seq]

    def labels(self):
        return {k: (self.objs[k].metadata.get('order_label') if k in self.objs else None) for k in R.FRAMES}

    def observe(self):
        return self.names(self.cad.frames), self.labels(), getattr(self.cad, 'order', None)

    def key(self):
        n, l, o = self.observe()
        return json.dumps([self.cls, self.variant, o, n, [l[k] for k in R.FRAMES]])

    def fingerprint(self):
        """Everything a cadence operation could have touched (used to decide whether a rebuild is needed and
        whether observers / rejected operations left the world alone)."""
        n, l, o = self.observe()
        fr = tuple((k, tuple(self.objs[k].metadata.items()), self.objs[k].t_start)
                   for k in sorted(self.objs) if R.is_frame(k))
        return (o, tuple(n), fr, repr(getattr(self.cad, 't_slew', None)), repr(getattr(self.cad, 't_overwrite', None)))


def _construct(w, op):
    import setigen as stg
    names, order = op[1], op[2]
    kw = {}
    if names is not None:
        kw['frame_list'] = [w.get(x) for x in names]
    if w.cls == 'O':
        kw['order'] = order
    if w.variant == 'overwrite':
        kw.update(t_slew=30.0, t_overwrite=True)
    C = stg.OrderedCadence if w.cls == 'O' else stg.Cadence
    w.cad = C(**kw)


def _exec(w, op):
    """Execute one operation on the real object.  Library exceptions are outcomes, not errors."""
    k = op[0]
    ret = None
    if k != 'new' and getattr(w, 'cad', None) is not None:
        # read-then-mutate: the aggregate observers are read BEFORE every mutation too, so that a value memoised on a
        # read and not invalidated by the mutation is seen as stale by the observers evaluated afterwards
        for attr in ('tchans', 'obs_range', 'slew_times', 't_start', 'fchans', 'fmin', 'df', 'dt'):
            try:
                getattr(w.cad, attr)
            except Exception:
                pass
        try:
            len(w.cad); list(iter(w.cad))
        except Exception:
            pass
        for sel in ([0], np.array([0]), (0,), slice(None), [-1], []):
            try:
                w.cad[sel]
            except Exception:
                pass
        if hasattr(w.cad, 'by_label'):
            try:
                w.cad.by_label('A')
            except Exception:
                pass
    try:
        if k == 'new':
            _construct(w, op)
        elif k == 'append':
            w.cad.append(w.get(op[1]))
        elif k == 'extend':
            w.cad.extend([w.get(x) for x in op[1]])
        elif k == 'insert':
            w.cad.insert(op[1], w.get(op[2]))
        elif k == 'set':
            w.cad[op[1]] = w.get(op[2])
        elif k == 'del':
            del w.cad[op[1]]
        elif k == 'delslice':
            del w.cad[slice(op[1], op[2], op[3])]
        elif k == 'pop':
            ret = w.cad.pop()
        elif k == 'popi':
            ret = w.cad.pop(op[1])
        elif k == 'set_order':
            w.cad.set_order(op[1])
        else:
            raise ValueError(op)
    except Exception as e:                      # noqa -- every library exception is an observable outcome
        if isinstance(e, ValueError) and e.args and e.args[0] is op:
            raise
        return type(e).__name__, str(e)[:120], None
    return None, '', (w.names([ret])[0] if ret is not None else None)


_METHOD = {'new': '__init__', 'append': 'append', 'extend': 'extend', 'insert': 'insert', 'set': '__setitem__',
           'del': '__delitem__', 'delslice': '__delitem__', 'pop': 'pop', 'popi': 'pop', 'set_order': 'set_order'}


def _site(cls, method):
    """API entry point: the class of the cadence family that DEFINES the method (stable across subclasses)."""
    import setigen as stg
    C = stg.OrderedCadence if cls == 'O' else stg.Cadence
    for k in C.__mro__:
        if k.__name__ in ('OrderedCadence', 'Cadence') and method in k.__dict__:
            return '%s.%s' % (k.__name__, method)
    return '%s.%s' % (C.__name__, method)


def _failure(reason, chosen, exc, arg_in_result):
    if reason == 'raised':
        return 'raised_on_valid_op'
    if reason == 'no_raise':
        return 'accepted_invalid' if chosen.exc == 'guard' else 'no_index_error'
    if reason == 'exc_type':
        return 'wrong_exception'
    if reason == 'list':
        return 'list_mismatch' if exc is None else 'list_changed_by_rejected_op'
    if reason == 'ret':
        return 'wrong_return'
    if reason.startswith('label:'):
        return 'wrong_label' if (exc is None and arg_in_result) else 'stale_label'
    if reason == 'order':
        return 'order_mismatch'
    return reason


def step(w, st, op):
    """Run op on the real world and judge it.  Returns (new_ref_state | None, violation | None, outcome key)."""
    outs = R.predict(st, op)
    exc, msg, ret = _exec(w, op)
    if op[0] == 'new' and exc is not None:
        # no object exists; the only demand is that an exception was allowed
        okk = any(o.exc is not None for o in outs)
        v = None
        if not okk:
            v = {'site': _site(w.cls, '__init__'), 'failure': 'raised_on_valid_op',
                 'detail': 'constructor %r raised %s: %s' % (op, exc, msg)}
        return None, v, 'new:raise:%s' % exc
    names, labels, order = w.observe()
    for o in outs:
        if not R.fits(o, exc, names, labels, order, ret):
            nst = {'ordered': st['ordered'], 'order': order, 'lst': names, 'labels': labels}
            lab_new = sorted('%s=%s' % (k, labels[k]) for k in labels if labels[k] != st['labels'][k])
            okey = '%s:%s:%s:%s%s' % (op[0], exc or 'ok', 'chg' if names != st['lst'] else 'same',
                                      ','.join(x.split('=')[1] for x in lab_new), ':' + o.note.split(' ')[0] if o.note else '')
            return nst, None, okey
    same_kind = [o for o in outs if (o.exc is None) == (exc is None)]
    chosen = same_kind[0] if same_kind else outs[0]
    reason = R.fits(chosen, exc, names, labels, order, ret)
    arg = op[2] if op[0] in ('insert', 'set') else (op[1] if op[0] == 'append' else None)
    arg_in = True if arg is None else (isinstance(arg, str) and arg in names)
    fail = _failure(reason, chosen, exc, arg_in)
    exp_lab = {k: (sorted(v) if isinstance(v, frozenset) else v) for k, v in chosen.lab.items()
               if not R.label_fits(v, labels.get(k))}
    detail = ('%s %s in state list=%s labels=%s order=%r: observed exc=%s(%s) list=%s labels=%s order=%r ret=%s; '
              'allowed: exc=%s list=%s%s%s' % (
                  'OrderedCadence' if w.cls == 'O' else 'Cadence', json.dumps(op), st['lst'],
                  {k: v for k, v in st['labels'].items() if v}, st['order'], exc, msg, names,
                  {k: v for k, v in labels.items() if v}, order, ret, chosen.exc, chosen.lst,
                  (' labels ' + json.dumps(exp_lab)) if exp_lab else '',
                  (' [%d alternative outcome(s) also rejected]' % (len(outs) - 1)) if len(outs) > 1 else ''))
    v = {'site': _site(w.cls, _METHOD[op[0]]), 'failure': fail, 'detail': detail}
    return None, v, '%s:VIOL:%s' % (op[0], fail)


def rebuild(cls, variant, seed, hist):
    """Fresh frames + replay of the representative history (reference in lock-step)."""
    w = World(cls, variant, seed)
    st = R.new_state(cls == 'O', hist[0][2] if cls == 'O' else None)
    for op in hist:
        st, v, _ = step(w, st, op)
        if v is not None or st is None:
            raise engine.HarnessError('replay of an accepted history failed at %r: %r' % (op, v))
    return w, st


# ---------------------------------------------------------------------------------------------- alphabet
def mutators(n, ordered, tier):
    """Every mutator instance offered in a state of length n (simplest first)."""
    idx = list(range(-n - 2, n + 3))
    yield ['pop']
    for x in ITEMS:
        yield ['append', x]
    for i in idx:
        yield ['del', i]
    for i in idx:
        yield ['popi', i]
    for i in idx:
        for x in ITEMS:
            yield ['set', i, x]
    for i in idx:
        for x in ITEMS:
            yield ['insert', i, x]
    ext = ITEMS if tier == 'thorough' else EXT_Q
    yield ['extend', []]
    for x in ext:
        yield ['extend', [x]]
    for x in ext:
        for y in ext:
            yield ['extend', [x, y]]
    if tier == 'thorough':
        for t in (['a', 'b', 'a'], ['a', 'b', 'd'], ['b', 'b', 'c'], ['a', 'n5', 'b'], ['c', 'a', 'b']):
            yield ['extend', t]
    # del c[slice]: start, stop in {None} u [-n-1, n+1], step in {None, 2, -1, -2}; one representative per distinct
    # set of deleted positions (thorough: per distinct set AND step).  Selection observers use every slice.
    seen = set()
    lim = list(range(-n - 1, n + 2))
    for step_ in (None, 2, -1, -2):
        for a in [None] + lim:
            for b in [None] + lim:
                sig = tuple(range(*slice(a, b, step_).indices(n)))
                if tier == 'thorough':
                    sig = (step_, sig)
                if sig in seen:
                    continue
                seen.add(sig)
                yield ['delslice', a, b, step_]
    if ordered:
        for o in ORDERS:
            yield ['set_order', o]


def roots(cls, tier):
    """Constructor calls: no argument, and every list of length <= 2 over the whole pool (thorough: + length 3
    over a reduced pool)."""
    orders = ORDERS if cls == 'O' else [None]
    for o in orders:
        yield ['new', None, o]
        yield ['new', [], o]
        for x in ITEMS:
            yield ['new', [x], o]
        for x in ITEMS:
            for y in ITEMS:
                yield ['new', [x, y], o]
        if tier == 'thorough':
            red = ['a', 'b', 'c', 'd', 'n5']
            for x in red:
                for y in red:
                    for z in red:
                        yield ['new', [x, y, z], o]


# ---------------------------------------------------------------------------------------------- observers
def _close(a, b, scale):
    return abs(float(a) - float(b)) <= 8 * math.ulp(max(abs(float(scale)), 1.0))


def _selection_is_a_cadence(w, cad, r, want, L, V, gsite, desc, extra=None):
    """A selection result is itself a cadence (a list of the selected frames): deleting its first / popping its last
    member behaves as on the plain list `want`, and the cadence it was selected from still holds L."""
    if not want or not hasattr(r, 'frames'):
        return 0
    try:
        del r[0]
        got = w.names(list(r.frames))
        exp = list(want[1:])
        if exp:
            r.pop()
            got = w.names(list(r.frames))
            exp = exp[:-1]
    except Exception as e:
        V(gsite, 'selection_not_a_list', '%s on list %s: deleting from / popping the selected cadence raised %s: %s'
          % (desc, L, type(e).__name__, e), params_extra=extra)
        return 1
    if got != exp:
        V(gsite, 'selection_not_a_list', '%s on list %s: after del [0] and pop() the selected cadence holds %s, a list gives %s'
          % (desc, L, got, exp), params_extra=extra)
    if w.names(list(cad.frames)) != L:
        V(gsite, 'selection_shares_list', '%s on list %s: deleting from the selected cadence changed the cadence it was taken from to %s'
          % (desc, L, w.names(list(cad.frames))), params_extra=extra)
    return 1


def observe_all(w, st, V, out):
    """Every observer in the current state.  Returns the number of oracle comparisons."""
    import setigen as stg
    cad = w.cad
    L = st['lst']
    n = len(L)
    cname = type(cad).__name__
    ne = 0
    # len / iteration
    ne += 2
    if len(cad) != n:
        V('%s.__len__' % cname, 'len_mismatch', 'len=%r, list has %d' % (len(cad), n))
    it = w.names(list(iter(cad)))
    if it != L:
        V('%s.__iter__' % cname, 'iteration_mismatch', 'iteration gives %s, list is %s' % (it, L))
    gsite = _site(w.cls, '__getitem__')
    # integer selection
    for i in range(-n - 2, n + 3):
        for form, ii in (('int', i), ('np.int64', np.int64(i))):
            ne += 1
            p = R.item_pos(i, n)
            try:
                got = w.names([cad[ii]])[0]
                exc = None
            except Exception as e:
                got, exc = None, type(e).__name__
            if p is None:
                if exc != 'IndexError':
                    V(gsite, 'no_index_error', 'c[%s(%d)] on list %s: got %s / %s, list raises IndexError' % (form, i, L, got, exc))
                out.add('get:IndexError')
            else:
                if exc is not None or got != L[p]:
                    V(gsite, 'item_mismatch', 'c[%s(%d)] on list %s: got %s / %s, expected %s' % (form, i, L, got, exc, L[p]))
                out.add('get:ok')
    # slices
    lim = [None] + list(range(-n - 1, n + 2))
    for s_ in (None, 1, 2, -1, -2):
        for a in lim:
            for b in lim:
                ne += 1
                sl = slice(a, b, s_)
                want = L[sl]
                try:
                    r = cad[sl]
                except Exception as e:
                    V(gsite, 'selection_raised', 'c[%r] on list %s raised %s: %s' % (sl, L, type(e).__name__, e))
                    continue
                if type(r) is not type(cad):
                    V(gsite, 'selection_class', 'c[%r] is a %s, the cadence is a %s' % (sl, type(r).__name__, cname))
                got = w.names(list(r.frames)) if hasattr(r, 'frames') else None
                if got != want:
                    V(gsite, 'selection_mismatch', 'c[%r] on list %s holds %s, list gives %s' % (sl, L, got, want))
                elif s_ in (None, -1):
                    ne += _selection_is_a_cadence(w, cad, r, want, L, V, gsite, 'c[%r]' % (sl,))
                out.add('slice:%d' % min(len(want), 3))
    # index collections: list / ndarray / tuple
    rng = list(range(-n - 1, n + 1))
    colls = [[]] + [[i] for i in rng] + [[i, j] for i in rng for j in rng]
    if n >= 3:
        colls += [list(range(n - 1, -1, -1)), list(range(0, n, 2)), [0] * (n + 1)]
    for idxs in colls:
        bad = any(R.item_pos(i, n) is None for i in idxs)
        want = None if bad else [L[R.item_pos(i, n)] for i in idxs]
        for form in ('list', 'ndarray', 'tuple'):
            ne += 1
            arg = list(idxs) if form == 'list' else (np.array(idxs, dtype=np.int64) if form == 'ndarray' else tuple(idxs))
            try:
                r = cad[arg]
                exc = None
            except Exception as e:
                r, exc = None, e
            if bad:
                if not isinstance(exc, IndexError):
                    V(gsite, 'no_index_error', 'c[%s %s] on list %s: %s, a position is out of range'
                      % (form, idxs, L, 'returned' if exc is None else type(exc).__name__))
                out.add('sel:%s:IndexError' % form)
                continue
            if exc is not None:
                V(gsite, 'selection_raised', 'c[%s %s] on list %s raised %s: %s (expected the frames at those positions: %s)'
                  % (form, idxs, L, type(exc).__name__, exc, want), params_extra={'form': form})
                continue
            if type(r) is not type(cad):
                V(gsite, 'selection_class', 'c[%s %s] is a %s, the cadence is a %s' % (form, idxs, type(r).__name__, cname),
                  params_extra={'form': form})
                continue
            got = w.names(list(r.frames))
            if got != want:
                V(gsite, 'selection_mismatch', 'c[%s %s] on list %s holds %s, expected %s' % (form, idxs, L, got, want),
                  params_extra={'form': form})
            else:
                ne += _selection_is_a_cadence(w, cad, r, want, L, V, gsite, 'c[%s %s]' % (form, idxs), {'form': form})
            out.add('sel:%s:%d' % (form, len(want)))
    # boolean masks of the cadence's length (numpy index-array semantics: the frames where the mask is set, in order)
    import itertools as _it
    for mask in (_it.product((False, True), repeat=n) if 1 <= n <= 5 else ()):
        want = [L[k] for k in range(n) if mask[k]]
        for form in ('list', 'ndarray'):
            ne += 1
            arg = list(mask) if form == 'list' else np.array(mask, dtype=bool)
            try:
                r = cad[arg]
            except Exception as e:
                V(gsite, 'selection_raised', 'c[%s mask %s] on list %s raised %s: %s (expected the frames where the mask is set: %s)'
                  % (form, list(mask), L, type(e).__name__, e, want), params_extra={'form': form})
                continue
            got = w.names(list(r.frames))
            if type(r) is not type(cad) or got != want:
                V(gsite, 'selection_mismatch', 'c[%s mask %s] on list %s holds %s, expected %s' % (form, list(mask), L, got, want),
                  params_extra={'form': form})
            else:
                ne += _selection_is_a_cadence(w, cad, r, want, L, V, gsite, 'c[%s mask %s]' % (form, list(mask)), {'form': form})
            out.add('sel:mask:%d' % len(want))
    # selection by label
    amb = 0
    if st['ordered']:
        if any(st['labels'][x] is None for x in L):
            amb += len(LETTERS)                    # a member without label: by_label not specified
        else:
            for letter in LETTERS:
                ne += 1
                want = R.by_label(st, letter)
                try:
                    r = cad.by_label(letter)
                except Exception as e:
                    V('OrderedCadence.by_label', 'by_label_raised', 'by_label(%r) on list %s raised %s: %s'
                      % (letter, L, type(e).__name__, e))
                    continue
                if not isinstance(r, stg.Cadence):
                    V('OrderedCadence.by_label', 'by_label_class', 'by_label returns a %s' % type(r).__name__)
                    continue
                got = w.names(list(r.frames))
                if got != want:
                    V('OrderedCadence.by_label', 'by_label_mismatch',
                      'by_label(%r) on list %s labels %s gives %s, expected %s'
                      % (letter, L, [st['labels'][x] for x in L], got, want))
                out.add('by_label:%d' % len(want))
    # aggregates (only for a non-empty cadence; what an empty cadence reports is not part of the property)
    if n >= 1:
        fr = [w.objs[x] for x in L]
        ne += 1
        try:
            if cad.tchans != sum(f.tchans for f in fr):
                V('Cadence.tchans', 'aggregate_mismatch', 'tchans=%r, members have %s' % (cad.tchans, [f.tchans for f in fr]))
            # the members' stop times from their own start time and extent (not from a possibly memoised attribute)
            tstop = [f.t_start + f.tchans * f.dt for f in fr]
            scale = max(abs(x) for x in tstop)
            want = tstop[-1] - fr[0].t_start
            if not _close(cad.obs_range, want, scale):
                V('Cadence.obs_range', 'aggregate_mismatch', 'obs_range=%r, members give %r' % (cad.obs_range, want))
            sw = np.asarray(cad.slew_times)
            wsw = [fr[i].t_start - tstop[i - 1] for i in range(1, n)]
            if sw.shape != (n - 1,) or any(not _close(sw[i], wsw[i], scale) for i in range(n - 1)):
                V('Cadence.slew_times', 'aggregate_mismatch', 'slew_times=%r, members give %r' % (sw.tolist(), wsw))
            if cad.t_start != fr[0].t_start:
                V('Cadence.t_start', 'aggregate_mismatch', 't_start=%r, first member has %r' % (cad.t_start, fr[0].t_start))
            for attr in ('df', 'dt', 'fchans', 'fmin'):
                if any(getattr(cad, attr) != getattr(f, attr) for f in fr):
                    V('Cadence.%s' % attr, 'aggregate_mismatch', '%s=%r, members have %s'
                      % (attr, getattr(cad, attr), [getattr(f, attr) for f in fr]))
            out.add('agg:%d:%d' % (cad.tchans, len(sw)))
        except Exception as e:
            V('Cadence.aggregates', 'aggregate_raised', 'aggregate property raised %s: %s on list %s' % (type(e).__name__, e, L))
    return ne, amb


# ---------------------------------------------------------------------------------------------- one state
def case_state(c):
    """Expand ONE state: rebuild it, run every observer, execute every enabled mutator."""
    cls, variant, seed, hist = c['cls'], c['variant'], c['seed'], c['hist']
    viol, out, succ = [], set(), []
    nseen = {}
    ne = trans = traces = amb = 0

    def V(site, failure, detail, op=None, params_extra=None):
        # at most VIOL_CAP violations per (site, failure) and state are shipped; the rest is only counted
        nseen[(site, failure)] = nseen.get((site, failure), 0) + 1
        if nseen[(site, failure)] > VIOL_CAP:
            return
        p = {'cls': cls, 'variant': variant, 'hist': hist, 'op': op, 'opname': op[0] if op else 'observe'}
        if params_extra:
            p.update(params_extra)
        viol.append({'site': site, 'failure': failure, 'detail': detail, 'params': p})

    if c.get('root'):
        # the constructor call itself is the transition from "nothing"; the state it creates is expanded later
        w = World(cls, variant, seed)
        st0 = R.new_state(cls == 'O', hist[0][2] if cls == 'O' else None)
        st, v, okey = step(w, st0, hist[0])
        if v is not None:
            v['params'] = {'cls': cls, 'variant': variant, 'hist': [], 'op': hist[0], 'opname': 'new'}
            viol.append(v)
        return {'viol': viol, 'outcomes': [okey], 'n': 1, 'transitions': 1, 'traces': 1,
                'key': None if (v is not None or st is None) else w.key(), 'succ': []}
    w, st = rebuild(cls, variant, seed, hist)
    traces += 1
    if w.key() != c['key']:
        raise engine.HarnessError('replayed history %r gives state %s, recorded %s' % (hist, w.key(), c['key']))
    key0 = w.key()
    fp0 = w.fingerprint()
    k, a = observe_all(w, st, V, out)
    ne += k
    amb += a
    if w.fingerprint() != fp0:
        V(_site(cls, '__getitem__'), 'observer_mutated_state', 'observers changed the state: %r -> %r' % (fp0, w.fingerprint()))
        w, st = rebuild(cls, variant, seed, hist)
        traces += 1
    if c.get('expand', True):
        dirty = False
        for op in mutators(len(st['lst']), cls == 'O', c['tier']):
            prim = R.predict(st, op)
            if max(len(o.lst) for o in prim) > c['lmax']:
                continue                            # outside the declared length bound
            if dirty:
                w, st = rebuild(cls, variant, seed, hist)
                traces += 1
                dirty = False
            nst, v, okey = step(w, st, op)
            trans += 1
            ne += 1
            out.add(okey)
            if v is not None:
                nseen[(v['site'], v['failure'])] = nseen.get((v['site'], v['failure']), 0) + 1
                if nseen[(v['site'], v['failure'])] <= VIOL_CAP:
                    v['params'] = {'cls': cls, 'variant': variant, 'hist': hist, 'op': op, 'opname': op[0]}
                    viol.append(v)
                dirty = True
                continue
            if w.fingerprint() != fp0:
                dirty = True
                k1 = w.key()
                if k1 != key0:
                    succ.append([k1, op])
    res = {'viol': viol, 'outcomes': sorted(out), 'n': ne, 'transitions': trans, 'traces': traces, 'ambiguous': amb,
           'key': key0, 'succ': succ}
    dropped = sum(max(0, k - VIOL_CAP) for k in nseen.values())
    if dropped:
        res['extra'] = {'violations_counted_but_not_listed': dropped}
    if len(st['lst']) >= 2:
        res['nontrivial'] = [key0]
    return res


# ---------------------------------------------------------------------------------------------- pool plumbing
def _chunk_call(chunk):
    out = [case_state(c) for c in chunk]
    _templates_untouched()
    return out


def _pmap_collect(ctx, cases, offset):
    """ctx.pmap for case_state, but the per-case results come back (ordered)."""
    n = len(cases)
    if n == 0:
        return []
    if n < 4 or engine.NPROC == 1:
        results = [case_state(c) for c in cases]
    else:
        ch = max(1, min(64, n // (engine.NPROC * 8)))
        chunks = [cases[i:i + ch] for i in range(0, n, ch)]
        results = []
        for res in engine.pool().imap(_chunk_call, chunks):
            results.extend(res)
    for i, r in enumerate(results):
        ctx.absorb({k: v for k, v in r.items() if k not in ('key', 'succ')}, fn=case_state, case=cases[i],
                   idx=offset + i)
    return results


def bfs(ctx, cls, variant, lmax, depth):
    """Level-synchronous BFS.  depth = maximal history length (constructor call included).  States reached by a
    shorter history are observed and expanded; states first reached by a history of exactly that length are
    observed only.  Returns (number of distinct states, longest history, fixpoint reached?)."""
    seen = {}
    offset = getattr(ctx, '_c18_offset', 0)
    base = dict(cls=cls, variant=variant, seed=ctx.seed, lmax=lmax, tier=ctx.tier)
    level = [dict(base, hist=[op], root=True) for op in roots(cls, ctx.tier)]
    res = _pmap_collect(ctx, level, offset)
    offset += len(level)
    frontier = []
    for c, r in zip(level, res):
        if r['key'] is not None and r['key'] not in seen:
            seen[r['key']] = c['hist']
            frontier.append((r['key'], c['hist']))
    d = 1
    while frontier:
        cases = [dict(base, hist=h, key=k, expand=(d < depth)) for k, h in frontier]
        t_ = time.time()
        res = _pmap_collect(ctx, cases, offset)
        if os.environ.get('C18_DEBUG'):
            print('  %s/%s length %d: %d states %s in %.1fs' % (cls, variant, d, len(cases), 'expanded' if d < depth else 'observed', time.time() - t_), flush=True)
        offset += len(cases)
        if len(ctx.samples) < 10:
            ctx.samples.append({'fn': 'case_state', 'case': cases[len(cases) // 2]})
        nxt = []
        for c, r in zip(cases, res):
            for k1, op in r['succ']:
                if k1 not in seen:
                    seen[k1] = c['hist'] + [op]
                    nxt.append((k1, seen[k1]))
        frontier = nxt
        if frontier:
            d += 1
        if ctx.deadline and time.time() > ctx.deadline and frontier:
            ctx.cap_hit = True
            ctx.exhaustive = False
            ctx.notes.append('wall-clock cap hit in %s/%s: histories of length < %d fully expanded' % (cls, variant, d))
            break
    ctx._c18_offset = offset
    return len(seen), d, (d < depth)


# ---------------------------------------------------------------------------------------------- E-TLC
_NODE = re.compile(r'^(-?\d+) \[label="(.*?)",(?:style|tooltip)')
_EDGE = re.compile(r'^(-?\d+) -> (-?\d+) \[label="([^"]*)"')
_LAST = re.compile(r'last = \[(.*?)\]')
_SEQ = re.compile(r'seq = <<(.*?)>>')
_LAB = re.compile(r'lab = <<(.*?)>>')


def run_tlc(wd, cfg):
    for f in ('CadenceList.tla', cfg):
        shutil.copy(os.path.join(TLA_DIR, f), os.path.join(wd, f))
    meta = os.path.join(wd, 'meta')
    out = os.path.join(wd, 'graph')
    t0 = time.time()
    r = subprocess.run(['tlc', '-workers', '1', '-noGenerateSpecTE', '-metadir', meta, '-deadlock',
                        '-config', cfg, '-dump', 'dot,actionlabels', out, 'CadenceList'],
                       cwd=wd, capture_output=True, text=True, timeout=1500)
    txt = r.stdout + r.stderr
    m = re.search(r'(\d+) states generated, (\d+) distinct states found, 0 states left on queue', txt)
    if r.returncode != 0 or 'No error has been found' not in txt or not m:
        raise engine.HarnessError('TLC failed (rc=%d):\n%s' % (r.returncode, txt[-3000:]))
    shutil.rmtree(meta, ignore_errors=True)
    return out + '.dot', int(m.group(1)), int(m.group(2)), time.time() - t0


def parse_dot(path):
    nodes, edges = {}, set()
    order = []
    with open(path) as f:
        for line in f:
            m = _EDGE.match(line)
            if m:
                e = (m.group(1), m.group(2), m.group(3))
                if e not in edges:
                    edges.add(e)
                    order.append(e)
                continue
            m = _NODE.match(line)
            if m:
                lbl = m.group(2).replace('\\"', '"')
                last = dict(kv.split(' |-> ') for kv in _LAST.search(lbl).group(1).split(', '))
                last = {k: (v.strip('"') if v.startswith('"') else int(v)) for k, v in last.items()}
                seq = [int(x) for x in _SEQ.search(lbl).group(1).split(', ') if x]
                lab = [x.strip('"') for x in _LAB.search(lbl).group(1).split(', ')]
                nodes[m.group(1)] = (seq, lab, last)
    return nodes, order


def _tlc_op(last, items):
    """TLA+ history record -> check operation (items[k-1] = pool name of TLA+ item k)."""
    o, i, x = last['op'], last['i'], last['x']
    if o == 'append':
        return ['append', items[x - 1]]
    if o == 'insert':
        return ['insert', i, items[x - 1]]
    if o == 'set':
        return ['set', i, items[x - 1]]
    if o == 'del':
        return ['del', i]
    if o == 'popi':
        return ['popi', i]
    if o == 'pop':
        return ['pop']
    raise engine.HarnessError('unknown TLA+ op %r' % (last,))


def tlc_cases(nodes, edges, seed, items, order):
    """One case per quiescent (Idle) node: its path from Init and all its outgoing op edges."""
    idle = {k for k, v in nodes.items() if v[2]['op'] == 'idle'}
    parent = {}
    init = None
    for k in idle:
        if nodes[k][0] == [] and all(l == 'none' for l in nodes[k][1]):
            init = k
    if init is None:
        raise engine.HarnessError('no initial state in the TLC dump')
    outg = {}
    nret = 0
    for s, t, lbl in edges:
        if lbl.startswith('Ret'):
            nret += 1
            if nodes[s][0] != nodes[t][0] or nodes[s][1] != nodes[t][1] or t not in idle or s in idle:
                raise engine.HarnessError('Ret edge changes the abstract state: %s -> %s' % (nodes[s], nodes[t]))
            if t not in parent and t != init:
                parent[t] = s
        else:
            if s not in idle or t in idle:
                raise engine.HarnessError('op edge not from Idle to a described state')
            # the edge label printed by TLC must agree with the history variable of the target
            la = nodes[t][2]
            want = {'append': 'DoAppend(%d)' % la['x'], 'insert': 'DoInsert(%d,%d)' % (la['i'], la['x']),
                    'set': 'DoSet(%d,%d)' % (la['i'], la['x']), 'del': 'DoDel(%d)' % la['i'],
                    'popi': 'DoPop(%d)' % la['i'], 'pop': 'DoPopLast'}[la['op']]
            if '(' in lbl and lbl.replace(' ', '') != want:
                raise engine.HarnessError('edge label %r disagrees with history variable %r' % (lbl, la))
            if t not in parent:
                parent[t] = s
            outg.setdefault(s, []).append(t)

    def path(k):
        ops = []
        while k != init:
            if nodes[k][2]['op'] != 'idle':   # a described state: the op that led here from its Idle parent
                ops.append(_tlc_op(nodes[k][2], items))
            k = parent[k]
            if len(ops) > 64:
                raise engine.HarnessError('cyclic parent chain in the TLC dump')
        return ops[::-1]
    cases = []
    seen_seq = set()
    for k in sorted(idle, key=lambda q: (len(nodes[q][0]), nodes[q][0], nodes[q][1])):
        seq, lab, _ = nodes[k]
        ed = [[nodes[t][2]['op'], nodes[t][2]['i'], nodes[t][2]['x'], nodes[t][2]['res'], nodes[t][0], nodes[t][1]]
              for t in outg.get(k, [])]
        plain = tuple(seq) not in seen_seq
        seen_seq.add(tuple(seq))
        cases.append({'seed': seed, 'seq': seq, 'lab': lab, 'path': path(k), 'edges': ed, 'plain': plain,
                      'items': items, 'order': order})
    return cases, len(idle), nret


def _tlc_build(cls, seed, path, order):
    w = World(cls, 'plain', seed)
    _construct(w, ['new', None, order])
    for op in path:
        exc, msg, _ = _exec(w, op)
        if exc is not None:
            return w, 'path op %r raised %s: %s' % (op, exc, msg)
    return w, None


def _tlc_state(w, items):
    names, labels, _ = w.observe()
    inv = {v: k + 1 for k, v in enumerate(items)}
    return [inv.get(x, x) for x in names], [labels[x] or 'none' for x in items]


def case_tlc(c):
    """Replay every outgoing op edge of one TLC state on a real OrderedCadence (and, once per distinct item
    sequence, on a plain Cadence, ignoring labels)."""
    viol, out = [], set()
    nrep = traces = 0
    items = c['items']
    for cls in (['O', 'C'] if c['plain'] else ['O']):
        w = None
        for e in c['edges']:
            o, i, x, res, dseq, dlab = e
            op = _tlc_op({'op': o, 'i': i, 'x': x}, items)
            if w is None:
                w, err = _tlc_build(cls, c['seed'], c['path'], c['order'])
                traces += 1
                src = _tlc_state(w, items)
                if err or src[0] != c['seq'] or (cls == 'O' and src[1] != c['lab']):
                    viol.append({'site': 'TLC.path', 'failure': 'source_state_mismatch',
                                 'detail': '%s: path %s gives %s (%s), TLC state is %s %s'
                                           % (cls, c['path'], src, err, c['seq'], c['lab']),
                                 'params': {'cls': cls, 'path': c['path']}})
                    break
                fp0 = w.fingerprint()
            exc, msg, ret = _exec(w, op)
            nrep += 1
            got = _tlc_state(w, items)
            ok = True
            why = ''
            if res == 'ok' and exc is not None:
                ok, why = False, 'raised_on_valid_op'
            elif res == 'guard' and exc is None:
                ok, why = False, 'accepted_invalid'
            elif res == 'IndexError' and exc != 'IndexError':
                ok, why = False, 'no_index_error'
            elif got[0] != dseq:
                ok, why = False, 'list_mismatch'
            elif cls == 'O' and got[1] != dlab:
                ok, why = False, ('wrong_label' if res == 'ok' else 'stale_label')
            elif o in ('pop', 'popi') and res == 'ok' and ret != items[x - 1]:
                ok, why = False, 'wrong_return'
            out.add('tlc:%s:%s' % (o, res))
            if not ok:
                viol.append({'site': 'TLC/' + _site(cls, _METHOD[op[0]]), 'failure': why,
                             'detail': '%s in TLC state seq=%s lab=%s (path %s): op %s expected res=%s seq=%s lab=%s; '
                                       'implementation: exc=%s(%s) seq=%s lab=%s ret=%s'
                                       % ('OrderedCadence' if cls == 'O' else 'Cadence', c['seq'], c['lab'], c['path'],
                                          json.dumps(op), res, dseq, dlab, exc, msg, got[0], got[1], ret),
                             'params': {'cls': cls, 'op': op, 'opname': op[0], 'path': c['path'], 'order': c['order']}})
            if not ok or w.fingerprint() != fp0:
                w = None
    r = {'viol': viol, 'outcomes': sorted(out), 'n': nrep, 'traces': traces, 'transitions': 0,
         'extra': {'tlc_edges_replayed': nrep}}
    if len(c['seq']) >= 2:
        r['nontrivial'] = ['tlc/' + engine.sha([c['seq'], c['lab']])]
    return r


# ---------------------------------------------------------------------------------------------- driver
def case_real_frames(c):
    """Ordered cadences of frames built by the library's OTHER construction routes (from_data without a metadata
    argument, slices, de-drifted frames, copies): every frame must get the label of its own insertion position and
    by_label must return exactly the frames carrying the label (a metadata dictionary shared between frames shows here)."""
    import setigen as stg
    viol = []

    def V(site, failure, detail):
        viol.append({'site': site, 'failure': failure, 'detail': detail})
    order = c['order']
    n = c['n']
    base = stg.Frame(fchans=8, tchans=2, df=2.0, dt=1.0, fch1=1000.0, ascending=True, seed=1, t_start=1.0e9)
    frames = []
    for i in range(n):
        r = c['routes'][i % len(c['routes'])]
        if r == 'from_data':
            fr = stg.Frame.from_data(2.0, 1.0, 1000.0, True, np.full((2, 4), float(i)))
        elif r == 'from_data_meta':
            fr = stg.Frame.from_data(2.0, 1.0, 1000.0, True, np.full((2, 4), float(i)), metadata={'tag': i})
        elif r == 'slice':
            fr = base.get_slice(0, 4)
        elif r == 'dedrift':
            fr = stg.dedrift(stg.Frame(fchans=5, tchans=2, df=2.0, dt=1.0, fch1=1000.0, ascending=True, seed=2, t_start=1.0e9), 1.0)
        elif r == 'copy':
            fr = stg.Frame(fchans=4, tchans=2, df=2.0, dt=1.0, fch1=1000.0, ascending=True, seed=3, t_start=1.0e9).copy()
        else:
            fr = stg.Frame(fchans=4, tchans=2, df=2.0, dt=1.0, fch1=1000.0, ascending=True, seed=4, t_start=1.0e9)
        frames.append(fr)
    try:
        if c['build'] == 'constructor':
            cad = stg.OrderedCadence(frames, order=order)
        else:
            cad = stg.OrderedCadence(order=order)
            for fr in frames:
                cad.append(fr)
    except Exception as e:
        V('OrderedCadence', 'raised_on_valid_op', 'building an ordered cadence of %s frames raised %s: %s' % (c['routes'], type(e).__name__, e))
        return {'viol': viol}
    labels = [f.metadata.get('order_label') for f in cad]
    want = list(order[:n])
    if labels != want:
        V('OrderedCadence', 'wrong_label', 'frames built via %s got labels %s, insertion positions give %s' % (c['routes'], labels, want))
    if len(set(id(f.metadata) for f in frames)) != n:
        V('Frame.from_data', 'shared_metadata', 'frames built via %s share one metadata dictionary' % (c['routes'],))
    for L in sorted(set(order)):
        got = [id(f) for f in cad.by_label(L)]
        exp = [id(f) for f, l in zip(frames, want) if l == L]
        if got != exp:
            V('OrderedCadence.by_label', 'by_label_mismatch', 'by_label(%r) returns %d frames, %d carry that insertion label (routes %s)'
              % (L, len(got), len(exp), c['routes']))
    return {'viol': viol, 'nontrivial': [engine.sha(c)], 'outcomes': ['real/%s' % ''.join(want)], 'transitions': n, 'traces': 1}


def run(ctx):
    thorough = ctx.tier == 'thorough'
    real = []
    for routes in (['from_data'], ['slice'], ['dedrift'], ['copy'], ['from_data', 'plain'], ['from_data_meta', 'from_data'],
                   ['slice', 'from_data', 'dedrift', 'copy']):
        for order in ('ABACAD', 'AB' * 3):
            for n in (2, 4, 6):
                for build in ('constructor', 'append'):
                    real.append(dict(routes=routes, order=order, n=n, build=build))
    ctx.pmap(case_real_frames, real)
    lmax = 4
    depth = 5 if thorough else 4
    box = {}
    nstates = 0
    for cls, variant, dep in (('C', 'plain', 99), ('O', 'plain', depth),
                              ('C', 'overwrite', 99 if thorough else 1), ('O', 'overwrite', 1)):
        n, maxd, fix = bfs(ctx, cls, variant, lmax, dep)
        nstates += n
        box['%s/%s' % (cls, variant)] = {'states': n, 'max_history_length': maxd, 'history_length_bound': dep,
                                         'fixpoint_reached': fix}
    ctx.states += nstates
    extra = {'bounds': {'max_list_length': lmax, 'history_length': box, 'index_range': '[-len-2, len+2]',
                        'orders': ORDERS, 'constructor_lists': '<=2 over the whole pool' + (' + 3 over {a,b,c,d,n5}' if thorough else '')},
             'alphabet': ['new', 'append', 'extend', 'insert', '__setitem__', 'del i', 'del slice', 'pop()', 'pop(i)',
                          'set_order', 'observers: len, iter, c[int], c[np.int64], c[slice step None/1/2/-1/-2], '
                          'c[list|ndarray|tuple of <=2 (+3 longer) positions], by_label(A,B,C,D,Z), tchans, obs_range, '
                          'slew_times, t_start, df, dt, fchans, fmin'],
             'pool': {'compatible': ['a', 'b', 'c(descending, same fmin)'], 'incompatible': ['d(df)', 'e(dt)', 'f(fchans)', 'g(fmin)'],
                      'non_frames': ['5', 'None', 'ndarray']},
             'max_depth': max(b['max_history_length'] for b in box.values())}
    if thorough:
        extra['tlc'] = []
        for cfg, items, order, desc in TLC_MODELS:
            wd = engine.workdir()
            dot, gen, distinct, tsec = run_tlc(wd, cfg)
            nodes, edges = parse_dot(dot)
            os.remove(dot)
            if len(nodes) != distinct:
                raise engine.HarnessError('dot dump has %d nodes, TLC reported %d distinct states' % (len(nodes), distinct))
            cases, nidle, nret = tlc_cases(nodes, edges, ctx.seed, items, order)
            del nodes
            nop = sum(len(c['edges']) for c in cases)
            if nop + nret != len(edges):
                raise engine.HarnessError('edge accounting: %d op + %d Ret != %d' % (nop, nret, len(edges)))
            before = ctx.extra.get('tlc_edges_replayed', 0)
            ctx.pmap(case_tlc, cases, label='tlc-replay')
            extra['tlc'].append({'model': 'mc/tla/CadenceList.tla + %s (%s)' % (cfg, desc),
                                 'states_generated': gen, 'distinct_states': distinct, 'transitions': len(edges),
                                 'quiescent_states': nidle, 'op_edges': nop, 'ret_edges_checked_structurally': nret,
                                 'op_edges_replayed_on_OrderedCadence': nop,
                                 'edge_replays_total_incl_plain_Cadence': ctx.extra.get('tlc_edges_replayed', 0) - before,
                                 'tlc_wall_s': round(tsec, 1)})
    return ctx.finish(
        rule='level-synchronous BFS over operation histories on real Cadence/OrderedCadence objects rebuilt from fresh '
             'frames; every mutator instance of the alphabet whose result keeps the list length <= %d is executed from '
             'every state reached by a history shorter than the bound, every observer in every state; states merged by '
             '(class, variant, order, names in order, labels of all pool frames) computed from the real object; a state '
             'is non-trivial when it holds >= 2 frames (order and identity are then observable); evaluations = oracle '
             'comparisons (transitions + observer results)' % lmax,
        assumptions=['unspecified (not demanded): label of an unlabelled frame placed at a position >= len(order) '
                     '(the operation may raise atomically or be carried out), set_order with an order shorter than the '
                     'cadence, slice assignment, boolean masks, aggregate properties of an EMPTY cadence, the order/t_slew '
                     'attributes of a selection result, which letter an object receives that one operation puts at '
                     'several positions',
                     'guard rejections may raise any exception type; index errors must be IndexError',
                     'extend() with an offender may keep the elements before it or nothing'],
        coverage_extra=extra)
