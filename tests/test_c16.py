"""
Plain replays of the three C16 defects (D19, D20, D21), runnable without the explorer:

    PYTHONPATH=/tmp/wt-c16 /venv/bin/python -m pytest -q -p no:cacheprovider /verif/tests/test_c16.py

They fail on the pinned tree and pass on branch fix-c16.
"""
import numpy as np
import setigen as stg

DF, DT = 2.7939677238464355, 18.253611008


def _cadence(n=3, t0=1300.7, slew=37.3):
    frames = [stg.Frame(fchans=12, tchans=3, df=DF, dt=DT, fch1=6e9, ascending=False, t_start=t0)
              for _ in range(n)]
    return stg.Cadence(frames, t_slew=slew, t_overwrite=True)


def _signal(c):
    span = c[-1].t_stop - c[0].t_start
    drift = 6 * DF / span
    return stg.constant_path(f_start=c[0].get_frequency(3), drift_rate=drift)


def test_d19_ts_restored_bit_for_bit():
    c = _cadence()
    before = [f.ts.copy() for f in c]
    for _ in range(3):
        c.add_signal(_signal(c), stg.constant_t_profile(level=2.0), stg.gaussian_f_profile(width=2.5 * DF))
    for f, b in zip(c, before):
        assert np.array_equal(f.ts, b)


def test_d20_ts_restored_when_a_callback_raises():
    class Boom(Exception):
        pass

    for k in (1, 2, 3):
        c = _cadence()
        before = [f.ts.copy() for f in c]
        calls = [0]
        path = _signal(c)

        def faulty(t):
            calls[0] += 1
            if calls[0] == k:
                raise Boom()
            return path(t)
        try:
            c.add_signal(faulty, stg.constant_t_profile(level=2.0), stg.gaussian_f_profile(width=2.5 * DF))
        except Boom:
            pass
        for f, b in zip(c, before):
            assert np.array_equal(f.ts, b)


def test_d21_subsample_grids_follow_the_cadence_offset():
    for kw in (dict(integrate_path=True), dict(integrate_t_profile=True),
               dict(integrate_path=True, doppler_smearing=True, t_subsamples=3, smearing_subsamples=2)):
        c = _cadence()
        path = _signal(c)
        tprof = stg.sine_t_profile(period=2.3 * 3 * DT, phase=1.0, amplitude=0.5, level=1.5)
        fprof = stg.gaussian_f_profile(width=2.5 * DF)
        c.add_signal(path, tprof, fprof, **kw)
        for m, f in enumerate(c):
            D = f.t_start - c[0].t_start
            twin = stg.Frame(fchans=12, tchans=3, df=DF, dt=DT, fch1=6e9, ascending=False, t_start=0.0)
            want = twin.add_signal(lambda t: path(t + D), lambda t: tprof(t + D), fprof, **kw)
            assert np.allclose(f.data, want, rtol=0, atol=1e-7), (kw, m)
