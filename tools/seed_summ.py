import glob,re
res={}
for f in sorted(glob.glob('/tmp/sv/lane*.log')):
    name=None
    for l in open(f):
        m=re.match(r'=== (\S+)',l)
        if m: name=m.group(1); res[name]='(running)'; continue
        m=re.match(r'(C\d+): (CAUGHT|MISSED|HARNESS-ERROR)',l)
        if m and name: res[name]=m.group(2)
        if 'REJECT' in l and name: res[name]='REJECT: '+l.strip()[:120]
        if 'NOT stored' in l and name and not res[name].startswith('REJECT'): res[name]+=' (not stored)'
for k in sorted(res): print(k,res[k])
