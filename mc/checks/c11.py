"""
C11 -- Synthetic noise has the requested distribution; SNR bookkeeping is consistent.

Enumeration cannot prove a distribution.  What it decides is everything the *library* is
responsible for (DESIGN.md section 5 / C11):

 (1) E-ENV, spy generator: every request the noise code makes to its random generator is logged
     and checked exactly, for every configuration of the box: chi2 noise asks for
     chisquare(df=k, size=shape) with k = 4*round(df*dt) (rounding ties not decided) and scales
     the draw by x_mean/k; gaussian noise asks for normal(x_mean, x_std, shape); truncated noise is
     max(draw, x_min); table sampling uses entries of the supplied tables (pairwise distinct
     entries make the index identifiable), one common index with share_index=True, refusal on
     unequal lengths; default tables are the shipped asset scaled by dt/1.4316557653333333.
 (2) exact identities: returned array == what was added to the data (bit for bit), no truncated
     sample below its floor, get_intensity(s) = s*noise_std/sqrt(tchans), get_snr its inverse,
     both raise ValueError when noise_std == 0.
 (3) E-HIST, bookkeeping as a state machine: ALL operation sequences up to the depth bound over
     {chi2, gaussian, truncated, from-obs chi2, from-obs gaussian, zero_data, add_signal} from an
     empty frame and from a frame constructed on non-zero data.
 (4) voltage noise: DataStream / MultiAntennaArray noise deviations add in quadrature, background
     noise propagates to every antenna stream of its polarisation, update_noise replaces.

Auxiliary and NOT deciding: seeded sample moments inside 7-sigma bands (counters only).
"""
import itertools
import os
import numpy as np

from mc import engine
from mc.refs.axes import F
from mc.refs.noise import SpyGenerator, clipped_stats, close, tables, index_of, as_shape

PROPERTY = 'C11'
LEVEL = 'exploration'

OBS_DT = 1.4316557653333333
BL_DF, BL_DT = 2.7939677238464355, 18.253611008

# (df, dt) pairs: df*dt in {1, 1.49, 1.51, 2 (asset resolution), 2.5 and 3.5 (ties), 51.0000004 (BL)} ...
RES_Q = [(1.0, 1.0), (1.49, 1.0), (1.51, 1.0), (2.5, 1.0), (3.5, 1.0), (BL_DF, BL_DT),
         (1.3969838619232178, OBS_DT), (14.9, 0.1)]
RES_T = RES_Q + [(4.0, 0.625), (0.5, 3.0), (1e3, 1.0), (0.1, 10.0), (2.49, 1.0), (2.51, 1.0), (7.0, 0.5)]
SHAPES_Q = [(1, 1), (3, 4), (16, 8)]
SHAPES_T = SHAPES_Q + [(1, 7), (5, 1), (32, 64)]

REL_SCALE = 8 * 2.220446049250313e-16      # "scales by x_mean/k": any association of the two operations
REL_ID = 1e-12                              # intensity/SNR identities, quadrature sums
REL_EST = 1e-9                              # clipped estimate

SNRS = [0.0, 1.0, 10.0, 25.5, -3.0, 1e-3, 30, np.int8(30)]        # (the last two: integers, as a caller may well pass them)


# ============================================================================ helpers
def _seed(c, *extra):
    return [int(c.get('seed', 0)) & 0x7fffffff, int(engine.sha(c), 16) & 0x7fffffff] + [int(e) for e in extra]


def _pool(shape, seed, tag):
    """Non-zero preload data: continuous values, no ties, varies with VERIF_SEED."""
    g = np.random.default_rng([int(seed) & 0x7fffffff, tag, shape[0], shape[1]])
    return g.normal(20.0, 3.0, size=shape) + 1.0


_DECOY = [0]


def _decoy_default_tables():
    """Deterministic process history for anything the library keeps at module level around the shipped default noise
    tables: one default-table call at ANOTHER time resolution happens before every frame under test is built."""
    import setigen as stg
    _DECOY[0] += 1
    if _DECOY[0] != 1 and _DECOY[0] % 200:
        return          # once per process (and then occasionally): the first default-table call is never the one under test
    try:
        stg.Frame(fchans=2, tchans=2, df=1.0, dt=7.0, fch1=1e9, seed=1, t_start=0.0).add_noise_from_obs()
    except Exception:
        pass


def _mk_frame(shape, df, dt, spy, data=None):
    import setigen as stg
    _decoy_default_tables()
    m, n = shape
    if data is not None:
        return stg.Frame(data=data, df=df, dt=dt, fch1=6e9, ascending=False, t_start=0.0, seed=spy)
    return stg.Frame(fchans=n, tchans=m, df=df, dt=dt, fch1=6e9, ascending=False, t_start=0.0, seed=spy)


def _k_ok(k, df, dt):
    """rule 1: k = 4*q with |q - df*dt| <= 0.5 + eps, product computed exactly."""
    try:
        ki = int(k)
    except Exception:
        return False
    if ki != k or ki <= 0 or ki % 4:
        return False
    y = F(df) * F(dt)
    if y.denominator == 2:
        # an EXACT half-integer product (e.g. df=2.5, dt=1): "round" in the property's formula is the language's
        # round(), i.e. half-to-even -- a documented, deterministic rule, so the exact tie is decided.  Products that
        # are merely within rounding distance of a tie stay undecided (rule 1).
        q = y.numerator // 2                      # floor of the half-integer
        q = q if q % 2 == 0 else q + 1
        return ki // 4 == q
    return abs(F(ki // 4) - y) <= F(0.5) + y * F(1e-9)


_ASSET = {}


def _asset():
    import setigen
    p = os.path.join(os.path.dirname(os.path.abspath(setigen.__file__)), 'assets', 'sample_noise_params.npy')
    if p not in _ASSET:
        _ASSET[p] = np.load(p)
    return _ASSET[p]


def _floor_ok(noise, draw, f, rtol):
    """noise == max(draw, f) elementwise; f known to within rtol (rtol = 0: bit for bit)."""
    if rtol == 0.0:
        return bool(np.array_equal(noise, np.maximum(draw, f)))
    t = rtol * abs(f)
    above = draw > f + t
    below = draw < f - t
    if not np.array_equal(noise[above], draw[above]):
        return False
    if below.any() and float(np.abs(noise[below] - f).max()) > t:
        return False
    return bool(np.all(noise >= f - t))


class _Interp(object):
    """Outcome of interpreting the requests of ONE noise call."""
    def __init__(self):
        self.kind = None        # 'chi2' | 'normal'
        self.k = None
        self.mean = None        # requested mean (chi2: identified x_mean; normal: loc)
        self.std = None         # requested deviation (chi2: sqrt(2k)*x_mean/k)
        self.draw = None        # the array the generator returned
        self.base = None        # noise before truncation as implied by the request
        self.index_reqs = []    # Request objects that drew an index / an entry
        self.problems = []      # (failure, detail)


def _interpret(reqs, shape):
    """Split the logged requests into index requests and exactly one array request."""
    it = _Interp()
    arr = []
    for r in reqs:
        if r.args is None:
            it.problems.append(('unrecognised_request', 'generator method %s%r is not one the noise code can '
                                'justify' % (r.name, r.raw[0][:2])))
            continue
        if r.name in ('choice', 'integers') and r.args.get('size') is None:
            it.index_reqs.append(r)
        elif r.name in ('chisquare', 'normal', 'standard_normal'):
            arr.append(r)
        else:
            it.problems.append(('unrecognised_request', 'unexpected request %r' % (r,)))
    if len(arr) != 1:
        it.problems.append(('request_count', '%d array requests (%s), expected exactly one'
                            % (len(arr), ', '.join(repr(a) for a in arr))))
        return it
    a = arr[0]
    if as_shape(a.args.get('size')) != tuple(shape):
        it.problems.append(('request_shape', '%r: size is not the frame shape %s' % (a, tuple(shape))))
        return it
    it.draw = np.asarray(a.out)
    if a.name == 'chisquare':
        it.kind = 'chi2'
        it.k = a.args.get('df')
    elif a.name == 'normal':
        it.kind = 'normal'
        it.mean, it.std = a.args.get('loc'), a.args.get('scale')
        it.base = it.draw
    else:
        it.kind = 'standard_normal'
    return it


def _snr_checks(fr, V, tag):
    """intensity(snr) = snr*noise_std/sqrt(tchans), snr(intensity) inverse, ValueError at noise_std == 0."""
    ns = fr.noise_std
    if ns == 0:
        for name, fn in (('get_intensity', fr.get_intensity), ('get_snr', fr.get_snr)):
            try:
                fn(10.0)
            except ValueError:
                continue
            except Exception as e:
                V('zero_noise_wrong_exception', '%s: %s raised %s instead of ValueError with noise_std == 0'
                  % (tag, name, type(e).__name__), site='Frame.' + name)
                continue
            V('zero_noise_not_refused', '%s: %s returned a value although noise_std == 0' % (tag, name),
              site='Frame.' + name)
        return 'raises'
    for s in SNRS:
        try:
            i = fr.get_intensity(s)
            back = fr.get_snr(i)
        except Exception as e:
            V('snr_raised', '%s: noise_std=%r, snr=%r: %s: %s' % (tag, ns, s, type(e).__name__, e),
              site='Frame.get_intensity')
            return 'error'
        want = s * float(ns) / np.sqrt(float(fr.tchans))
        rel_id = 4e-7 if isinstance(ns, np.float32) else REL_ID      # a single-precision estimate makes single-precision products
        if not close(i, want, rel_id):
            V('intensity_formula', '%s: get_intensity(%r)=%r, snr*noise_std/sqrt(tchans)=%r (noise_std=%r, tchans=%d, '
              'fchans=%d)' % (tag, s, float(i), want, float(ns), fr.tchans, fr.fchans), site='Frame.get_intensity')
            return 'bad'
        if not close(back, s, rel_id):
            V('snr_not_inverse', '%s: get_snr(get_intensity(%r))=%r' % (tag, s, float(back)), site='Frame.get_snr')
            return 'bad'
    return 'ok'


# ============================================================================ one noise call
def _do_noise(fr, spy, op, c, V, tag, empty_state):
    """Execute ONE noise call on the real frame and check requests + identities + estimates.

    empty_state: 'empty' (all-zero frame, estimates zero), 'noisy' (anything else with noise or
    preloaded data), 'signal_only' (signals but never any noise: the property does not say which
    branch applies -> not decided).
    Returns (outcome string, info dict)."""
    shape = tuple(fr.shape)
    df, dt = c['df'], c['dt']
    site = 'Frame.add_noise' if op['api'] == 'add_noise' else 'Frame.add_noise_from_obs'
    info = {'amb': 0, 'amb_signal_only': 0, 'clip_removed': 0, 'clip_iters': 0, 'trunc_active': 0, 'mean_from_std': 0, 'ran': False}
    nt = op['noise_type']
    before = fr.data.copy()
    spy.take()
    M = S = N = None
    expect_refusal = False
    tab_rtol = 0.0
    try:
        if op['api'] == 'add_noise':
            kw = {}
            # (sub-box) the parameters as numpy fixed-width scalars, as they come out of an array or a header
            cast = (lambda v: np.dtype(op['ntype']).type(v)) if op.get('ntype') else (lambda v: v)
            if op.get('x_std') is not None:
                kw['x_std'] = cast(op['x_std'])
            if op.get('x_min') is not None:
                kw['x_min'] = cast(op['x_min'])
            noise = fr.add_noise(cast(op['x_mean']), noise_type=nt, **kw)
        else:
            kw = {}
            if op['tables'] != 'none':
                M, S, N = tables(op['lens'], op['order'], int(c.get('seed', 0)))
                if 'M' in op['tables']:
                    kw['x_mean_array'] = M.copy()
                if 'S' in op['tables']:
                    kw['x_std_array'] = S.copy()
                else:
                    S = None
                if 'N' in op['tables']:
                    kw['x_min_array'] = N.copy()
                else:
                    N = None
                if nt in ('gaussian', 'normal') and op['share_index'] in (True, None):
                    used = [len(t) for t in (M, S, N) if t is not None]
                    expect_refusal = len(set(used)) > 1
            else:
                a = _asset()
                sc = dt / OBS_DT
                M, S, N = a[:, 0] * sc, a[:, 1] * sc, a[:, 2] * sc
                tab_rtol = 1e-14
            if 'share_index' in op and op['share_index'] is not None:
                kw['share_index'] = op['share_index']
            noise = fr.add_noise_from_obs(noise_type=nt, **kw)
    except Exception as e:
        reqs = spy.take()
        name = type(e).__name__
        if op.get('expect') == 'undecided':
            return 'refused:' + name, info
        if expect_refusal:
            if isinstance(e, (IndexError, ValueError)):
                return 'refused_unequal:' + name, info
            V('unequal_lengths_wrong_exception', '%s: share_index=True with table lengths %s raised %s: %s'
              % (tag, op['lens'], name, e), site=site)
            return 'refused_unequal:' + name, info
        V('raised', '%s: %s: %s' % (tag, name, e), site=site)
        return 'raised:' + name, info
    reqs = spy.take()
    info['ran'] = True
    info['returned'] = noise            # the very object the library returned (kept uncopied by the history check)
    if expect_refusal:
        V('unequal_lengths_accepted', '%s: share_index=True with table lengths %s did not raise; requests %r'
          % (tag, op['lens'], reqs), site=site)
        return 'accepted_unequal', info
    noise = np.asarray(noise)
    after = fr.data
    # ---------------------------------------------------------------- (2) returned == added
    if noise.shape != shape:
        V('return_shape', '%s: returned array has shape %s, frame %s' % (tag, noise.shape, shape), site=site)
        return 'bad_shape', info
    if empty_state == 'empty' and not before.any():
        if not np.array_equal(after, noise):
            V('return_not_delta', '%s: empty frame: data after the call differs from the returned array '
              '(max |diff| %.3g)' % (tag, float(np.abs(after - noise).max())), site=site)
    else:
        expd = before + noise
        if after.dtype != expd.dtype and after.dtype.kind == 'f':
            expd = expd.astype(after.dtype)          # a single-precision container holds the sum rounded to its own precision
        if not np.array_equal(after, expd):
            V('return_not_delta', '%s: data_after != data_before + returned (max |diff| %.3g)'
              % (tag, float(np.abs(after - expd).max())), site=site)
    if op.get('expect') == 'undecided':
        # argument combination outside the documented ones: nothing about the request is demanded
        return 'accepted_undocumented', info
    # ---------------------------------------------------------------- (1) what was asked of the generator
    it = _interpret(reqs, shape)
    for fl, det in it.problems:
        V(fl, '%s: %s' % (tag, det), site=site)
    if it.problems:
        return 'bad_request', info
    want_chi2 = (nt == 'chi2')
    if want_chi2 != (it.kind == 'chi2'):
        V('wrong_distribution', '%s: noise_type=%r but the generator was asked for %s' % (tag, nt, it.kind), site=site)
        return 'wrong_distribution', info
    floor = None
    if it.kind == 'chi2':
        k = it.k
        if not _k_ok(k, df, dt):
            V('chi2_df', '%s: chisquare requested with df=%r; df*dt=%.9g so k must be 4*round(df*dt)'
              % (tag, k, df * dt), site=site)
            return 'bad_k', info
        k = int(k)
        if op['api'] == 'add_noise':
            x_mean = op['x_mean']
            cands = [x_mean]
        else:
            cands = None
            for r in it.index_reqs:
                x_mean = _entry_from_index_req(r, M, None, V, tag, site, tab_rtol)
                if x_mean is not None:
                    cands = [x_mean]
            if it.index_reqs and cands is None:
                V('foreign_table', '%s: the mean was drawn (%r) from something that is not the mean table%s'
                  % (tag, it.index_reqs[0], ' (shipped asset * dt/%r)' % OBS_DT if op['tables'] == 'none' else ''),
                  site=site)
                return 'foreign_table', info
            if cands is None:
                cands = list(np.unique(M)) if len(M) <= 64 else []
        good = [m for m in cands if np.all(np.abs(noise - it.draw * m / k) <= REL_SCALE * np.abs(it.draw * m / k))]
        if not good:
            V('chi2_scale', '%s: returned noise is not draw*x_mean/k for %s (k=%d): noise[0,0]=%r draw[0,0]=%r'
              % (tag, 'the requested x_mean' if op['api'] == 'add_noise' else 'any entry of the mean table', k,
                 float(noise.flat[0]), float(it.draw.flat[0])), site=site)
            return 'bad_scale', info
        it.mean = float(good[0])
        it.std = float(np.sqrt(2.0 * k) * it.mean / k)
        if op['api'] != 'add_noise' and not it.index_reqs:
            V('no_index_request', '%s: no entry was drawn from the generator' % tag, site=site)
    else:
        if it.kind == 'standard_normal':
            # equally valid way of asking for N(mean, std): noise = mean + std*draw
            if op['api'] != 'add_noise':
                V('unrecognised_request', '%s: standard_normal used for table sampling; parameters not identifiable'
                  % tag, site=site)
                return 'bad_request', info
            it.mean, it.std = op['x_mean'], op['x_std']
            it.base = it.mean + it.std * it.draw
            tol = REL_SCALE * (abs(it.mean) + abs(it.std) * np.abs(it.draw))
            exact = False
        else:
            tol = 0.0
            exact = True
        if op['api'] == 'add_noise':
            if not (float(it.mean) == float(op['x_mean']) and float(it.std) == float(op['x_std'])):
                V('gaussian_params', '%s: normal requested with (loc, scale)=(%r, %r), asked for (%r, %r)'
                  % (tag, it.mean, it.std, op['x_mean'], op['x_std']), site=site)
                return 'bad_params', info
            floor = op.get('x_min')
            floor_rtol = 0.0
        else:
            floor, floor_rtol, ok = _check_table_params(it, op, M, S, N, noise, V, tag, site, tab_rtol, info)
            if not ok:
                return 'bad_table_params', info
        if floor is None:
            if exact:
                same = np.array_equal(noise, it.base)
            else:
                same = bool(np.all(np.abs(noise - it.base) <= tol))
            if not same:
                V('gaussian_not_draw', '%s: returned noise differs from the normal(%r, %r) draw (max |diff| %.3g)'
                  % (tag, it.mean, it.std, float(np.abs(noise - it.base).max())), site=site)
                return 'bad_noise', info
        else:
            if float(noise.min()) < float(floor) - floor_rtol * abs(float(floor)):
                V('below_floor', '%s: truncated noise has a sample %r below its floor %r'
                  % (tag, float(noise.min()), float(floor)), site=site)
                return 'below_floor', info
            if exact:
                if not _floor_ok(noise, it.base, float(floor), floor_rtol):
                    V('truncation', '%s: returned noise is not max(draw, x_min=%r)' % (tag, float(floor)), site=site)
                    return 'bad_trunc', info
            else:
                if not np.all(np.abs(noise - np.maximum(it.base, floor)) <= tol):
                    V('truncation', '%s: returned noise is not max(draw, x_min=%r)' % (tag, float(floor)), site=site)
                    return 'bad_trunc', info
            if np.any(it.base < floor):
                info['trunc_active'] = 1
    # ---------------------------------------------------------------- (3) estimates
    nm, nsd = fr.noise_mean, fr.noise_std
    par_ok = close(nm, it.mean, REL_ID, max(abs(float(it.mean)), abs(float(it.std)))) and \
        close(nsd, it.std, REL_ID, max(abs(float(it.mean)), abs(float(it.std))))
    if empty_state == 'empty':
        if not par_ok:
            V('estimates_not_parameters', '%s: first noise on an empty frame: estimates (%r, %r), requested '
              'parameters (%r, %r)' % (tag, float(nm), float(nsd), float(it.mean), float(it.std)), site=site)
        est = 'params'
    else:
        cm, cs, ci = clipped_stats(after)
        sc = max(abs(cm), abs(cs))
        rel_est = REL_EST if after.dtype == np.float64 else 2e-6      # single-precision data: the estimate is accumulated in that precision
        clip_ok = close(nm, cm, rel_est, sc) and close(nsd, cs, rel_est, sc)
        if ci['ambiguous']:
            info['amb'] += 1
            est = 'clipped?'
        elif empty_state == 'signal_only':
            # signals but no noise so far: "empty" is not defined for this frame by the property
            info['amb'] += 1
            info['amb_signal_only'] += 1
            if not (par_ok or clip_ok):
                V('estimates_neither', '%s: estimates (%r, %r) are neither the requested parameters (%r, %r) nor the '
                  'clipped estimate (%r, %r)' % (tag, float(nm), float(nsd), float(it.mean), float(it.std), cm, cs),
                  site=site)
            est = 'params' if par_ok else 'clipped'
        else:
            if not clip_ok:
                V('estimates_not_clipped', '%s: noise on a non-empty frame: estimates (%r, %r), 3-sigma/5-iteration '
                  'clipped estimate of the data (%r, %r)%s'
                  % (tag, float(nm), float(nsd), cm, cs, '; they equal the requested parameters' if par_ok else ''),
                  site=site)
            est = 'clipped'
            info['clip_removed'] = int(ci['removed'] > 0)
            info['clip_iters'] = int(ci['iters'] > 1)
    return '%s:%s:%s' % (it.kind, 'trunc' if floor is not None else 'plain', est), info


def _entry_from_index_req(r, T, want_len, V, tag, site, rtol):
    """The table entry selected by one index request (choice(table) -> value, integers(n) -> T[i])."""
    if r.name == 'choice':
        a = np.asarray(r.args['a'])
        if T is not None and (a.shape != np.asarray(T).shape or
                              not np.allclose(a, T, rtol=rtol, atol=0.0)):
            return None
        return float(r.out)
    if r.name == 'integers':
        lo, hi = r.args['low'], r.args['high']
        if hi is None:
            lo, hi = 0, lo
        if r.args.get('endpoint'):
            hi = hi + 1
        if T is None:
            return None
        if lo != 0 or hi != len(T):
            V('index_range', '%s: index drawn from [%r, %r) for a table of length %d' % (tag, lo, hi, len(T)),
              site=site)
            return None
        return float(np.asarray(T)[int(r.out)])
    return None


def _check_table_params(it, op, M, S, N, noise, V, tag, site, rtol, info):
    """Gaussian noise from tables: (loc, scale, floor) must be entries of the supplied tables."""
    loc, scale = float(it.mean), float(it.std)
    shared = op.get('share_index')
    if shared is None:
        shared = True           # documented default
    # index requests must be consistent with the supplied tables
    for r in it.index_reqs:
        if r.name == 'choice':
            a = np.asarray(r.args['a'])
            if not any(t is not None and a.shape == np.asarray(t).shape and np.allclose(a, t, rtol=rtol, atol=0.0)
                       for t in (M, S, N)):
                V('foreign_table', '%s: an entry was drawn from an array that is none of the supplied tables'
                  % tag, site=site)
                return None, 0.0, False
        else:
            lo, hi = r.args['low'], r.args['high']
            if hi is None:
                lo, hi = 0, lo
            if r.args.get('endpoint'):
                hi = hi + 1
            lens = [len(t) for t in (M, S, N) if t is not None]
            if lo != 0 or hi not in lens:
                V('index_range', '%s: index drawn from [%r, %r) for tables of length %s' % (tag, lo, hi, lens),
                  site=site)
                return None, 0.0, False
    if not it.index_reqs:
        V('no_index_request', '%s: no index / entry was drawn from the generator' % tag, site=site)
        return None, 0.0, False
    i_s = index_of(S, scale, rtol)
    if i_s.size == 0:
        V('std_not_from_table', '%s: normal scale %r is not an entry of the deviation table' % (tag, scale), site=site)
        return None, 0.0, False
    i_m = index_of(M, loc, rtol)
    if shared:
        common = np.intersect1d(i_m, i_s)
        if N is not None:
            ok_n = [i for i in common if _floor_ok(noise, it.base, float(N[i]), rtol)]
        else:
            ok_n = list(common)
        if not ok_n:
            V('not_one_common_index', '%s: share_index=True but (loc, scale%s) = (%r, %r%s) are not the entries of one '
              'common index (mean-table indices %s, deviation-table indices %s)'
              % (tag, ', floor' if N is not None else '', loc, scale, ', ?' if N is not None else '',
                 i_m[:5].tolist(), i_s[:5].tolist()), site=site)
            return None, 0.0, False
        for r in it.index_reqs:
            if r.name == 'integers' and int(r.out) not in ok_n:
                V('index_not_used', '%s: index %d was drawn but entries of index %s were used'
                  % (tag, int(r.out), ok_n[:5]), site=site)
                return None, 0.0, False
        i = ok_n[0]
        return (float(N[i]) if N is not None else None), rtol, True
    # independent selection: each parameter is an entry of its own table; the library documents that it
    # raises the mean to the deviation when the drawn mean is smaller (sample_gaussian_params)
    if i_m.size == 0:
        if loc == scale:
            info['mean_from_std'] = 1
        else:
            V('mean_not_from_table', '%s: normal loc %r is not an entry of the mean table (nor the selected deviation)'
              % (tag, loc), site=site)
            return None, 0.0, False
    if N is None:
        return None, rtol, True
    # the floor is identified from the samples it replaced: they must all carry one value, an entry of N
    Nf = np.asarray(N, dtype=float)
    hit = noise != it.base
    if hit.any():
        v = float(noise[hit].flat[0])
        if index_of(Nf, v, rtol).size == 0 or not _floor_ok(noise, it.base, v, 0.0):
            V('min_not_from_table', '%s: returned noise is not max(draw, f) for any entry f of the minimum table '
              '(replaced samples carry %r)' % (tag, v), site=site)
            return None, 0.0, False
        return v, 0.0, True
    idle = Nf[Nf <= float(it.base.min()) * (1 + rtol * np.sign(float(it.base.min())))]
    if idle.size == 0:
        V('min_not_from_table', '%s: no sample was raised although every entry of the minimum table exceeds the '
          'smallest draw %r' % (tag, float(it.base.min())), site=site)
        return None, 0.0, False
    return float(idle.max()), rtol, True


# ============================================================================ (1)+(2): request box
def case_request(c):
    viol = []

    def V(failure, detail, site='Frame.add_noise'):
        viol.append({'site': site, 'failure': failure, 'detail': detail})

    shape = tuple(c['shape'])
    spy = SpyGenerator(_seed(c, 1))
    data = _pool(shape, c.get('seed', 0), 11) if c['preload'] else None
    try:
        fr = _mk_frame(shape, c['df'], c['dt'], spy, data)
    except Exception as e:
        V('constructor_raised', '%s: %s' % (type(e).__name__, e), site='Frame.__init__')
        return {'viol': viol}
    made = spy.take()
    if made:
        V('construction_draws', 'constructing a frame consumed the generator: %r' % made, site='Frame.__init__')
    if fr.rng is not spy:
        raise engine.HarnessError('spy generator was not adopted by the frame')
    state = 'noisy' if c['preload'] else 'empty'
    if state == 'empty':
        _snr_checks(fr, V, 'fresh frame')
    out, info = _do_noise(fr, spy, c['op'], c, V, 'op=%s' % _opname(c['op']), state)
    snr = _snr_checks(fr, V, 'after %s' % _opname(c['op'])) if info['ran'] else 'n/a'
    res = {'viol': viol, 'outcomes': ['req/%s/%s/snr=%s' % (c['op']['api'], out, snr)], 'ambiguous': info['amb'],
           'extra': {'req_truncation_active': info['trunc_active'], 'req_mean_raised_to_std': info['mean_from_std'],
                     'req_clip_removed_points': info['clip_removed']}}
    if info['ran'] and shape[0] * shape[1] >= 2:
        res['nontrivial'] = [engine.sha(c)]
    return res


def _opname(op):
    if op['api'] == 'add_noise':
        return 'add_noise(%r, x_std=%r, x_min=%r, noise_type=%r)' % (op['x_mean'], op.get('x_std'), op.get('x_min'),
                                                                   op['noise_type'])
    return 'add_noise_from_obs(tables=%s lens=%s order=%s share_index=%r noise_type=%r)' % (
        op['tables'], op.get('lens'), op.get('order'), op.get('share_index'), op['noise_type'])


def _request_ops(tier):
    ops = []
    # --- add_noise
    for xm in (1.0, 5.5, 4.2e6):
        ops.append(dict(api='add_noise', noise_type='chi2', x_mean=xm))
        ops.append(dict(api='add_noise', noise_type='chi2', x_mean=xm, x_std=7.0, x_min=0.5 * xm))   # ignored args
    for nt in ('gaussian', 'normal'):
        for xm, xs in ((0.0, 1.0), (10.0, 2.0), (-5.0, 0.5), (1e6, 3e4)):
            for rel in (None, -1.0, 0.0, 1.0, -4.75, -40.0):
                xmin = None if rel is None else xm + rel * xs
                if xmin is not None and xmin == 0.0 and rel != 0.0:
                    continue
                ops.append(dict(api='add_noise', noise_type=nt, x_mean=xm, x_std=xs, x_min=xmin))
    for xm, ty in ((300, 'int16'), (200, 'uint8'), (100, 'int8'), (100000, 'int32'), (7, 'int64'), (5.5, 'float32'), (5.5, 'float16')):
        ops.append(dict(api='add_noise', noise_type='chi2', x_mean=xm, ntype=ty))
    for xm, xs, xmin, ty in ((100, 20, None, 'int8'), (100, 20, 90, 'int8'), (200, 15, None, 'uint8'), (300, 25, 280, 'int16'),
                             (100000, 3000, None, 'int32'), (10.0, 2.0, 9.0, 'float32')):
        for nt in ('gaussian', 'normal'):
            ops.append(dict(api='add_noise', noise_type=nt, x_mean=xm, x_std=xs, x_min=xmin, ntype=ty))
    # argument combinations outside the documented ones: only "returned == added" is demanded if they return
    ops.append(dict(api='add_noise', noise_type='gaussian', x_mean=3.0, expect='undecided'))
    ops.append(dict(api='add_noise', noise_type='gaussian', x_mean=3.0, x_min=1.0, expect='undecided'))
    ops.append(dict(api='add_noise', noise_type='poisson', x_mean=3.0, x_std=1.0, expect='undecided'))
    # --- add_noise_from_obs
    lens_chi2 = [(5, 5, 5), (1, 1, 1), (5, 4, 3)]
    for tabs in ('M', 'MS', 'MSN'):
        for lens in lens_chi2:
            for sh in (True, False, None):
                ops.append(dict(api='from_obs', noise_type='chi2', tables=tabs, lens=list(lens), order='gt',
                                share_index=sh))
    ops.append(dict(api='from_obs', noise_type='chi2', tables='none', share_index=None))
    ops.append(dict(api='from_obs', noise_type='chi2', tables='none', share_index=False))
    lens_g = [(5, 5, 5), (1, 1, 1), (5, 4, 5), (5, 5, 3), (2, 7, 7), (6, 6, 6)]
    for nt in ('gaussian', 'normal'):
        for tabs in ('MS', 'MSN'):
            for lens in lens_g:
                for order in ('gt', 'lt'):
                    for sh in (True, False, None):
                        ops.append(dict(api='from_obs', noise_type=nt, tables=tabs, lens=list(lens), order=order,
                                        share_index=sh))
        for sh in (True, False, None):
            ops.append(dict(api='from_obs', noise_type=nt, tables='none', share_index=sh))
    ops.append(dict(api='from_obs', noise_type='poisson', tables='MSN', lens=[5, 5, 5], order='gt', share_index=True,
                    expect='undecided'))
    return ops


# ============================================================================ (3): histories
HIST_OPS = ['chi2', 'gauss', 'trunc', 'obs_chi2', 'obs_gauss', 'zero', 'signal']
PALETTES = {
    'A': dict(chi2=5.0, gauss=(10.0, 2.0), trunc=(10.0, 2.0, 9.0), order='gt', level=60.0),
    'B': dict(chi2=3.1e5, gauss=(0.0, 1.0), trunc=(0.0, 1.0, 0.5), order='lt', level=0.5),
}


def _hist_op(name, pal):
    p = PALETTES[pal]
    if name == 'chi2':
        return dict(api='add_noise', noise_type='chi2', x_mean=p['chi2'])
    if name == 'gauss':
        return dict(api='add_noise', noise_type='gaussian', x_mean=p['gauss'][0], x_std=p['gauss'][1])
    if name == 'trunc':
        return dict(api='add_noise', noise_type='normal', x_mean=p['trunc'][0], x_std=p['trunc'][1],
                    x_min=p['trunc'][2])
    if name == 'obs_chi2':
        return dict(api='from_obs', noise_type='chi2', tables='MSN', lens=[5, 5, 5], order=p['order'],
                    share_index=True)
    if name == 'obs_gauss':
        return dict(api='from_obs', noise_type='gaussian', tables='MSN', lens=[5, 5, 5], order=p['order'],
                    share_index=True)
    return None


def _run_history(c, seq, checked, V, acc):
    """Execute one complete history on a fresh real frame; check every step not yet checked."""
    import setigen as stg
    shape = tuple(c['shape'])
    spy = SpyGenerator(_seed(c, 3))
    data = _pool(shape, c.get('seed', 0), 13) if c['init'] in ('data', 'data32') else None
    if c['init'] == 'data32':
        data = data.astype(np.float32)       # what a frame read from a filterbank file holds
    fr = _mk_frame(shape, c['df'], c['dt'], spy, data)
    spy.take()
    state = 'noisy' if data is not None else 'empty'
    pal = c['palette']
    held = []        # arrays returned by earlier noise additions, held WITHOUT copying (as a caller would) + private copies
    for j, name in enumerate(seq):
        prefix = tuple(seq[:j + 1])
        fresh = prefix not in checked
        tag = 'init=%s history=%s step %d' % (c['init'], '>'.join(prefix), j + 1)
        sink = V if fresh else (lambda *a, **k: None)
        if name == 'zero':
            fr.zero_data()
            if fresh:
                if fr.data.shape != shape or fr.data.any():
                    V('zero_data_not_empty', '%s: data not all zero after zero_data' % tag, site='Frame.zero_data')
                if not (fr.noise_mean == 0 and fr.noise_std == 0):
                    V('zero_data_estimates', '%s: estimates (%r, %r) after zero_data'
                      % (tag, fr.noise_mean, fr.noise_std), site='Frame.zero_data')
            state = 'empty'
            out = 'zero'
        elif name == 'signal':
            before = fr.data.copy()
            mid = fr.get_frequency(shape[1] // 2)
            sig = fr.add_signal(stg.constant_path(f_start=mid, drift_rate=0.0),
                                stg.constant_t_profile(level=PALETTES[pal]['level']),
                                stg.gaussian_f_profile(width=2.0 * fr.df),
                                stg.constant_bp_profile(level=1.0))
            if state == 'empty' and np.any(fr.data != 0):
                state = 'signal_only'
            out = 'signal'
        else:
            # a call the library refuses (Gaussian noise without a deviation; an unknown noise type) is not a noise addition:
            # data and estimates are as before, and the step that follows behaves as if it had not been attempted
            snap = (fr.data.copy(), fr.noise_mean, fr.noise_std)
            for bad_kw in (dict(x_mean=7.25, noise_type='gaussian'), dict(x_mean=7.25, noise_type='no-such-type')):
                try:
                    fr.add_noise(**bad_kw)
                    refused = False
                except Exception:
                    refused = True
                if refused and fresh and not (np.array_equal(fr.data, snap[0]) and fr.noise_mean == snap[1] and fr.noise_std == snap[2]
                                              and fr.data.dtype == snap[0].dtype):
                    V('refused_call_changed_state', '%s: a refused add_noise(%s) changed the frame: estimates (%r, %r) -> (%r, %r), data %s'
                      % (tag, bad_kw, snap[1], snap[2], fr.noise_mean, fr.noise_std,
                         'unchanged' if np.array_equal(fr.data, snap[0]) else 'changed'))
                if not refused:
                    # accepted after all: what it did is then a noise addition this history did not plan for -> rebuild the state
                    fr.data = snap[0].copy(); fr.noise_mean, fr.noise_std = snap[1], snap[2]
            spy.take()
            out, info = _do_noise(fr, spy, _hist_op(name, pal), c, sink, tag, state)
            if fresh:
                acc['amb'] += info['amb']
                acc['amb_signal_only'] += info['amb_signal_only']
                acc['clip_removed'] += info['clip_removed']
                acc['clip_iters'] += info['clip_iters']
                acc['trunc_active'] += info['trunc_active']
                if state == 'noisy' and info['ran']:
                    acc['clipped_checked'] += 1
            if info['ran']:
                state = 'noisy'
                r = info.get('returned')
                if isinstance(r, np.ndarray):
                    for hj, (obj, cp) in enumerate(held):
                        if fresh and (obj.shape != cp.shape or not np.array_equal(obj, cp)):
                            V('returned_array_overwritten', '%s: the noise array returned by an earlier addition (step %d) was modified by this '
                              'addition (the returned array is no longer what was added then)' % (tag, hj + 1), site='Frame.add_noise')
                            break
                    held.append((r, np.array(r, copy=True)))
        if fresh:
            snr = _snr_checks(fr, V, tag)
            checked.add(prefix)
            acc['transitions'] += 1
            acc['outcomes'].add('hist/%s/%s/snr=%s' % (name, out, snr))
            acc['state_keys'].add('zero=%s/mean0=%s/std0=%s/%s' % (not fr.data.any(), fr.noise_mean == 0,
                                                                   fr.noise_std == 0, out))
    acc['traces'] += 1


def case_history(c):
    viol = []

    def V(failure, detail, site='Frame.add_noise'):
        viol.append({'site': site, 'failure': failure, 'detail': detail})

    acc = dict(amb=0, amb_signal_only=0, clip_removed=0, clip_iters=0, trunc_active=0, clipped_checked=0, transitions=0, traces=0,
               outcomes=set(), state_keys=set())
    checked = set()
    head = list(c['head'])
    rest = c['depth'] - len(head)
    n = 0
    for tail in itertools.product(HIST_OPS, repeat=rest):
        _run_history(c, head + list(tail), checked, V, acc)
        n += 1
    res = {'viol': viol[:20], 'n': n, 'outcomes': sorted(acc['outcomes']), 'ambiguous': acc['amb'],
           'transitions': acc['transitions'], 'traces': acc['traces'], 'state_keys': sorted(acc['state_keys']),
           'extra': {'hist_clipped_estimates_checked': acc['clipped_checked'],
                     'hist_undecided_noise_on_signal_only_frame': acc['amb_signal_only'],
                     'hist_clip_removed_points': acc['clip_removed'], 'hist_clip_multi_iteration': acc['clip_iters'],
                     'hist_truncation_active': acc['trunc_active']}}
    if acc['clipped_checked'] and c['shape'][0] * c['shape'][1] >= 2:
        res['nontrivial'] = [engine.sha(c)]
    return res


# ============================================================================ (4): voltage noise
V_NOISE = [(0.0, 1.0), (0.0, 0.5), (2.0, 3.0), (-1.0, 1e-3), (5.0, 0.0)]


def _tap(stream):
    """Record what get_samples returns (update_noise calls it internally): the deviation 'of what it drew'
    is then observable without assuming which generator each noise source draws from."""
    box = []
    orig = stream.get_samples

    def tapped(num_samples):
        out = orig(num_samples)
        box.append(np.array(out, copy=True))
        return out
    stream.get_samples = tapped
    return box


def _stream_samples(reqs, sources, n):
    """Samples implied by the logged requests: one draw per noise source, in order of addition.
    Only decided when every source's draw was observed on the stream's own generator (a stream may give
    additional sources their own generators -- which generator a source uses is not stated by the property)."""
    reqs = [r for r in reqs if r.name in ('standard_normal', 'normal')]
    if len(reqs) != len(sources):
        return None, None
    v = np.zeros(n)
    for r, (mu, sd) in zip(reqs, sources):
        if r.args is None or r.name not in ('standard_normal', 'normal'):
            return None, 'unexpected request %r' % (r,)
        if as_shape(r.args.get('size')) != (n,):
            return None, '%r: size is not the number of samples %d' % (r, n)
        d = np.asarray(r.out)
        if r.name == 'standard_normal':
            v = v + (mu + sd * d)
        else:
            if float(r.args['loc']) != mu or float(r.args['scale']) != sd:
                return None, '%r: not the requested (mean, std) = (%r, %r)' % (r, mu, sd)
            v = v + d
    return v, None


def case_stream(c):
    from setigen.voltage import DataStream
    viol = []

    def V(failure, detail, site='DataStream.add_noise'):
        viol.append({'site': site, 'failure': failure, 'detail': detail})

    spy = SpyGenerator(_seed({'seed': c['seed'], 'op': c['seq']}, 5))
    st = DataStream(sample_rate=c['sample_rate'], fch1=0.0, ascending=True, t_start=0.0, seed=spy)
    if st.rng is not spy:
        raise engine.HarnessError('spy generator was not adopted by the stream')
    own2 = 0.0
    sources = []
    n = c['n']
    if c.get('custom_first'):
        # the documented custom-source workflow: a noise-like custom signal, its level measured by update_noise, then
        # built-in noise sources on top -- every one of them adds in quadrature to what is there
        st.add_signal(lambda ts: 2.0 * np.sin(1.0e3 * np.asarray(ts) * np.asarray(ts) + 0.3))
        st.update_noise(stats_calc_num_samples=64)
        own2 = float(st.noise_std) ** 2
        if not own2 > 0:
            V('update_not_replacing', 'update_noise on a stream with a custom source left noise_std = %r' % st.noise_std, site='DataStream.update_noise')
        for j, (mu, sd) in enumerate(c['seq']):
            st.add_noise(mu, sd)
            own2 += sd * sd
            if not close(st.noise_std, np.sqrt(own2), REL_ID) or not close(st.get_total_noise_std(), np.sqrt(own2), REL_ID):
                V('not_quadrature', 'custom source measured by update_noise, then %d add_noise calls %s: noise_std=%r, total %r, root-sum-square %r'
                  % (j + 1, c['seq'][:j + 1], float(st.noise_std), float(st.get_total_noise_std()), np.sqrt(own2)))
                break
        return {'viol': viol, 'outcomes': ['stream/custom/%d' % len(c['seq'])], 'nontrivial': [engine.sha(c)] if c['seq'] else []}
    _tv = (lambda v: np.dtype(c['vtype']).type(v) if float(v).is_integer() and abs(v) < 100 else v) if c.get('vtype') else (lambda v: v)
    for j, (mu, sd) in enumerate(c['seq']):
        st.add_noise(_tv(mu), _tv(sd))
        sources.append((mu, sd))
        own2 += sd * sd
        tag = 'after %d add_noise calls %s' % (j + 1, c['seq'][:j + 1])
        if not close(st.noise_std, np.sqrt(own2), REL_ID):
            V('not_quadrature', '%s: noise_std=%r, root-sum-square %r' % (tag, float(st.noise_std), np.sqrt(own2)))
            break
        if not close(st.get_total_noise_std(), np.sqrt(own2), REL_ID):
            V('total_not_quadrature', '%s: get_total_noise_std=%r, expected %r'
              % (tag, float(st.get_total_noise_std()), np.sqrt(own2)), site='DataStream.get_total_noise_std')
            break
    spy.take()
    got = np.array(st.get_samples(n), copy=True)
    ref, err = _stream_samples(spy.take(), sources, n)
    amb = 0
    if ref is None and err is None:
        amb += 1
    elif ref is None:
        V('request', err, site='DataStream.get_samples')
    else:
        tol = 1e-12 * (np.abs(ref) + sum(abs(m) + abs(s) * 10 for m, s in sources) + 1e-300)
        if got.shape != (n,) or not np.all(np.abs(got - ref) <= tol):
            V('samples_not_requested_noise', 'samples differ from sum(mean_i + std_i*draw_i) (max %.3g)'
              % float(np.abs(got - ref).max()), site='DataStream.get_samples')
    # "deviations add in quadrature" is a statement about the samples, not only about the bookkeeping: the sources of one stream
    # are independent draws.  4096 samples; acceptance band 7 sigma of the sample deviation (1/sqrt(2n) relative) -- sources that
    # replay one another's draws add linearly instead (>= 30 % off for the deviations used here)
    nz = [sd for _, sd in sources if sd != 0]
    if len(nz) >= 2 and own2 > 0:
        big = np.asarray(st.get_samples(4096), dtype=float)
        sd_s = float(np.std(big))
        band = 7.0 / np.sqrt(2 * 4096.0) + 0.01
        lin = float(sum(nz))
        if abs(sd_s / np.sqrt(own2) - 1.0) > band and abs(sd_s / lin - 1.0) < abs(sd_s / np.sqrt(own2) - 1.0):
            V('sources_not_independent', 'after add_noise calls %s the deviation of 4096 samples is %.4f; quadrature sum %.4f (acceptance +-%.1f%%), '
              'linear sum %.4f' % (c['seq'], sd_s, np.sqrt(own2), 100 * band, lin), site='DataStream.get_samples')
    # update_noise replaces the estimate by the deviation of the samples it draws
    spy.take()
    box = _tap(st)
    st.update_noise(stats_calc_num_samples=c['m'])
    del st.get_samples
    upd = 'n/a'
    if len(box) != 1 or box[0].shape != (c['m'],):
        V('request', 'update_noise drew %s' % [b.shape for b in box], site='DataStream.update_noise')
    else:
        ref = box[0]
        want = float(np.std(ref))
        if not close(st.noise_std, want, REL_EST, max(want, float(np.abs(ref).max()))):
            V('update_not_replacing', 'update_noise: noise_std=%r, deviation of the %d samples drawn %r (before: %r)'
              % (float(st.noise_std), c['m'], want, np.sqrt(own2)), site='DataStream.update_noise')
        else:
            upd = 'replaced'
            st.add_noise(0.0, 0.75)
            w2 = np.sqrt(want ** 2 + 0.75 ** 2)
            if not close(st.noise_std, w2, REL_ID):
                V('not_quadrature', 'add_noise after update_noise: noise_std=%r expected %r' % (float(st.noise_std), w2))
    res = {'viol': viol, 'outcomes': ['stream/%d/%s/zero=%s' % (len(c['seq']), upd, own2 == 0.0)], 'ambiguous': amb}
    if sum(1 for m, s in c['seq'] if s != 0) >= 2:
        res['nontrivial'] = [engine.sha(c)]
    return res


A_STD = [1.0, 0.5]


def _array_ops(A, pols):
    targets = [('bg', p) for p in range(pols)] + [('ant', i, p) for i in range(A) for p in range(pols)]
    ops = []
    for t in targets:
        for sd in A_STD:
            ops.append(list(t) + ['add', sd])
        ops.append(list(t) + ['upd'])
    return ops


def _run_array(c, seq, checked, V, acc):
    from setigen.voltage import MultiAntennaArray
    A, pols = c['A'], c['pols']
    arr = MultiAntennaArray(num_antennas=A, sample_rate=c['sample_rate'], fch1=0.0, ascending=True,
                            num_pols=pols, delays=list(c['delays']), t_start=0.0, seed=int(c['seed']) & 0x7fffffff)
    bgs = [arr.bg_x] + ([arr.bg_y] if pols == 2 else [])
    ants = [[a.x] + ([a.y] if pols == 2 else []) for a in arr.antennas]
    spies = {}
    for p, s in enumerate(bgs):
        s.rng = spies[('bg', p)] = SpyGenerator([int(c['seed']) & 0x7fffffff, 900 + p])
    for i, row in enumerate(ants):
        for p, s in enumerate(row):
            s.rng = spies[('ant', i, p)] = SpyGenerator([int(c['seed']) & 0x7fffffff, 100 + 10 * i + p])
    own = {k: 0.0 for k in spies}          # model: current estimate per stream
    src = {k: [] for k in spies}           # noise sources per stream
    m = c['m']
    for j, op in enumerate(seq):
        prefix = tuple(tuple(o) for o in seq[:j + 1])
        fresh = prefix not in checked
        key = tuple(op[:-2]) if op[-2] == 'add' else tuple(op[:-1])
        stream = bgs[key[1]] if key[0] == 'bg' else ants[key[1]][key[2]]
        tag = 'array A=%d pols=%d, history %s, step %d' % (A, pols, seq[:j + 1], j + 1)
        if op[-2] == 'add':
            sd = op[-1]
            mu = 0.25 if key[0] == 'bg' else 0.0
            stream.add_noise(mu, sd)
            src[key].append((mu, sd))
            own[key] = float(np.sqrt(own[key] ** 2 + sd ** 2))
            kind = 'add'
        else:
            box = _tap(stream)
            stream.update_noise(stats_calc_num_samples=m)
            del stream.get_samples
            if len(box) != 1 or box[0].shape != (m,):
                if fresh:
                    V('request', '%s: update_noise drew %s' % (tag, [b.shape for b in box]), site='DataStream.update_noise')
                own[key] = float(stream.noise_std)
            else:
                own[key] = float(np.std(box[0]))
            kind = 'upd'
        if not fresh:
            continue
        checked.add(prefix)
        acc['transitions'] += 1
        # every stream, every polarisation
        for p, b in enumerate(bgs):
            if not close(b.noise_std, own[('bg', p)], REL_EST if kind == 'upd' else REL_ID):
                V('bg_not_quadrature', '%s: background pol %d noise_std=%r, expected %r'
                  % (tag, p, float(b.noise_std), own[('bg', p)]), site='BackgroundDataStream.add_noise')
        for i, row in enumerate(ants):
            for p, s in enumerate(row):
                if not close(s.noise_std, own[('ant', i, p)], REL_EST if kind == 'upd' else REL_ID):
                    V('not_quadrature' if kind == 'add' else 'update_not_replacing',
                      '%s: antenna %d pol %d noise_std=%r, expected %r'
                      % (tag, i, p, float(s.noise_std), own[('ant', i, p)]),
                      site='DataStream.add_noise' if kind == 'add' else 'DataStream.update_noise')
                if float(s.bg_noise_std) != float(bgs[p].noise_std):
                    V('background_not_propagated', '%s: antenna %d pol %d bg_noise_std=%r, background stream '
                      'noise_std=%r' % (tag, i, p, float(s.bg_noise_std), float(bgs[p].noise_std)),
                      site='BackgroundDataStream.add_noise' if kind == 'add' else 'BackgroundDataStream.update_noise')
                want = float(np.sqrt(own[('ant', i, p)] ** 2 + own[('bg', p)] ** 2))
                if not close(s.get_total_noise_std(), want, REL_EST):
                    V('total_not_quadrature', '%s: antenna %d pol %d get_total_noise_std=%r, sqrt(own^2+bg^2)=%r'
                      % (tag, i, p, float(s.get_total_noise_std()), want), site='DataStream.get_total_noise_std')
        acc['outcomes'].add('array/%s/%s/nbg=%d' % (kind, key[0], sum(1 for p in range(pols) if own[('bg', p)] > 0)))
    acc['traces'] += 1


def case_array(c):
    viol = []

    def V(failure, detail, site='DataStream.add_noise'):
        if len(viol) < 20:
            viol.append({'site': site, 'failure': failure, 'detail': detail})

    acc = dict(transitions=0, traces=0, outcomes=set())
    ops = _array_ops(c['A'], c['pols'])
    head = [list(o) for o in c['head']]
    rest = c['depth'] - len(head)
    checked = set()
    n = 0
    for tail in itertools.product(ops, repeat=rest):
        _run_array(c, head + [list(o) for o in tail], checked, V, acc)
        n += 1
    res = {'viol': viol, 'n': n, 'transitions': acc['transitions'], 'traces': acc['traces'],
           'outcomes': sorted(acc['outcomes'])}
    if c['depth'] >= 2:
        res['nontrivial'] = [engine.sha(c)]
    return res


def case_handbuilt(c):
    """Hand-built arrays: background streams made WITHOUT a member list (the documented default), members attached afterwards.
    A second, unrelated background stream made the same way has no members: its noise changes no stream of the first."""
    from setigen.voltage import DataStream, BackgroundDataStream
    viol = []
    own, bg1, bg2 = c['own'], c['bg1'], c['bg2']
    try:
        s_a = DataStream(sample_rate=48e3, seed=1)
        s_a.add_noise(0, own)
        bg_a = BackgroundDataStream(sample_rate=48e3, seed=2)
        bg_a.antenna_streams.append(s_a)
        bg_a.add_noise(0, bg1)
        before = float(s_a.get_total_noise_std())
        bg_b = BackgroundDataStream(sample_rate=48e3, seed=3)       # another array's background, no members given
        members_b = len(bg_b.antenna_streams)
        bg_b.add_noise(0, bg2)
        after = float(s_a.get_total_noise_std())
        want = float(np.sqrt(own * own + bg1 * bg1))
        if not close(before, want, REL_ID) or not close(after, want, REL_ID) or members_b != 0:
            viol.append({'site': 'BackgroundDataStream', 'failure': 'background_leaks_between_arrays',
                         'detail': 'stream with own deviation %r under a background of %r: total %r; after an UNRELATED BackgroundDataStream() '
                                   '(created with %d members) added noise of %r the total is %r, root-sum-square %r'
                                   % (own, bg1, before, members_b, bg2, after, want)})
    except Exception as e:
        viol.append({'site': 'BackgroundDataStream', 'failure': 'raised', 'detail': '%s: %s' % (type(e).__name__, e)})
    return {'viol': viol, 'n': 1, 'nontrivial': [engine.sha(c)], 'outcomes': ['handbuilt']}


# ============================================================================ auxiliary (not deciding)
def case_aux(c):
    """Seeded sample moments inside 7-sigma bands: counters only, never a violation."""
    shape = tuple(c['shape'])
    n = shape[0] * shape[1]
    fr = _mk_frame(shape, c['df'], c['dt'], np.random.default_rng([int(c['seed']) & 0x7fffffff, 4242]))
    k = fr.chi2_df
    if c['kind'] == 'chi2':
        x = fr.add_noise(c['mean'])
        mu, var, kurt = c['mean'], 2.0 * c['mean'] ** 2 / k, 3.0 + 12.0 / k
    else:
        x = fr.add_noise(c['mean'], c['std'], noise_type='gaussian')
        mu, var, kurt = c['mean'], c['std'] ** 2, 3.0
    se_mean = np.sqrt(var / n)
    se_var = np.sqrt((kurt - (n - 3.0) / (n - 1.0)) / n) * var      # finite-sample variance of s^2
    s2 = float(np.var(x, ddof=1))
    inside = abs(float(np.mean(x)) - mu) <= 7 * se_mean and abs(s2 - var) <= 7 * se_var
    return {'viol': [], 'outcomes': ['aux/%s' % ('in' if inside else 'OUT')],
            'extra': {'aux_moments_in_7sigma_band': int(inside), 'aux_moments_out_of_band': int(not inside)}}


# ============================================================================ enumeration
def run(ctx):
    thorough = ctx.tier == 'thorough'
    seed = int(ctx.seed)
    res = RES_T if thorough else RES_Q
    shapes = SHAPES_T if thorough else SHAPES_Q
    # (1)+(2) request box: simplest shapes first
    ops = _request_ops(ctx.tier)
    cases = []
    for shape in shapes:
        for df, dt in res:
            for preload in (False, True):
                for op in ops:
                    cases.append(dict(shape=list(shape), df=df, dt=dt, preload=preload, op=op, seed=seed))
    ctx.pmap(case_request, cases)
    n_req = len(cases)
    # (3) histories
    depth = 4 if thorough else 3
    hshapes = [(1, 1), (3, 4), (16, 8)] + ([(32, 64)] if thorough else [])
    hres = [(1.0, 1.0), (1.51, 1.0), (BL_DF, BL_DT)]
    pals = ['A', 'B']
    hcases = []
    for shape in hshapes:
        for df, dt in hres:
            for pal in pals:
                for init in ('empty', 'data') + (('data32',) if (thorough or (shape == (3, 4) and (df, dt) == (1.51, 1.0))) else ()):
                    for head in itertools.product(HIST_OPS, repeat=2):
                        hcases.append(dict(shape=list(shape), df=df, dt=dt, palette=pal, init=init, head=list(head),
                                           depth=depth, seed=seed))
    ctx.pmap(case_history, hcases, chunk=4)
    # (4) voltage
    sdepth = 4 if thorough else 3
    scases = [dict(seq=[], sample_rate=3e9, n=16, m=24, seed=seed)]
    for d in range(1, sdepth + 1):
        for seq in itertools.product(V_NOISE, repeat=d):
            scases.append(dict(seq=[list(s) for s in seq], sample_rate=3e9 if d % 2 else 48e3, n=16, m=24, seed=seed))
            if d <= 2:
                scases.append(dict(seq=[list(s) for s in seq], sample_rate=48e3, n=16, m=24, seed=seed, custom_first=True))
    # (sub-box) whole-number means / deviations handed over as narrow numpy integers
    for seq in ([[2, 3]], [[0, 20], [2, 3]], [[0, 90], [0, 90]], [[2, 3], [0, 20], [0, 90]]):
        for vt in ('int8', 'uint8', 'int16', 'float16'):
            scases.append(dict(seq=seq, sample_rate=48e3, n=16, m=24, seed=seed, vtype=vt))
    ctx.pmap(case_stream, scases)
    acases = []
    cfgs = [(1, 1, 3), (1, 2, 3), (2, 1, 3), (2, 2, 3), (3, 2, 2)] if not thorough else \
           [(1, 1, 4), (1, 2, 4), (2, 1, 4), (2, 2, 4), (3, 1, 3), (3, 2, 3)]
    for A, pols, d in cfgs:
        aops = _array_ops(A, pols)
        delays = list(range(A))
        for h in itertools.product(aops, repeat=2):
            acases.append(dict(A=A, pols=pols, delays=delays, sample_rate=48e3, head=[list(o) for o in h], depth=d,
                               m=24, seed=seed))
    ctx.pmap(case_array, acases, chunk=2)
    ctx.pmap(case_handbuilt, [dict(own=o, bg1=a, bg2=b) for o in (3.0, 0.5) for a in (4.0, 1.0) for b in (12.0, 0.25)])
    # auxiliary
    aux = []
    for df, dt in ((1.0, 1.0), (BL_DF, BL_DT)):
        aux.append(dict(kind='chi2', mean=10.0, shape=[64, 256], df=df, dt=dt, seed=seed))
        aux.append(dict(kind='chi2', mean=4.2e6, shape=[64, 256], df=df, dt=dt, seed=seed))
        aux.append(dict(kind='gaussian', mean=10.0, std=2.0, shape=[64, 256], df=df, dt=dt, seed=seed))
        aux.append(dict(kind='gaussian', mean=-3.0, std=0.25, shape=[64, 256], df=df, dt=dt, seed=seed))
    ctx.pmap(case_aux, aux)
    if ctx.extra.get('aux_moments_out_of_band'):
        ctx.notes.append('AUXILIARY (not deciding): %d seeded moment checks fell outside their 7-sigma band'
                         % ctx.extra['aux_moments_out_of_band'])
    return ctx.finish(
        rule='(1)+(2): complete product shapes x (df,dt) x {empty, preloaded} x every noise call variant (add_noise: '
             'chi2 / gaussian / normal, with and without floor, floor below / at / above the mean; add_noise_from_obs: '
             'which tables are supplied x table lengths x mean>std or std>mean x share_index True/False/default x noise '
             'type, and the shipped default tables); (3): every operation sequence of the stated depth over the '
             'alphabet from an empty and from a preloaded frame, each executed on a fresh real frame; (4): every '
             'sequence of add_noise on a DataStream and every sequence of {add_noise, update_noise} x {background, '
             'antenna} x polarisation on a MultiAntennaArray up to the stated depth.  A request case is non-trivial '
             'when the call returned noise for a frame of >= 2 pixels; a history case when >= 1 estimate was compared '
             'with the independent clipped estimate on a frame of >= 2 pixels; a stream case when >= 2 non-zero '
             'deviations were combined; an array case when it has >= 2 operations.  distinct = distinct parameter '
             'tuples / operation prefixes',
        assumptions=['numpy Generator.chisquare / normal / standard_normal / choice / integers realise the distributions '
                     'they document (the check decides what is requested, not what numpy returns)',
                     'df*dt >= 1 (the property quantifier); products within 1e-9 (relative) of a rounding tie are not decided; an exactly half-integer product is decided by round-half-to-even (Python round)',
                     'a frame that holds signals but has never held noise is neither "empty" nor "non-empty" for the '
                     'property: either estimate is accepted there and the case is counted as ambiguous',
                     'clipped estimates compared at 1e-9 relative; a sample within 1e-11 of a clipping bound makes the '
                     'comparison ambiguous (counted, skipped)',
                     'non-shared table sampling may raise the mean to the selected deviation (documented in '
                     'sample_gaussian_params); counted in req_mean_raised_to_std',
                     'error paths outside the documented argument combinations (no x_std, unknown noise_type) are '
                     'executed and recorded but nothing is demanded of them beyond returned == added',
                     'auxiliary seeded moment checks are reported in counters and never decide'],
        coverage_extra={'bounds': {'shapes': [list(s) for s in shapes], 'df_dt': [list(r) for r in res],
                                   'request_variants': len(ops), 'request_cases': n_req,
                                   'history_depth': depth, 'history_shapes': [list(s) for s in hshapes],
                                   'history_resolutions': [list(r) for r in hres], 'history_palettes': pals,
                                   'stream_depth': sdepth, 'array_configs_A_pols_depth': [list(x) for x in cfgs]},
                        'alphabet': HIST_OPS + ['construct_from_data'], 'max_depth': depth})
