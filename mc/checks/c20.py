"""
C20 -- Block, length and sample accounting is exact and consistent across helpers.

E-PROD: (i) a pure-arithmetic box of backend constructors x block counts x durations, run through the
real constructor and the real record() with the data path stubbed (no samples are computed, headers are
captured instead of written); (ii) real recordings with a spy antenna for the "draws exactly ... samples
and advances its clock accordingly" clause.  Oracle: exact integer / rational arithmetic.
"""
import os
from fractions import Fraction as Fr
import numpy as np

from mc import engine, vharness
from mc.refs import guppi
from mc.refs.axes import F, ulp, close_ulps

PROPERTY = 'C20'
LEVEL = 'exploration'

RATES = [1e3, 48e3, 7e5, 1.1e6, 3e9, 2.4e9 / 7]
BRANCHES = [8, 15, 48, 64, 1024]          # 15: an odd number of branches (7 coarse channels) is admitted by the constructor
TAPS = [2, 4, 8]
SPB_MULT = [1, 2, 3, 13, 125]

_FB = {}


def _fb(M, P):
    import setigen.voltage as sv
    if (M, P) not in _FB:
        _FB[(M, P)] = sv.PolyphaseFilterbank(num_taps=M, num_branches=P)
    return _FB[(M, P)]


def _T(c):
    """Integer arguments as the caller's numeric type: plain Python ints, or numpy fixed-width integers (what comes out of a
    header array / an arange) whenever the value fits the type."""
    nt = c.get('ntype')
    if not nt:
        return lambda x: x
    ty = np.dtype(nt).type
    info = np.iinfo(nt)
    return lambda x: ty(x) if info.min <= int(x) <= info.max else int(x)


def _mk(c):
    """Backend with shared filterbank objects (list form: no deepcopy) and the data path stubbed."""
    import setigen.voltage as sv
    na, npol = c['nants'], c['npol']
    t0 = _T(c)        # the source's polarisation / antenna counts and the requantiser's bit depth in the caller's numeric type too
    if na == 1:
        src = sv.Antenna(sample_rate=c['rate'], fch1=c.get('fch1', 0.0), ascending=c.get('asc', True),
                         num_pols=t0(npol), seed=1)
    else:
        src = sv.MultiAntennaArray(num_antennas=t0(na), sample_rate=c['rate'], fch1=c.get('fch1', 0.0),
                                   ascending=c.get('asc', True), num_pols=t0(npol), delays=[0] * na, seed=1)
    fb = _fb(c['M'], c['P'])
    dig = [[sv.RealQuantizer() for _ in range(npol)] for _ in range(na)]
    rq = [[sv.ComplexQuantizer(num_bits=t0(c['bits'])) for _ in range(npol)] for _ in range(na)]
    fbl = [[fb for _ in range(npol)] for _ in range(na)]
    bps = 2 * npol * c['bits'] // 8
    spb = c['spb']
    block_size = spb * na * c['nchans'] * bps
    t = _T(c)
    be = sv.RawVoltageBackend(src, digitizer=dig, filterbank=fbl, requantizer=rq, start_chan=t(0),
                              num_chans=t(c['nchans']), block_size=t(block_size), blocks_per_file=t(1000),
                              num_subblocks=t(1))
    captured = []

    def fake_header(f, header_dict):
        captured.append(dict(header_dict))
        header_dict['PKTIDX'] += be.samples_per_block

    def fake_block(**kw):
        return np.zeros((0,))
    be._make_header = fake_header
    be.collect_data_block = fake_block
    return be, captured, block_size


def case_arith(c):
    import setigen.voltage as sv
    from setigen.voltage import level_utils
    import setigen as stg
    viol = []

    def V(failure, detail, site='RawVoltageBackend'):
        viol.append({'site': site, 'failure': failure, 'detail': detail})

    try:
        be, cap, block_size = _mk(c)
    except Exception as e:
        V('constructor_raised', '%s: %s' % (type(e).__name__, e))
        return {'viol': viol}
    rate, P, spb = c['rate'], c['P'], c['spb']
    na, nch, npol, bits = c['nants'], c['nchans'], c['npol'], c['bits']
    t = _T(c)
    n_eval = 0
    if be.samples_per_block != spb:
        V('samples_per_block', 'samples_per_block=%r expected %d' % (be.samples_per_block, spb))
    tpb_x = Fr(spb * P) / F(rate)
    if not close_ulps(be.time_per_block, tpb_x, float(tpb_x), 2):
        V('time_per_block', 'time_per_block=%r exact %r' % (be.time_per_block, float(tpb_x)))
    if not close_ulps(be.tbin, Fr(P) / F(rate), float(Fr(P) / F(rate)), 1):
        V('tbin', 'tbin=%r' % be.tbin)
    stem = os.path.join(engine.workdir(), 'c20a')
    outcomes = set()
    # packet-counter cards the caller may supply: none, only a start, only a first index, both (different), a start of 0 with a later first index
    HDS = ({}, {'PKTSTART': 4096}, {'PKTIDX': 100}, {'PKTSTART': 4096, 'PKTIDX': 100}, {'PKTSTART': 0, 'PKTIDX': 100})
    for n, hd in [(n_, h_) for n_ in c['num_blocks'] for h_ in HDS]:
        del cap[:]
        pkt0 = hd.get('PKTIDX', 0)
        pstart = hd.get('PKTSTART', pkt0)
        try:
            be.record(output_file_stem=stem, num_blocks=t(n), length_mode='num_blocks', header_dict=dict(hd),
                      load_template=False, verbose=False)
        except Exception as e:
            V('record_raised', 'num_blocks=%d: %s: %s' % (n, type(e).__name__, e), site='RawVoltageBackend.record')
            break
        n_eval += 1
        tot = n * spb * P
        if be.num_blocks != n:
            V('num_blocks', 'num_blocks=%r expected %d' % (be.num_blocks, n), site='RawVoltageBackend.record')
        if be.total_obs_num_samples != tot:
            V('total_obs_num_samples', 'num_blocks=%d: total_obs_num_samples=%r, exact %d (= n*spb*P = %d*%d*%d)'
              % (n, be.total_obs_num_samples, tot, n, spb, P), site='RawVoltageBackend.record')
        ol_x = Fr(tot) / F(rate)
        if not close_ulps(be.obs_length, ol_x, float(ol_x), 4):
            V('obs_length', 'obs_length=%r exact %r' % (be.obs_length, float(ol_x)), site='RawVoltageBackend.record')
        if len(cap) != n:
            V('blocks_written', '%d headers written for %d blocks' % (len(cap), n), site='RawVoltageBackend.record')
        elif n:
            h = cap[0]
            if abs(F(h['SCANLEN']) - ol_x) > Fr(1, 10**12) * ol_x:
                V('scanlen', 'SCANLEN=%r exact %r' % (h['SCANLEN'], float(ol_x)), site='RawVoltageBackend.record')
            if int(h['PKTSTART']) != pstart or int(h['PKTSTOP']) - int(h['PKTSTART']) != n * spb:
                V('pktstop', 'caller cards %r: PKTSTART=%r PKTSTOP=%r, expected %d and %d + %d' % (hd, h['PKTSTART'], h['PKTSTOP'], pstart, pstart, n * spb),
                  site='RawVoltageBackend.record')
            if cap[-1]['PKTIDX'] != pkt0 + (n - 1) * spb:
                V('pktidx', 'caller cards %r: last PKTIDX=%r expected %d' % (hd, cap[-1]['PKTIDX'], pkt0 + (n - 1) * spb), site='RawVoltageBackend.record')
        # stand-alone helper
        try:
            g = sv.get_total_obs_num_samples(num_blocks=t(n), length_mode='num_blocks', num_antennas=t(na),
                                             sample_rate=rate, block_size=t(block_size), num_bits=t(bits),
                                             num_pols=t(npol), num_branches=t(P), num_chans=t(nch))
            if g != tot:
                V('helper_total', 'get_total_obs_num_samples(num_blocks=%d)=%r exact %d' % (n, g, tot),
                  site='backend.get_total_obs_num_samples')
        except Exception as e:
            V('raised', '%s: %s' % (type(e).__name__, e), site='backend.get_total_obs_num_samples')
        # the level helper counts whole fine spectra: n * samples-per-block // fftlength (exact integers)
        for Nf in sorted(set((1, 2, 4, spb, 16384))):       # (spb: exactly one fine spectrum per block; 16384 * branches exceeds int16 / int32 for many P)
            if n and (n * spb) % Nf == 0:
                try:
                    lv = float(level_utils.get_level(10.0, be, Nf, num_blocks=t(n), length_mode='num_blocks'))
                    # the FFT length as a numpy fixed-width integer gives the same level (the product with the branch count is
                    # formed in Python integers)
                    for ty_ in (np.int16, np.int32):
                        if Nf <= np.iinfo(ty_).max:
                            lv_t = float(level_utils.get_level(10.0, be, ty_(Nf), num_blocks=t(n), length_mode='num_blocks'))
                            if lv_t != lv and not (lv_t != lv_t and lv != lv):
                                V('get_level_typed_fftlength', 'get_level(fftlength=%s(%d))=%r, with a Python int %r (num_branches=%d)'
                                  % (ty_.__name__, Nf, lv_t, lv, P), site='level_utils.get_level')
                    tch_x = n * spb // Nf
                    want_lv = (10.0 * (2.0 / (2 * npol)) ** 0.5 / tch_x ** 0.5) ** 0.5 / (P * Nf / 4.0) ** 0.5
                    if abs(lv - want_lv) > 1e-12 * want_lv:
                        V('get_level_spectra', 'get_level(snr=10, fftlength=%d, num_blocks=%d)=%r; with %d fine spectra it is %r (ratio %.6f)'
                          % (Nf, n, lv, tch_x, want_lv, lv / want_lv), site='level_utils.get_level')
                except ZeroDivisionError:
                    pass
                except Exception as e:
                    V('raised', '%s: %s' % (type(e).__name__, e), site='level_utils.get_level')
        outcomes.add('nb')
    # durations
    durs = [float((Fr(n) + F(dq)) * tpb_x) for n in c['dur_n'] for dq in c['dur_q']]
    # (sub-box) the same whole-block durations held as single-precision scalars: the VALUE such a scalar has (a few 1e-8 blocks
    # off the boundary, either side) decides, not a single-precision evaluation of the block count
    durs += [np.float32(float(Fr(n) * tpb_x)) for n in c['dur_n']]
    for d in durs:
        if True:
            if d <= 0:
                continue
            q = F(float(d)) / tpb_x
            fl = q.numerator // q.denominator
            near = abs(q - round(q)) <= Fr(1, 10**9)
            allowed = {int(round(q)), int(round(q)) - 1} if near else {int(fl)}
            allowed = {a for a in allowed if a >= 0}
            try:
                gnb = be.get_num_blocks(d)
            except Exception as e:
                V('raised', '%s: %s' % (type(e).__name__, e), site='RawVoltageBackend.get_num_blocks')
                continue
            n_eval += 1
            if gnb not in allowed:
                V('get_num_blocks', 'get_num_blocks(%r)=%r; duration is %s blocks, allowed %s'
                  % (d, gnb, float(q), sorted(allowed)), site='RawVoltageBackend.get_num_blocks')
            del cap[:]
            try:
                be.record(output_file_stem=stem, obs_length=d, length_mode='obs_length', header_dict={},
                          load_template=False, verbose=False)
            except Exception as e:
                V('record_raised', 'obs_length=%r: %s: %s' % (d, type(e).__name__, e), site='RawVoltageBackend.record')
                continue
            if be.num_blocks not in allowed:
                V('duration_blocks', 'record(obs_length=%r) wrote %r blocks; allowed %s' % (d, be.num_blocks, sorted(allowed)),
                  site='RawVoltageBackend.record')
            else:
                if len(cap) != be.num_blocks:
                    V('blocks_written', '%d headers for %d blocks' % (len(cap), be.num_blocks), site='RawVoltageBackend.record')
                if be.total_obs_num_samples != be.num_blocks * spb * P:
                    V('total_obs_num_samples', 'obs_length=%r: total_obs_num_samples=%r exact %d'
                      % (d, be.total_obs_num_samples, be.num_blocks * spb * P), site='RawVoltageBackend.record')
                # does not exceed the request (beyond the boundary clause) and falls short by < 1 block
                if not near and not (Fr(be.num_blocks) <= q < Fr(be.num_blocks + 1)):
                    V('duration_bound', 'blocks=%d for %s blocks requested' % (be.num_blocks, float(q)),
                      site='RawVoltageBackend.record')
            try:
                g = sv.get_total_obs_num_samples(obs_length=d, length_mode='obs_length', num_antennas=t(na),
                                                 sample_rate=rate, block_size=t(block_size), num_bits=t(bits),
                                                 num_pols=t(npol), num_branches=t(P), num_chans=t(nch))
                if g not in {a * spb * P for a in allowed}:
                    V('helper_total', 'get_total_obs_num_samples(obs_length=%r)=%r; allowed blocks %s x %d'
                      % (d, g, sorted(allowed), spb * P), site='backend.get_total_obs_num_samples')
            except Exception as e:
                V('raised', '%s: %s' % (type(e).__name__, e), site='backend.get_total_obs_num_samples')
            # the level helper resolves a duration to the whole blocks the backend records: the same level as for that block count
            try:
                lv_d = level_utils.get_level(10.0, be, 1, obs_length=d, length_mode='obs_length')
                lv_b = []
                for a in sorted(allowed):
                    try:
                        lv_b.append(level_utils.get_level(10.0, be, 1, num_blocks=a, length_mode='num_blocks'))
                    except ZeroDivisionError:
                        lv_b.append(float('inf'))
                if lv_b and not any(lv_d == x for x in lv_b):
                    V('get_level_duration', 'get_level(obs_length=%r)=%r; for the %s block(s) the backend records it is %s'
                      % (d, lv_d, sorted(allowed), lv_b), site='level_utils.get_level')
            except ZeroDivisionError:
                pass
            except Exception as e:
                V('raised', '%s: %s' % (type(e).__name__, e), site='level_utils.get_level')
            outcomes.add('dur%s' % ('near' if near else 'far'))
    # helpers tied to fine channelisation
    for N in c['fft']:
        for I in c['fft']:
            n_eval += 1
            tch = 3
            try:
                bs = sv.get_block_size(num_antennas=t(na), tchans_per_block=t(tch), num_bits=t(bits), num_pols=t(npol),
                                       num_branches=t(P), num_chans=t(nch), fftlength=t(N), int_factor=t(I))
                want = tch * N * I * na * nch * (2 * npol * bits // 8)
                if bs != want:
                    V('get_block_size', 'get_block_size=%r expected %d' % (bs, want), site='backend.get_block_size')
            except Exception as e:
                V('raised', '%s: %s' % (type(e).__name__, e), site='backend.get_block_size')
            df_x = F(rate) / P / N
            dt_x = Fr(N * I * P) / F(rate)
            try:
                udr = level_utils.get_unit_drift_rate(be, t(N), t(I))
                wantu = df_x / dt_x
                # signed like the backend's own channel bandwidth (negative for descending bands): a one-pixel shift in a
                # descending product is a negative frequency step -- "agrees with the backend for the same inputs"
                sgn_bw = 1 if be.chan_bw > 0 else -1
                if abs(abs(F(udr)) - wantu) > wantu * Fr(1, 10**12) or (udr > 0) != (sgn_bw > 0):
                    V('unit_drift_rate', 'get_unit_drift_rate=%r exact %r' % (udr, float(wantu)),
                      site='level_utils.get_unit_drift_rate')
            except Exception as e:
                V('raised', '%s: %s' % (type(e).__name__, e), site='level_utils.get_unit_drift_rate')
            k = 5
            obs = float((Fr(k) + Fr(1, 2)) * dt_x)
            try:
                pd = stg.params_from_backend(obs_length=obs, sample_rate=rate, num_branches=t(P), fftlength=t(N), int_factor=t(I))
                if abs(F(pd['df']) - df_x) > df_x * Fr(1, 10**12) or abs(F(pd['dt']) - dt_x) > dt_x * Fr(1, 10**12) \
                        or pd['tchans'] != k:
                    V('params_from_backend', 'params_from_backend=%r; exact df=%r dt=%r tchans=%d'
                      % (pd, float(df_x), float(dt_x), k), site='frame.params_from_backend')
                # the Frame classmethod must agree with the stand-alone function and the backend
                import io as _io, contextlib as _cl
                with _cl.redirect_stdout(_io.StringIO()):
                    frm = stg.Frame.from_backend_params(fchans=t(4), obs_length=obs, sample_rate=rate, num_branches=t(P),
                                                        fftlength=t(N), int_factor=t(I), fch1=6e9 if 6e9 / float(df_x) <= 2.0**36 else 1e3)
                if frm.df != pd['df'] or frm.dt != pd['dt'] or frm.tchans != pd['tchans']:
                    V('frame_from_backend_params', 'Frame.from_backend_params -> df=%r dt=%r tchans=%r; params_from_backend -> %r '
                      '(num_branches=%d)' % (frm.df, frm.dt, frm.tchans, pd, P), site='Frame.from_backend_params')
                if abs(F(frm.unit_drift_rate) - df_x / dt_x) > (df_x / dt_x) * Fr(1, 10**12):
                    V('frame_unit_drift_rate', 'frame unit_drift_rate=%r, backend pixel drift %r' % (frm.unit_drift_rate, float(df_x / dt_x)),
                      site='Frame.from_backend_params')
                if abs(F(pd['df']) - abs(F(be.chan_bw)) / N) > df_x * Fr(1, 10**12) or \
                        abs(F(pd['dt']) - F(be.tbin) * N * I) > dt_x * Fr(1, 10**12):
                    V('params_vs_backend', 'params_from_backend disagrees with backend chan_bw/tbin', site='frame.params_from_backend')
            except Exception as e:
                V('raised', '%s: %s' % (type(e).__name__, e), site='frame.params_from_backend')
    return {'viol': viol, 'n': n_eval, 'nontrivial': [engine.sha(c)], 'outcomes': sorted(outcomes)}


def case_real(c):
    """Real recordings with a spy antenna: samples drawn and clock advance."""
    viol = []

    def V(failure, detail, site='RawVoltageBackend.record'):
        viol.append({'site': site, 'failure': failure, 'detail': detail})
    cfg = dict(M=c['M'], P=c['P'], start_chan=c['start_chan'], num_chans=c['num_chans'], r=c['r'],
               num_subblocks=c['num_subblocks'], bpf=c['bpf'], npol=c['npol'], source=c['source'], bits=c['bits'],
               sample_rate=c['rate'], t_start=c['t_start'])
    try:
        be, src, dig, fb, rq = vharness.make_backend(cfg, seed=3)
    except Exception as e:
        V('constructor_raised', '%s: %s' % (type(e).__name__, e), site='RawVoltageBackend')
        return {'viol': viol}
    stem = os.path.join(engine.workdir(), 'c20r_%s' % engine.sha(c))
    M, P, T = c['M'], c['P'], c['r'] * c['M']
    rate = c['rate']
    for rec in range(c['recordings']):
        n = c['num_blocks']
        del src.log[:]
        t0 = src.t_start
        streams0 = [s.t_start for s in (src.streams if c['source'] == 'ant' else src.bg_streams)]
        try:
            be.record(output_file_stem=stem, num_blocks=n, length_mode='num_blocks', header_dict={},
                      load_template=False, verbose=False)
        except Exception as e:
            V('record_raised', '%s: %s' % (type(e).__name__, e))
            break
        drawn = sum(k for k, _, _ in src.log)
        want = n * T * P + M * P
        if drawn != want:
            V('samples_drawn', 'recording %d drew %d samples in %d requests; exact n*spb*P + M*P = %d'
              % (rec, drawn, len(src.log), want))
        bad = [k for k, _, _ in src.log if k % (M * P)]
        if bad:
            V('request_granularity', 'requests %s are not multiples of num_taps*num_branches' % bad[:5])
        t_x = F(t0) + Fr(want) / F(rate)
        tol = (len(src.log) + 2)
        if not close_ulps(src.t_start, t_x, max(abs(float(t_x)), float(Fr(want) / F(rate))), tol):
            V('clock', 'antenna clock %r after recording; exact %r' % (src.t_start, float(t_x)))
        if c['source'] == 'ant':
            for s, s0 in zip(src.streams, streams0):
                if not close_ulps(s.t_start, t_x, max(abs(float(t_x)), 1e-300), tol):
                    V('stream_clock', 'stream clock %r; exact %r' % (s.t_start, float(t_x)))
        if be.total_obs_num_samples != n * T * P:
            V('total_obs_num_samples', 'total_obs_num_samples=%r exact %d' % (be.total_obs_num_samples, n * T * P))
        # header written to disk
        files = guppi.list_files(stem)
        try:
            blocks = [b for fn in files for b in guppi.parse_file(fn)]
            if len(blocks) != n:
                V('blocks_on_disk', '%d blocks on disk, %d requested' % (len(blocks), n))
            else:
                h = blocks[0]['header']
                ol = Fr(n * T * P) / F(rate)
                if abs(F(float(h['SCANLEN'])) - ol) > ol * Fr(1, 10**12):
                    V('scanlen', 'SCANLEN=%r exact %r' % (h['SCANLEN'], float(ol)))
                if h['PKTSTOP'] - h['PKTSTART'] != n * T:
                    V('pktstop', 'PKTSTOP-PKTSTART=%r expected %d' % (h['PKTSTOP'] - h['PKTSTART'], n * T))
        except guppi.GuppiFormatError as e:
            V('framing', str(e))
        for fn in files:
            os.remove(fn)
    return {'viol': viol, 'nontrivial': [engine.sha(c)], 'outcomes': ['real/%d' % len(src.log)],
            'extra': {'get_samples_requests': len(src.log)}}


def case_from_data(c):
    """Backends built from existing RAW: requested lengths shorter / equal / longer than the input (both length modes);
    the reported lengths must describe the blocks actually written (the request is clamped to the input)."""
    import setigen.voltage as sv
    from mc.checks import c14
    viol = []

    def V(failure, detail, site='RawVoltageBackend.record'):
        viol.append({'site': site, 'failure': failure, 'detail': detail})
    wd = engine.workdir()
    stem_in = os.path.join(wd, 'c20in_%s' % engine.sha(c))
    stem_out = os.path.join(wd, 'c20out_%s' % engine.sha(c))
    ci = dict(bits=c['bits'], npol=c['npol'], nants=1, directio=c['directio'], aligned=False, layout=c['layout'], content='tone',
              digitize=True, T=c['T'], nchans=3, start_chan=0, recordings=1, seed=0)
    in_blocks, bpf_in, ncards, blocsize = c14.write_input(ci, stem_in, 9)
    n_in = len(in_blocks)
    Pb, rate, T = c14.P, c14.RATE, c['T']
    n = 0
    try:
        for req in c['requests']:
            ant = sv.Antenna(sample_rate=rate, fch1=0.0, ascending=True, num_pols=c['npol'], seed=2)
            ant.x.add_constant_signal(f_start=200.0, drift_rate=0.0, level=0.3)
            fb = sv.PolyphaseFilterbank(num_taps=c14.M, num_branches=Pb)
            fb.estimate_channelized_stds(factor=50, seed=4)
            be = sv.RawVoltageBackend.from_data(stem_in, ant, digitizer=sv.RealQuantizer(), filterbank=fb, start_chan=0, num_subblocks=2)
            for fn in guppi.list_files(stem_out):
                os.remove(fn)
            kw = {}
            if req[0] == 'num_blocks':
                kw = dict(length_mode='num_blocks')
                if req[1] is not None:
                    kw['num_blocks'] = req[1]
            else:
                kw = dict(length_mode='obs_length')
                if req[1] is not None:
                    kw['obs_length'] = (req[1] + 0.5) * T * Pb / rate
            want = n_in if req[1] is None else min(req[1], n_in)
            try:
                be.record(output_file_stem=stem_out, header_dict={}, load_template=False, verbose=False, **kw)
            except Exception as e:
                V('record_raised', 'request %s: %s: %s' % (req, type(e).__name__, e))
                continue
            n += 1
            blocks = [b for fn in guppi.list_files(stem_out) for b in guppi.parse_file(fn)]
            tot = want * T * Pb
            if len(blocks) != want:
                V('blocks_written', 'request %s on a %d-block input: %d blocks written' % (req, n_in, len(blocks)))
                continue
            h = blocks[0]['header']
            got = (be.num_blocks, be.total_obs_num_samples, int(h['PKTSTOP']) - int(h['PKTSTART']))
            if got != (want, tot, want * T) or abs(be.obs_length - tot / rate) > 1e-12 * tot / rate or \
                    abs(float(h['SCANLEN']) - tot / rate) > 1e-9 * tot / rate:
                V('clamped_lengths', 'request %s on a %d-block input wrote %d blocks, but num_blocks=%r total_obs_num_samples=%r (exact %d) '
                  'obs_length=%r SCANLEN=%r (exact %r) PKTSTOP-PKTSTART=%r (exact %d)'
                  % (req, n_in, want, be.num_blocks, be.total_obs_num_samples, tot, be.obs_length, h['SCANLEN'], tot / rate, got[2], want * T))
    finally:
        for fn in guppi.list_files(stem_in) + guppi.list_files(stem_out):
            try:
                os.remove(fn)
            except OSError:
                pass
    return {'viol': viol, 'n': n, 'nontrivial': [engine.sha(c)], 'outcomes': ['from_data/%d' % n_in]}


def run(ctx):
    T = ctx.tier == 'thorough'
    cases = []
    nbs = list(range(1, 101)) if T else [1, 2, 3, 4, 5, 7, 10, 16, 25, 33, 50]
    for rate in (RATES + [2.5e9, 187.5e6, 1e9 / 3] if T else RATES):
        for P in (BRANCHES + [16, 128, 4096] if T else BRANCHES):
            for M in TAPS:
                for nch in sorted(set([1, 3, P // 2])):
                    if nch > P // 2:
                        continue
                    for na in (1, 2, 3):
                        for npol in (1, 2):
                            for bits in (8, 4):
                                for mult in SPB_MULT:
                                    if not T and na == 3 and mult in (3, 13):
                                        continue
                                    cases.append(dict(rate=rate, P=P, M=M, nchans=nch, nants=na, npol=npol, bits=bits,
                                                      spb=M * mult, num_blocks=nbs,
                                                      dur_n=[1, 2, 7, 50] if not T else [1, 2, 3, 7, 19, 50],
                                                      dur_q=[0.0, 1e-12, -1e-12, 1e-6, -1e-6, 0.5],
                                                      fft=[1, 2, 4, 1024], asc=(bits == 8)))
    # the same arithmetic with every integer argument handed over as a numpy fixed-width integer (whenever the value fits the
    # type): sub-box of the constructors above, FFT lengths up to 2^20
    typed = []
    for base in cases:
        if base['rate'] == RATES[0] and base['M'] == TAPS[0] and base['nants'] <= 2 and base['spb'] == TAPS[0] * SPB_MULT[0]:
            for nt in ('int64', 'int32', 'int16', 'uint8'):
                typed.append(dict(base, ntype=nt, fft=[1, 4, 16, 128, 1024, 50000, 65536, 1048576], dur_n=[1, 7], num_blocks=nbs[:3]))
    ctx.pmap(case_arith, cases)
    ctx.pmap(case_arith, typed)
    real = []
    for rate in (1e3, 3e9):
        for (M, P) in ((2, 4), (3, 8)):
            for r in (1, 3, 4):
                for nsub in (1, 2, 3, 32):
                    for nb in (1, 2, 3):
                        for bpf in (1, 2):
                            for source in ('ant', 'arr2'):
                                for npol in (1, 2):
                                    for t0 in (0, 100.25):
                                        real.append(dict(rate=rate, M=M, P=P, r=r, num_subblocks=nsub, num_blocks=nb,
                                                         bpf=bpf, source=source, npol=npol, bits=8 if npol == 2 else 4,
                                                         start_chan=0, num_chans=P // 2, t_start=t0, recordings=2))
    ctx.pmap(case_real, real)
    fd = []
    for bits in (8, 4):
        for npol in (1, 2):
            for layout in ([1, 1], [3, 2], [4, 2]):
                for Tb in ((8, 10) if T else (8,)):
                    n_in = layout[0]
                    reqs = [['num_blocks', None], ['obs_length', None], ['num_blocks', n_in], ['num_blocks', n_in + 3], ['obs_length', n_in + 3],
                            ['num_blocks', max(1, n_in - 1)], ['obs_length', max(1, n_in - 1)]]
                    fd.append(dict(bits=bits, npol=npol, layout=layout, T=Tb, directio=npol - 1, requests=reqs))
    ctx.pmap(case_from_data, fd, chunk=1)
    return ctx.finish(
        rule='complete box of backend constructors (sample_rate x branches x taps x channels x antennas x pols x bits '
             'x samples-per-block); for each, every listed num_blocks and every duration (n + q) blocks is passed to '
             'the real record()/get_num_blocks() with the data path stubbed; plus real recordings with a spy antenna '
             '(two in a row per backend).  Every constructor case is non-trivial (distinct parameter tuple); '
             'evaluations counts individual record()/helper evaluations',
        assumptions=['durations within 1e-9 blocks of a block boundary may resolve either way (as the property states)',
                     'params_from_backend tchans compared away from exact multiples of dt'],
        coverage_extra={'bounds': {'sample_rate': RATES, 'num_branches': BRANCHES, 'num_taps': TAPS,
                                   'spb_multipliers': SPB_MULT, 'num_blocks': nbs}})
