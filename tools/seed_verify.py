#!/usr/bin/env python3
"""
tools/seed_verify.py <seeded-dir-from-agent> <PROPERTY> <name> [--checks C02,C04] [--no-tests]
Confirms an independently produced property-breaking change and runs the checks against it:
  1. demo.py exits 0 on a scratch copy of /repo's current tree,
  2. patch.diff applies; the pinned 55-test suite passes with it; demo.py exits non-zero,
  3. ./check <ID> (quick) against the patched copy: CAUGHT / MISSED,
then stores patch.diff, demo.py, notes.md and meta.json under /verif/seeded/<name>/ and removes the copy.
Never touches /repo.
"""
import sys, os, shutil, subprocess, tempfile, json, time

args = sys.argv[1:]
checks = None
run_tests = '--no-tests' not in args
if '--checks' in args:
    i = args.index('--checks'); checks = args[i + 1].split(','); del args[i:i + 2]
args = [a for a in args if a != '--no-tests']
src, prop, name = args[0], args[1], args[2]
checks = checks or [prop]
HERE = os.path.dirname(os.path.dirname(os.path.abspath(__file__)))
PY = '/venv/bin/python'


def copy_repo(d):
    for item in ('setigen', 'tests', 'setup.py', 'pyproject.toml', 'setup.cfg', 'README.md', 'requirements.txt'):
        p = os.path.join('/repo', item)
        if os.path.isdir(p):
            shutil.copytree(p, os.path.join(d, item), ignore=shutil.ignore_patterns('__pycache__'))
        elif os.path.exists(p):
            shutil.copy(p, d)


def run_demo(tree):
    env = dict(os.environ, PYTHONPATH=tree, PYTHONWARNINGS='ignore', MPLBACKEND='Agg')
    wd = tempfile.mkdtemp(prefix='demo-')
    try:
        r = subprocess.run([PY, os.path.join(src, 'demo.py')], cwd=wd, env=env, capture_output=True, text=True, timeout=1200)
    finally:
        shutil.rmtree(wd, ignore_errors=True)
    return r.returncode, (r.stdout + r.stderr)[-600:]


meta = {'property': prop, 'name': name, 'source_dir': src, 'when': time.strftime('%Y-%m-%d %H:%M:%S'), 'ran': []}
d = tempfile.mkdtemp(prefix='seedv-')
ok = True
try:
    copy_repo(d)
    rc, out = run_demo(d)
    meta['demo_unchanged_rc'] = rc
    meta['ran'].append('PYTHONPATH=<copy of /repo> python demo.py -> rc %d' % rc)
    if rc != 0:
        print('REJECT: demo fails on the unchanged tree (rc %d): %s' % (rc, out))
        ok = False
    r = subprocess.run(['git', 'apply', '--unsafe-paths', '--directory', d, os.path.join(src, 'patch.diff')], cwd=d, capture_output=True, text=True)
    if r.returncode:
        r = subprocess.run(['patch', '-p1', '--no-backup-if-mismatch', '-i', os.path.join(src, 'patch.diff')], cwd=d, capture_output=True, text=True)
        if r.returncode:
            print('REJECT: patch does not apply to the current tree:', r.stdout[-400:], r.stderr[-400:])
            sys.exit(3)
    if run_tests:
        r = subprocess.run([PY, '-m', 'pytest', '-q', '-p', 'no:cacheprovider', '--timeout=900', '-q'], cwd=d,
                           env=dict(os.environ, PYTHONPATH=d, MPLBACKEND='Agg'), capture_output=True, text=True)
        tail = (r.stdout.strip().splitlines() or ['?'])[-1]
        meta['tests_with_patch'] = tail
        meta['ran'].append('pinned pytest with patch -> %s' % tail)
        if r.returncode != 0:
            print('REJECT: pinned tests fail with the patch:', tail)
            ok = False
    rc, out = run_demo(d)
    meta['demo_patched_rc'] = rc
    meta['ran'].append('PYTHONPATH=<patched copy> python demo.py -> rc %d' % rc)
    if rc == 0:
        print('REJECT: demo passes with the patch applied')
        ok = False
    meta['checks'] = {}
    for cid in checks:
        r = subprocess.run([os.path.join(HERE, 'check'), cid, '--tier', 'quick'], env=dict(os.environ, VERIF_REPO=d),
                           capture_output=True, text=True)
        det = [l[:300] for l in r.stdout.splitlines() if l.startswith('violation detail')]
        verdict = {1: 'CAUGHT', 0: 'MISSED'}.get(r.returncode, 'HARNESS-ERROR')
        meta['checks'][cid] = {'exit': r.returncode, 'verdict': verdict, 'details': det[:5]}
        meta['ran'].append('VERIF_REPO=<patched copy> ./check %s --tier quick -> exit %d' % (cid, r.returncode))
        print('%s: %s' % (cid, verdict))
        for l in det[:3]:
            print('    ', l)
        if r.returncode == 2:
            print(r.stdout[-1500:])
    meta['confirmed'] = ok
finally:
    shutil.rmtree(d, ignore_errors=True)
if ok:
    dst = os.path.join(HERE, 'seeded', name)
    os.makedirs(dst, exist_ok=True)
    for f in ('patch.diff', 'demo.py', 'notes.md'):
        if os.path.exists(os.path.join(src, f)):
            if os.path.realpath(src) != os.path.realpath(dst):
                shutil.copy(os.path.join(src, f), dst)
    notes = os.path.join(src, 'notes.md')
    meta['needs'] = open(notes).read()[:1500] if os.path.exists(notes) else ''
    mp = os.path.join(dst, 'meta.json')
    if os.path.exists(mp):
        try:
            old = json.load(open(mp))
            merged = dict(old.get('checks', {})); merged.update(meta['checks']); meta['checks'] = merged
            meta['ran'] = old.get('ran', []) + meta['ran']
        except Exception:
            pass
    with open(os.path.join(dst, 'meta.json'), 'w') as f:
        json.dump(meta, f, indent=1)
    print('stored in', dst)
else:
    print('NOT stored (not confirmed)')
