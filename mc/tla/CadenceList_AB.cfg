\* second configuration: a cadence that outgrows its order string.
\* items 1..2 compatible, item 3 incompatible; length <= 3; order AB
\* (operations that would put an UNLABELLED item at a position >= 2 are not enabled: unspecified)
CONSTANTS
    NItems = 3
    Bad = 3
    MaxLen = 3
    Order <- OrderAB
INIT Init
NEXT Next
INVARIANTS Consistent MembersLabelled
