"""
C19 -- Splitting utilities tile the band and the array exactly.

E-PROD.  Filterbank files are written by the INDEPENDENT writer (mc.refs.sigproc) for a complete box
of (nchans, foff, fch1); for every (fchans, shift, tchans) the real split_waterfall_generator /
split_fil / get_parameter_distributions / get_mean_distribution are run and compared with the tiling
stated by the property:  exactly floor((nchans - fchans)/s) + 1 pieces, piece i = file channels
[i*s, i*s + fchans) -- data, frequencies, the leading `tchans` integrations.
split_array: every shape <= 6x6, every tile size, shift = tile size (partition claim) and every
smaller shift, the four trim-flag combinations, invalid shifts.

Oracle rules (DESIGN.md section 3): 3 (frequencies in ULPs against exact header rationals), 5, 8.
"""
import io, os, contextlib, shutil
import numpy as np

from mc import engine
from mc.refs.axes import F, ulp
from mc.refs import sigproc as S

PROPERTY = 'C19'
LEVEL = 'exploration'

LD = np.longdouble
K_F = 4
K_S = 2

NCHANS = list(range(4, 25))
FOFF = [1.0, 2.7939677238464355e-6, 1.3969838619232178e-6, 0.1, 3e-6]
FCH1 = [100.0, 1420.4, 6000.0, 8437.5]
NINTS = 3
TSAMP = 18.253611008
TSTART = 59105.5 + 1.0 / 64


# --------------------------------------------------------------------------- reference tiling
def ref_windows(nchans, fchans, s):
    """Windows stated by the property: floor((nchans - fchans)/s) + 1 pieces [i*s, i*s + fchans)."""
    if fchans > nchans:
        return []
    return [(i * s, i * s + fchans) for i in range((nchans - fchans) // s + 1)]


def ref_axis_tiles(size, tile, shift):
    """1-D sliding windows [k*shift, min(k*shift + tile, size)): the first window always exists, further
    windows are added while the previous one has not reached the end.  With shift == tile this is the
    partition of range(size) into consecutive blocks (the last one possibly short)."""
    out = []
    k = 0
    while True:
        a = k * shift
        b = min(a + tile, size)
        out.append((a, b))
        if b >= size:
            break
        k += 1
    return out


def _shifts(fchans):
    out = [None]
    for s in (1, 2, 3, fchans, fchans + 1):
        if s not in out:
            out.append(s)
    return out


# --------------------------------------------------------------------------- file splitters
def _payload(seed, m, n):
    rng = np.random.default_rng([seed, m, n])
    return (10.0 + np.arange(m * n).reshape(m, n) + rng.uniform(0, 0.25, size=(m, n))).astype(np.float32)


def _ref_hz(hdr, a, b):
    i = np.arange(a, b)
    return (LD(float(hdr['fch1'])) + i.astype(LD) * LD(float(hdr['foff']))) * LD(1e6)


def _check_piece_frame(fr, hdr, pay, a, b, T, V, site, what):
    asc = hdr['foff'] > 0
    n = b - a
    if tuple(fr.shape) != (T, n) or np.shape(fr.data) != (T, n):
        V(site, 'piece_shape', '%s: frame shape %s, expected (%d, %d)' % (what, tuple(fr.shape), T, n))
        return False
    want = pay[:T, a:b]
    ref = _ref_hz(hdr, a, b)
    if not asc:
        want = want[:, ::-1]
        ref = ref[::-1]
    ok = True
    scale = float(max(abs(ref[0]), abs(ref[-1]), abs(hdr['foff']) * 1e6))
    err = np.abs(np.asarray(fr.fs).astype(LD) - ref)
    if float(err.max()) > (K_F + 0.01) * ulp(scale):
        j = int(np.argmax(err))
        V(site, 'piece_frequencies', '%s: fs[%d]=%r Hz, file channels [%d, %d) are at %r..%r Hz'
          % (what, j, fr.fs[j], a, b, float(ref[0]), float(ref[-1])))
        ok = False
    if not np.array_equal(np.asarray(fr.data), want):
        V(site, 'piece_data', '%s: data are not file channels [%d, %d) x %d integrations' % (what, a, b, T))
        ok = False
    if bool(fr.ascending) != asc:
        V(site, 'piece_orientation', '%s: ascending=%r for foff=%r' % (what, fr.ascending, hdr['foff']))
        ok = False
    return ok


def _run_generator(path, fchans, tchans, f_shift, cap):
    """Returns ('ok', [Waterfall...]) or ('raised', exception)."""
    import setigen as stg
    kw = {}
    if tchans is not None:
        kw['tchans'] = tchans
    if f_shift is not None:
        kw['f_shift'] = f_shift
    out = []
    try:
        for wf in stg.split_waterfall_generator(path, fchans, **kw):
            out.append(wf)
            if len(out) > cap:
                break
    except Exception as e:
        return 'raised', e
    return 'ok', out


def case_split_file(c):
    import setigen as stg
    viol = []
    cur = {}

    def V(site, failure, detail):
        viol.append({'site': site, 'failure': failure, 'detail': '%s: %s' % (cur, detail),
                     'params': dict(c, **cur)})

    nchans, foff, fch1 = c['nchans'], c['foff'], c['fch1']
    hdr = S.default_header(nchans, fch1, foff, TSAMP, tstart=TSTART, source_name='SPLITSRC')
    pay = _payload(c['seed'], NINTS, nchans)
    wd = engine.workdir()
    path = os.path.join(wd, 'c19_src_%s.fil' % engine.sha(c)[:12])     # own name per case: what is remembered per file name is this case's own history
    # file-side history, made deterministic: the SAME path first holds another observation (more channels, other band and
    # orientation), which is split once; then the file under test is written over it.  Whatever the library keeps per
    # file name must describe the file that is on disk when it is asked.
    try:
        hdr0 = S.default_header(nchans + 3, fch1 + 7.0, -foff, TSAMP, tstart=TSTART, source_name='OLDFILE')
        S.write_fil(path, hdr0, _payload(c['seed'] + 1, NINTS + 2, nchans + 3))
        with contextlib.redirect_stdout(io.StringIO()):
            list(stg.split_waterfall_generator(path, 2))
            stg.get_mean_distribution(path, 2)
            stg.get_fs(path); stg.get_ts(path)
    except Exception:
        pass
    S.write_fil(path, hdr, pay)
    nontriv, outcomes = [], set()
    cnt = {'generator_runs': 0, 'pieces': 0, 'split_fil_runs': 0, 'files_written': 0, 'distribution_runs': 0,
           'valueerror_runs': 0}
    nrun = 0
    try:
        for fchans in range(1, nchans + 1):
            for shift in _shifts(fchans):
                s = fchans if shift is None else shift
                wins = ref_windows(nchans, fchans, s)
                for tch in c['tchans_modes']:
                    cur.clear()
                    cur.update(fchans=fchans, f_shift=shift, tchans=tch)
                    nrun += 1
                    T = NINTS if tch is None else tch
                    status, res = _run_generator(path, fchans, tch, shift, nchans + 2)
                    cnt['generator_runs'] += 1
                    if tch is not None and tch > NINTS:
                        cnt['valueerror_runs'] += 1
                        if status != 'raised' or not isinstance(res, ValueError):
                            V('split_waterfall_generator', 'tchans_not_rejected', 'tchans=%d > %d integrations: %s'
                              % (tch, NINTS, 'yielded %d pieces' % len(res) if status == 'ok' else repr(res)))
                        outcomes.add('valueerror')
                        continue
                    if status == 'raised':
                        V('split_waterfall_generator', 'raised', '%s: %s' % (type(res).__name__, res))
                        continue
                    if len(res) != len(wins):
                        V('split_waterfall_generator', 'count', 'yielded %d pieces, expected floor((%d-%d)/%d)+1 = %d'
                          % (len(res), nchans, fchans, s, len(wins)))
                    for i, (wf, (a, b)) in enumerate(zip(res, wins)):
                        cnt['pieces'] += 1
                        d = np.asarray(wf.data)
                        if d.shape != (T, 1, fchans):
                            V('split_waterfall_generator', 'piece_shape', 'piece %d: Waterfall data shape %s, expected '
                              '(%d, 1, %d)' % (i, d.shape, T, fchans))
                            break
                        if not np.array_equal(d[:, 0, :], pay[:T, a:b]):
                            V('split_waterfall_generator', 'piece_data', 'piece %d: data are not file channels [%d, %d) '
                              'x %d integrations' % (i, a, b, T))
                            break
                        try:
                            fr = stg.Frame(waterfall=wf)
                        except Exception as e:
                            V('split_waterfall_generator', 'piece_unloadable', 'piece %d: Frame(piece) raised %s: %s'
                              % (i, type(e).__name__, e))
                            break
                        if not _check_piece_frame(fr, hdr, pay, a, b, T, V, 'split_waterfall_generator', 'piece %d' % i):
                            break
                        # the stand-alone helpers describe the PIECE (as the frame loaded from it does), not the whole file
                        try:
                            hfs = np.asarray(stg.get_fs(wf), dtype=float) * 1e6
                            ffs = np.asarray(fr.fs, dtype=float)
                            if hfs.shape != (fchans,) or float(np.abs(np.sort(hfs) - ffs).max()) > 8 * ulp(float(np.abs(ffs).max())) + 1e-9 * abs(hdr['foff']) * 1e6:
                                V('get_fs', 'piece_frequencies', 'piece %d: get_fs(piece) has %d values %r..%r Hz; the frame loaded from the piece has %d channels %r..%r'
                                  % (i, hfs.size, float(np.min(hfs)), float(np.max(hfs)), ffs.size, float(ffs[0]), float(ffs[-1])))
                                break
                            if np.asarray(stg.get_data(wf)).shape != (T, fchans) or len(stg.get_ts(wf)) != T:
                                V('get_data', 'piece_shape', 'piece %d: get_data / get_ts shapes %s / %d' % (i, np.asarray(stg.get_data(wf)).shape, len(stg.get_ts(wf))))
                                break
                        except Exception as e:
                            V('get_fs', 'raised', 'piece %d: %s: %s' % (i, type(e).__name__, e))
                            break
                    if len(wins) >= 2 or (fchans < nchans):
                        nontriv.append(engine.sha([nchans, foff, fch1, fchans, shift, tch]))
                    outcomes.add('pieces=%d/%s' % (min(len(res), 6), 'gap' if s > fchans else ('overlap' if s < fchans
                                                                                               else 'tile')))
                    # consumers
                    if c['consumers'] and (shift in c['consumer_shifts']):
                        cnt['distribution_runs'] += 1
                        kw = {}
                        if tch is not None:
                            kw['tchans'] = tch
                        if shift is not None:
                            kw['f_shift'] = shift
                        try:
                            tri = stg.get_parameter_distributions(path, fchans, **kw)
                            mean = stg.get_mean_distribution(path, fchans, **kw)
                        except Exception as e:
                            V('sample_from_obs', 'raised', '%s: %s' % (type(e).__name__, e))
                            tri = mean = None
                        if tri is not None:
                            lens = [np.shape(x) for x in tri] + [np.shape(mean)]
                            if any(l != (len(wins),) for l in lens):
                                V('sample_from_obs.get_parameter_distributions', 'length',
                                  'distribution arrays have shapes %s, expected %d pieces' % (lens, len(wins)))
                            elif len(wins):
                                # the means of the pieces that sigma clipping leaves untouched are the window means
                                if not np.array_equal(np.asarray(tri[0]), np.asarray(mean)):
                                    V('sample_from_obs.get_mean_distribution', 'value', 'mean distribution differs '
                                      'between the two functions')
                        # on-disk variant
                        cnt['split_fil_runs'] += 1
                        outdir = os.path.join(wd, 'c19_out')
                        shutil.rmtree(outdir, ignore_errors=True)
                        try:
                            with contextlib.redirect_stdout(io.StringIO()):
                                fns = stg.split_fil(path, outdir, fchans, **kw)
                        except Exception as e:
                            V('split_fil', 'raised', '%s: %s' % (type(e).__name__, e))
                            fns = None
                        if fns is not None:
                            if len(fns) != len(wins):
                                V('split_fil', 'count', 'wrote %d files, expected %d' % (len(fns), len(wins)))
                            on_disk = sorted(os.listdir(outdir))
                            if len(on_disk) != len(fns) or len(set(str(f) for f in fns)) != len(fns):
                                V('split_fil', 'files', 'returned %d names, %d files in the directory'
                                  % (len(fns), len(on_disk)))
                            for i, (fn, (a, b)) in enumerate(zip(fns, wins)):
                                cnt['files_written'] += 1
                                try:
                                    h2, p2, _ = S.read_fil(str(fn))
                                except (S.FormatError, OSError) as e:
                                    V('split_fil', 'malformed_file', 'piece %d: %s' % (i, e))
                                    break
                                fx = S.chan_freq_mhz(hdr, a)
                                sc = max(abs(fch1), abs(float(S.chan_freq_mhz(hdr, nchans - 1))))
                                if h2['nchans'] != fchans or p2.shape != (T, fchans):
                                    V('split_fil', 'piece_shape', 'piece %d: header nchans=%r payload %s, expected '
                                      '(%d, %d)' % (i, h2['nchans'], p2.shape, T, fchans))
                                    break
                                if h2['foff'] != hdr['foff'] or h2['tsamp'] != hdr['tsamp'] or \
                                        abs(F(h2['fch1']) - fx) > K_S * F(ulp(sc)):
                                    V('split_fil', 'piece_header', 'piece %d: fch1=%r foff=%r tsamp=%r, expected '
                                      'fch1=%r foff=%r tsamp=%r' % (i, h2['fch1'], h2['foff'], h2['tsamp'], float(fx),
                                                                    hdr['foff'], hdr['tsamp']))
                                    break
                                if abs(F(h2['tstart']) - F(hdr['tstart'])) > K_S * F(ulp(hdr['tstart'])):
                                    V('split_fil', 'piece_tstart', 'piece %d: tstart=%r, file tstart=%r'
                                      % (i, h2['tstart'], hdr['tstart']))
                                    break
                                if not np.array_equal(p2, pay[:T, a:b]):
                                    V('split_fil', 'piece_data', 'piece %d: payload is not file channels [%d, %d)'
                                      % (i, a, b))
                                    break
                                try:
                                    fr = stg.Frame(waterfall=str(fn))
                                except Exception as e:
                                    V('split_fil', 'piece_unloadable', 'piece %d: Frame(file) raised %s: %s'
                                      % (i, type(e).__name__, e))
                                    break
                                if not _check_piece_frame(fr, h2, p2, 0, fchans, T, V, 'split_fil', 'piece %d' % i):
                                    break
                            # history: the same output directory already holds the pieces of an EARLIER split with more
                            # pieces (shift 1); this call must still return exactly the files it wrote, piece i = window i
                            if fchans < nchans:
                                try:
                                    with contextlib.redirect_stdout(io.StringIO()):
                                        kw1 = dict(kw); kw1['f_shift'] = 1
                                        stg.split_fil(path, outdir, fchans, **kw1)
                                        fns2 = stg.split_fil(path, outdir, fchans, **kw)
                                    if len(fns2) != len(wins):
                                        V('split_fil', 'count_after_earlier_split', 'returned %d files into a directory that already held an '
                                          'earlier split; this split has %d pieces' % (len(fns2), len(wins)))
                                    else:
                                        for i, (fn, (a, b)) in enumerate(zip(fns2, wins)):
                                            h2, p2, _ = S.read_fil(str(fn))
                                            if p2.shape != (T, fchans) or not np.array_equal(p2, pay[:T, a:b]):
                                                V('split_fil', 'piece_after_earlier_split', 'returned file %d is not window [%d, %d) of THIS split '
                                                  '(directory also holds an earlier split)' % (i, a, b))
                                                break
                                except (S.FormatError, OSError) as e:
                                    V('split_fil', 'malformed_file', 'after an earlier split: %s' % e)
                                except Exception as e:
                                    V('split_fil', 'raised', 'after an earlier split: %s: %s' % (type(e).__name__, e))
                        shutil.rmtree(outdir, ignore_errors=True)
    finally:
        try:
            os.remove(path)
        except OSError:
            pass
    out, had = [], set()
    for v in viol:
        k = (v['site'], v['failure'])
        if k not in had:
            had.add(k)
            out.append(v)
    return {'viol': out, 'nontrivial': nontriv, 'outcomes': sorted(outcomes), 'n': nrun, 'extra': cnt}


# --------------------------------------------------------------------------- split_array
def _tiles_of(res):
    """The tiles in a split_array return value (regular ndarray or 1-D object array / list)."""
    if isinstance(res, np.ndarray) and res.dtype != object:
        if res.ndim == 3:
            return [res[i] for i in range(res.shape[0])]
        if res.size == 0:
            return []
        return None
    return [np.asarray(a) for a in list(res)]


def case_split_array(c):
    import setigen as stg
    viol = []
    cur = {}

    def V(failure, detail):
        viol.append({'site': 'split_array', 'failure': failure, 'detail': '%s: %s' % (cur, detail),
                     'params': dict(c, **cur)})

    H, W = c['H'], c['W']
    data = (np.arange(H * W).reshape(H, W) + 1000 * (c['seed'] + 1)).astype(float)
    if c.get('dtype') == 'int64big':
        # integers that a float64 cannot hold: "the same elements" has to survive whatever copies are made
        data = (np.arange(H * W, dtype=np.int64).reshape(H, W) * 3 + (1 << 60) + 1 + c['seed'])
    elif c.get('dtype') == 'complex':
        data = data + 1j * (data[::-1, ::-1] + 0.5)
    elif c.get('dtype') == 'float32':
        data = (data + 0.25).astype(np.float32)
    elif c.get('dtype') == 'fortran':
        data = np.asfortranarray(data)                       # column-major storage of the same values
    elif c.get('dtype') == 'transposed':
        data = np.ascontiguousarray(data.T).T                # e.g. a (freq, time) array viewed as (time, freq)
    elif c.get('dtype') == 'strided':
        big = np.zeros((2 * H + 1, 3 * W + 2)) - 7.0
        big[1::2, 2::3] = data
        data = big[1::2, 2::3]                               # a strided window into a larger array
    elif c.get('dtype') == 'reversed':
        data = np.ascontiguousarray(data[::-1, ::-1])[::-1, ::-1]
    nontriv, outcomes = [], set()
    nrun = 0
    cnt = {'partition_checks': 0, 'ragged_results': 0, 'invalid_shift_runs': 0}
    for th in [None] + list(range(1, H + 2)):
        for tw in [None] + list(range(1, W + 2)):
            eth = H if th is None else th
            etw = W if tw is None else tw
            for ts_ in [None] + list(range(1, eth + 1)):
                for fs_ in [None] + list(range(1, etw + 1)):
                    ets = eth if ts_ is None else ts_
                    efs = etw if fs_ is None else fs_
                    rows = ref_axis_tiles(H, eth, ets)
                    cols = ref_axis_tiles(W, etw, efs)
                    tiles = [(r, q) for r in rows for q in cols]        # row-major
                    for t_trim in (False, True):
                        for f_trim in (False, True):
                            cur.clear()
                            cur.update(t_sample_num=th, f_sample_num=tw, t_shift=ts_, f_shift=fs_, t_trim=t_trim,
                                       f_trim=f_trim)
                            nrun += 1
                            want = [(r, q) for (r, q) in tiles
                                    if (not t_trim or r[1] - r[0] == eth) and (not f_trim or q[1] - q[0] == etw)]
                            ragged = len({(r[1] - r[0], q[1] - q[0]) for (r, q) in want}) > 1
                            try:
                                res = stg.split_array(data, f_sample_num=tw, t_sample_num=th, f_shift=fs_, t_shift=ts_,
                                                      f_trim=f_trim, t_trim=t_trim)
                            except Exception as e:
                                V('raised', '%s: %s (expected %d tiles%s)' % (type(e).__name__, str(e)[:120], len(want),
                                                                             ', ragged' if ragged else ''))
                                continue
                            got = _tiles_of(res)
                            if got is None:
                                V('return_type', 'return value of shape %s is not a sequence of 2-D tiles'
                                  % (np.shape(res),))
                                continue
                            if ragged:
                                cnt['ragged_results'] += 1
                            if len(got) != len(want):
                                V('tile_count', '%d tiles returned, expected %d' % (len(got), len(want)))
                                continue
                            bad = None
                            for k, (g, (r, q)) in enumerate(zip(got, want)):
                                w = data[r[0]:r[1], q[0]:q[1]]
                                if np.shape(g) != w.shape or not np.array_equal(g, w):
                                    bad = (k, r, q, np.shape(g))
                                    break
                            if bad is not None:
                                V('tile_content', 'tile %d has shape %s / content differing from data[%d:%d, %d:%d]'
                                  % (bad[0], bad[3], bad[1][0], bad[1][1], bad[2][0], bad[2][1]))
                                continue
                            if ets == eth and efs == etw and not t_trim and not f_trim:
                                # the partition claim, checked directly on the returned tiles
                                cnt['partition_checks'] += 1
                                allv = np.concatenate([np.ravel(g) for g in got]) if got else np.array([])
                                if allv.size != data.size or not np.array_equal(np.sort(allv), np.ravel(data)):
                                    V('partition', 'tiles do not contain every element exactly once')
                            if len(want) >= 2:
                                nontriv.append(engine.sha([H, W, th, tw, ts_, fs_, t_trim, f_trim]))
                            outcomes.add('tiles=%d/%s' % (min(len(want), 5), 'ragged' if ragged else 'uniform'))
    # invalid shifts
    for bad in (0, -1):
        for which in ('f_shift', 't_shift'):
            cur.clear()
            cur.update({which: bad})
            nrun += 1
            cnt['invalid_shift_runs'] += 1
            try:
                res = stg.split_array(data, f_sample_num=1, t_sample_num=1, **{which: bad})
                V('invalid_shift_accepted', '%s=%d returned %d tiles' % (which, bad, len(res)))
            except ValueError:
                outcomes.add('invalid_shift_rejected')
            except Exception as e:
                V('invalid_shift_wrong_exception', '%s=%d raised %s' % (which, bad, type(e).__name__))
    out, had = [], set()
    for v in viol:
        k = (v['site'], v['failure'])
        if k not in had:
            had.add(k)
            out.append(v)
    return {'viol': out, 'nontrivial': nontriv, 'outcomes': sorted(outcomes), 'n': nrun, 'extra': cnt}


class _Timeout(Exception):
    pass


def _with_alarm(seconds, fn):
    """Run fn() under a SIGALRM watchdog (a splitter whose loop counter wraps around never returns)."""
    import signal

    def _h(sig, frm):
        raise _Timeout()
    old = signal.signal(signal.SIGALRM, _h)
    signal.alarm(seconds)
    try:
        return fn()
    finally:
        signal.alarm(0)
        signal.signal(signal.SIGALRM, old)


def case_typed(c):
    """Sizes and shifts handed over as numpy fixed-width integers, on a band / an array wide enough for sums of them to leave
    the type's range: the same pieces as for plain integers."""
    import setigen as stg
    viol = []

    def V(site, failure, detail):
        viol.append({'site': site, 'failure': failure, 'detail': detail})
    n = 0
    ty = lambda name, v: None if v is None else (v if name is None else np.dtype(name).type(v))
    if c['what'] == 'file':
        nchans = 1000
        hdr = S.default_header(nchans, 6000.0, c['foff'], TSAMP, tstart=TSTART, source_name='TYPEDSRC')
        pay = _payload(c['seed'], NINTS, nchans)
        path = os.path.join(engine.workdir(), 'c19_typed_%s.fil' % engine.sha(c))
        S.write_fil(path, hdr, pay)
        try:
            for fchans, shift, tf, ts_ in c['combos']:
                n += 1
                s_ = fchans if shift is None else shift
                wins = ref_windows(nchans, fchans, s_)
                tag = 'fchans=%s(%d) f_shift=%s' % (tf, fchans, None if shift is None else '%s(%d)' % (ts_, shift))
                try:
                    with contextlib.redirect_stdout(io.StringIO()):
                        status, res = _with_alarm(60, lambda: _run_generator(path, ty(tf, fchans), None, ty(ts_, shift), nchans + 2))
                except _Timeout:
                    V('split_waterfall_generator', 'did_not_return', '%s: no result after 60 s' % tag)
                    continue
                if status == 'raised':
                    V('split_waterfall_generator', 'raised', '%s: %s: %s' % (tag, type(res).__name__, res))
                    continue
                if len(res) != len(wins):
                    V('split_waterfall_generator', 'count', '%s: %d pieces, expected %d' % (tag, len(res), len(wins)))
                    continue
                for i, (wf, (a, b)) in enumerate(zip(res, wins)):
                    d = np.asarray(wf.data)
                    if d.shape != (NINTS, 1, fchans) or not np.array_equal(d[:, 0, :], pay[:, a:b]):
                        V('split_waterfall_generator', 'piece_data', '%s: piece %d is not file channels [%d, %d)' % (tag, i, a, b))
                        break
        finally:
            try:
                os.remove(path)
            except OSError:
                pass
    else:
        H, W = c['shape']
        data = np.arange(H * W, dtype=float).reshape(H, W)
        for th, tw, sh, sw, tname in c['combos']:
            n += 1
            eth, etw = (H if th is None else th), (W if tw is None else tw)
            rows = ref_axis_tiles(H, eth, eth if sh is None else sh)
            cols = ref_axis_tiles(W, etw, etw if sw is None else sw)
            want = [(r, q) for r in rows for q in cols]
            tag = 't_sample_num=%s f_sample_num=%s t_shift=%s f_shift=%s as %s on a %dx%d array' % (th, tw, sh, sw, tname, H, W)
            try:
                res = _with_alarm(30, lambda: stg.split_array(data, f_sample_num=ty(tname, tw), t_sample_num=ty(tname, th),
                                                              f_shift=ty(tname, sw), t_shift=ty(tname, sh)))
            except _Timeout:
                V('split_array', 'did_not_return', '%s: no result after 30 s' % tag)
                continue
            except Exception as e:
                V('split_array', 'raised', '%s: %s: %s' % (tag, type(e).__name__, str(e)[:120]))
                continue
            got = _tiles_of(res)
            if got is None or len(got) != len(want):
                V('split_array', 'tile_count', '%s: %s tiles, expected %d' % (tag, None if got is None else len(got), len(want)))
                continue
            for k, (g, (r, q)) in enumerate(zip(got, want)):
                if np.shape(g) != (r[1] - r[0], q[1] - q[0]) or not np.array_equal(g, data[r[0]:r[1], q[0]:q[1]]):
                    V('split_array', 'tile_content', '%s: tile %d differs from data[%d:%d, %d:%d]' % (tag, k, r[0], r[1], q[0], q[1]))
                    break
    return {'viol': viol, 'n': n, 'nontrivial': [engine.sha(c)], 'outcomes': ['typed/%s' % c['what']]}


def run(ctx):
    thorough = ctx.tier == 'thorough'
    arr = [dict(H=H, W=W, seed=ctx.seed) for H in range(1, 7) for W in range(1, 7)]
    arr += [dict(H=H, W=W, seed=ctx.seed, dtype=dt) for (H, W) in (((3, 4), (4, 3), (2, 5)) if not thorough else
                                                                 [(H, W) for H in range(1, 6) for W in range(1, 6)])
            for dt in ('int64big', 'complex', 'float32', 'fortran', 'transposed', 'strided', 'reversed')]
    arr.sort(key=lambda c: c['H'] * c['W'])
    ctx.pmap(case_split_array, arr, chunk=1)
    typed = []
    for foff in (-2.7939677238464355e-06, 2.7939677238464355e-06):
        typed.append(dict(what='file', foff=foff, seed=ctx.seed,
                          combos=[[100, 100, 'int64', 'uint8'], [100, None, 'uint8', None], [100, 100, 'int16', 'int8'],
                                  [250, 125, 'int32', 'int32'], [64, 200, 'uint8', 'uint8'], [100, 100, None, None]]))
    for shape in ([4, 1000], [300, 8]):
        big = shape.index(max(shape))
        combos = []
        for tname in ('uint8', 'int8', 'int16', 'int64', None):
            t = [None, None, None, None]          # th, tw, sh, sw
            t[1 if big == 1 else 0] = 100
            combos.append(t + [tname])
            t2 = list(t)
            t2[3 if big == 1 else 2] = 100
            combos.append(t2 + [tname])
        typed.append(dict(what='array', shape=shape, combos=combos, seed=ctx.seed))
    ctx.pmap(case_typed, typed, chunk=1)
    cases = []
    for n in (NCHANS if thorough else [n for n in NCHANS if n <= 16]):
        for k, a in enumerate(FOFF):
            for sgn in (-1, 1):
                for j, fch1 in enumerate(FCH1):
                    full = thorough or (n <= 12 and ((k == 0 and j == 0) or (k == 1 and j == 2)))
                    cases.append(dict(nchans=n, foff=sgn * a, fch1=fch1, seed=ctx.seed,
                                      tchans_modes=[None, 1, 3, 4] if full else [None],
                                      consumers=full,
                                      consumer_shifts=[None, 1, 2, 3] if thorough else [None, 2]))
    cases.sort(key=lambda c: c['nchans'])
    ctx.pmap(case_split_file, cases, chunk=1)
    return ctx.finish(
        rule='complete product nchans 4..%d x fchans 1..nchans x shift {default,1,2,3,fchans,fchans+1} x foff (5 '
             'magnitudes, both signs) x fch1 (4) on files written by the independent writer, 3 integrations; tchans '
             'modes {default,1,3,4->ValueError} and the consumers (split_fil, distributions) on %s; split_array: all '
             'shapes <= 6x6, tile sizes None/1..dim+1, shifts None/1..tile, 4 trim combinations, invalid shifts.  '
             'Non-trivial = more than one piece/tile expected or a proper sub-band; distinct = distinct parameter '
             'tuples' % (24 if thorough else 16, 'the whole box, consumer shifts {default,1,2,3}' if thorough else
                'the sub-box nchans<=12 x {(foff=+-1 MHz, fch1=100 MHz), (foff=+-BL hi-res, fch1=6000 MHz)}, consumer '
                'shifts {default,2}'),
        assumptions=['fch1/foff <= 2^36', 'piece frequencies compared within %d ulp against the exact header rationals'
                     % K_F, 'for shifts smaller than the tile the expected windows are [k*shift, min(k*shift+tile, '
                     'size)) until the first window that reaches the end (sliding-window reading of the docstring)',
                     'data compared bit for bit (float32 payload)'],
        coverage_extra={'bounds': {'nchans': [4, 24 if thorough else 16], 'foff_mhz': FOFF, 'fch1_mhz': FCH1, 'nints': NINTS,
                                   'array_shapes': '1..6 x 1..6'}})
