"""
Runner core shared by all checks: sharded exhaustive enumeration over a process pool,
counters, violation handling (confirm by re-execution, match against known findings,
write replay artefact), evidence writing + schema validation.

A check module (mc/checks/cXX.py) provides

    PROPERTY = 'Cxx'; LEVEL = 'exploration' | 'model_checking' | 'fault_enumeration'
    def run(ctx): ...            # enumerates, calls ctx.pmap(worker, cases) / ctx.absorb(...)
    def replay(case): ...        # re-runs ONE case, returns a worker-result dict

A *worker result* is a dict with any of
    n            evaluations performed (default 1)
    nontrivial   list of strings: keys of cases that are non-trivial by the check's rule
    outcomes     list of strings: keys of distinct observed outcomes (vacuity indicator)
    states / transitions / traces   ints (model-checking counters)
    state_keys   list of strings: canonical state keys (deduplicated globally)
    ambiguous    int: comparisons skipped because the oracle does not decide them
    extra        dict of int counters, summed
    viol         list of {site, failure, params, detail}
"""
import os, sys, json, time, hashlib, traceback, tempfile, shutil, subprocess, itertools
import multiprocessing as mp

HERE = os.path.dirname(os.path.dirname(os.path.abspath(__file__)))
REPO_ROOT = os.environ.get('VERIF_REPO_ROOT', '/repo')
NPROC = int(os.environ.get('VERIF_NPROC', '16'))

_TMPROOT = None


def tmproot():
    global _TMPROOT
    if _TMPROOT is None:
        _TMPROOT = tempfile.mkdtemp(prefix='verif-mc-')
    return _TMPROOT


def workdir():
    """Private scratch directory of the calling (worker) process."""
    d = os.path.join(tmproot(), 'w%d' % os.getpid())
    os.makedirs(d, exist_ok=True)
    return d


def sha(obj):
    return hashlib.sha1(json.dumps(obj, sort_keys=True, default=repr).encode()).hexdigest()[:16]


class HarnessError(Exception):
    pass


def _silence():
    import logging
    logging.disable(logging.CRITICAL)
    import warnings
    warnings.simplefilter('ignore')
    try:
        import setigen.voltage.backend as b

        class _Tq(object):
            def __init__(self, *a, **k): pass
            def __enter__(self): return self
            def __exit__(self, *a): return False
            def update(self, *a, **k): pass
            def set_description(self, *a, **k): pass
            @staticmethod
            def write(*a, **k): pass
        b.tqdm = _Tq
    except Exception:
        pass


def check_repo_binding():
    import setigen
    f = os.path.realpath(setigen.__file__)
    root = os.path.realpath(REPO_ROOT)
    if not f.startswith(root + os.sep):
        raise HarnessError('setigen imported from %s, expected under %s' % (f, root))


def _call(args):
    fn, chunk = args
    out = []
    for idx, case in chunk:
        try:
            r = fn(case)
            if r is None:
                r = {}
            r['_idx'] = idx
        except Exception as e0:
            if type(e0).__name__ == 'GuppiFormatError':
                # a recording the independent GUPPI reader cannot frame, at a place where the case function did not expect it:
                # whatever else the property says about those bytes, they are not there to be read
                r = {'_idx': idx, 'n': 1, 'viol': [{'site': 'RawVoltageBackend.record', 'failure': 'recording_not_parseable',
                                                    'detail': 'independent GUPPI reader: %s' % e0}]}
            else:
                r = {'_idx': idx, '_error': traceback.format_exc(), '_case': case}
        except SystemExit:
            # SystemExit too: blimpy calls sys.exit() on some inputs, which would silently kill the worker
            r = {'_idx': idx, '_error': traceback.format_exc(), '_case': case}
        out.append(r)
    return out


_POOL = None


def _init_worker(root):
    global _TMPROOT
    _TMPROOT = root
    _silence()


def pool():
    global _POOL
    if _POOL is None:
        ctx = mp.get_context('fork')
        _POOL = ctx.Pool(NPROC, initializer=_init_worker, initargs=(tmproot(),))
    return _POOL


class Ctx(object):
    def __init__(self, module, tier, seed):
        self.module = module
        self.prop = module.PROPERTY
        self.level = module.LEVEL
        self.tier = tier
        self.seed = seed
        self.t0 = time.time()
        self.evaluations = 0
        self.nontrivial = set()
        self.outcomes = set()
        self.state_keys = set()
        self.states = 0
        self.transitions = 0
        self.traces = 0
        self.ambiguous = 0
        self.extra = {}
        self.viol = []          # (idx, fn, violation dict)
        self.samples = []
        self.cap_hit = False
        self.exhaustive = True
        self.notes = []
        self.deadline = None
        budget = os.environ.get('VERIF_BUDGET_S')
        if budget:
            self.deadline = self.t0 + float(budget)

    # -------------------------------------------------------------- enumeration
    def pmap(self, fn, cases, chunk=None, serial=False, label=None):
        """Run fn over every case (an iterable of JSON-able dicts); absorb the results."""
        cases = list(cases)
        n = len(cases)
        if n == 0:
            return
        if len(self.samples) < 6:
            for c in (cases[0], cases[n // 2], cases[-1]):
                self.samples.append({'fn': fn.__name__, 'case': c})
        indexed = list(enumerate(cases))
        if serial or n < 4 or NPROC == 1:
            for r in _call((fn, indexed)):
                self._absorb(fn, cases, r)
            return
        if chunk is None:
            chunk = max(1, min(256, n // (NPROC * 8)))
        chunks = [(fn, indexed[i:i + chunk]) for i in range(0, n, chunk)]
        done = 0
        for res in pool().imap(_call, chunks):
            for r in res:
                self._absorb(fn, cases, r)
            done += 1
            if self.deadline and time.time() > self.deadline and done < len(chunks):
                # complete-prefix rule: chunks are consumed in enumeration order
                self.cap_hit = True
                self.exhaustive = False
                self.notes.append('wall-clock cap hit in %s after %d of %d cases (prefix fully covered)'
                                  % (label or fn.__name__, done * chunk, n))
                pool().terminate()
                global _POOL
                _POOL = None
                break

    def _absorb(self, fn, cases, r):
        if '_error' in r:
            sys.stdout.flush()
            print('HARNESS-ERROR property=%s in %s case=%s\n%s' % (
                self.prop, fn.__name__, json.dumps(r.get('_case'), default=repr)[:2000], r['_error']))
            sys.stdout.flush()
            self._cleanup()
            os._exit(2)
        idx = r.get('_idx', 0)
        self.absorb(r, fn=fn, case=cases[idx] if cases is not None else None, idx=idx)

    def absorb(self, r, fn=None, case=None, idx=0):
        self.evaluations += r.get('n', 1)
        for k in r.get('nontrivial', ()):
            self.nontrivial.add(k)
        for k in r.get('outcomes', ()):
            self.outcomes.add(k)
        for k in r.get('state_keys', ()):
            self.state_keys.add(k)
        self.states += r.get('states', 0)
        self.transitions += r.get('transitions', 0)
        self.traces += r.get('traces', 0)
        self.ambiguous += r.get('ambiguous', 0)
        for k, v in r.get('extra', {}).items():
            self.extra[k] = self.extra.get(k, 0) + v
        for s in r.get('samples', ()):
            if len(self.samples) < 12:
                self.samples.append(s)
        for v in r.get('viol', ()):
            v = dict(v)
            if 'params' not in v or v['params'] is None:
                v['params'] = case
            self.viol.append((idx, fn, case, v))

    # -------------------------------------------------------------- reporting
    def _cleanup(self):
        global _POOL
        try:
            if _POOL is not None:
                _POOL.terminate()
                _POOL = None
        except Exception:
            pass
        if _TMPROOT and os.path.isdir(_TMPROOT):
            shutil.rmtree(_TMPROOT, ignore_errors=True)

    def finish(self, rule, assumptions=(), coverage_extra=None):
        findings = load_findings(self.prop)
        known_hit = {}
        fresh = []
        self.viol.sort(key=lambda t: (t[0], json.dumps(t[3], sort_keys=True, default=repr)))
        for idx, fn, case, v in self.viol:
            f = match_finding(findings, v)
            if f is not None:
                known_hit.setdefault(f['key'], [f, 0])[1] += 1
            else:
                fresh.append((idx, fn, case, v))
        # group fresh violations by (site, failure); report the first (smallest) of each group
        groups = {}
        for t in fresh:
            groups.setdefault((t[3].get('site'), t[3].get('failure')), []).append(t)
        reported = []
        for (site, failure), ts in groups.items():
            idx, fn, case, v = ts[0]
            # confirm by re-execution in this process
            if fn is not None and case is not None and not v.get('no_reexec'):
                _silence()
                try:
                    try:
                        r2 = fn(case) or {}
                    except Exception as e0:
                        if type(e0).__name__ != 'GuppiFormatError':
                            raise
                        r2 = {'viol': [{'site': 'RawVoltageBackend.record', 'failure': 'recording_not_parseable'}]}
                except Exception:
                    print('HARNESS-ERROR property=%s: re-execution of violating case raised\n%s'
                          % (self.prop, traceback.format_exc()))
                    self._cleanup()
                    os._exit(2)
                again = [w for w in r2.get('viol', ()) if w.get('site') == site and w.get('failure') == failure]
                if not again:
                    print('HARNESS-ERROR property=%s: violation site=%s failure=%s did not reproduce on '
                          're-execution of case %s (nondeterministic harness)' % (self.prop, site, failure,
                                                                                json.dumps(case, default=repr)[:1500]))
                    self._cleanup()
                    os._exit(2)
            path = write_replay(self.prop, fn, case, v)
            reported.append((site, failure, len(ts), path, v))
        wall = time.time() - self.t0
        cov = {
            'rule': rule,
            'samples': self.samples[:12] or [{'note': 'no cases'}],
            'exhaustive': bool(self.exhaustive),
            'cap_hit': bool(self.cap_hit),
            'ambiguous_skipped': self.ambiguous,
            'distinct_outcomes': len(self.outcomes),
            'known_finding_cases': {k: c for k, (f, c) in known_hit.items()},
            'workers': NPROC,
            'repo_root': REPO_ROOT,
        }
        n_states = self.states + len(self.state_keys)
        if n_states == 0 and self.transitions:
            n_states = 1        # the initial state from which the executed transitions started
        if self.level == 'model_checking':
            cov.update({'states': n_states, 'transitions': self.transitions,
                        'traces_validated_against_impl': self.traces,
                        'evaluations': self.evaluations,
                        'distinct_nontrivial': len(self.nontrivial)})
        else:
            cov.update({'evaluations': self.evaluations, 'distinct_nontrivial': len(self.nontrivial)})
            if n_states:
                cov.update({'states': n_states, 'transitions': self.transitions,
                            'traces_validated_against_impl': self.traces})
        if self.extra:
            cov['counters'] = self.extra
        if self.notes:
            cov['notes'] = self.notes
        if coverage_extra:
            cov.update(coverage_extra)
        ev = {
            'property_id': self.prop, 'tier': self.tier, 'seed': int(self.seed), 'level': self.level,
            'coverage': cov, 'assumptions': list(assumptions), 'wall_s': round(wall, 3),
            'violations': len(fresh),
        }
        # runs against a scratch copy (mutation / seeded-change runs) must not clobber the committed evidence
        evdir = 'evidence' if os.path.realpath(REPO_ROOT) == '/repo' else 'evidence_mut'
        evpath = os.path.join(HERE, evdir, '%s.json' % self.prop)
        os.makedirs(os.path.dirname(evpath), exist_ok=True)
        with open(evpath, 'w') as f:
            json.dump(ev, f, indent=1, default=repr)
            f.write('\n')
        ok = validate_evidence(evpath)
        self._cleanup()
        for key, (f, c) in sorted(known_hit.items()):
            print('KNOWN-FINDING: property=%s %s [%d case(s) this run]' % (self.prop, f['text'], c))
        for site, failure, cnt, path, v in reported:
            print('violation detail: site=%s failure=%s cases=%d :: %s' % (site, failure, cnt,
                                                                         str(v.get('detail'))[:600]))
            print('VIOLATION property=%s replay=%s' % (self.prop, path))
        print('%s tier=%s seed=%d level=%s evaluations=%d nontrivial=%d states=%d transitions=%d traces=%d '
              'outcomes=%d ambiguous=%d exhaustive=%s wall=%.1fs violations=%d known=%d' % (
                  self.prop, self.tier, self.seed, self.level, self.evaluations, len(self.nontrivial),
                  n_states, self.transitions, self.traces, len(self.outcomes), self.ambiguous,
                  self.exhaustive, wall, len(fresh), sum(c for f, c in known_hit.values())))
        sys.stdout.flush()
        if reported:
            # a violating run is a violation whatever the state of its (then irrelevant) coverage counters
            return 1
        if not ok:
            print('HARNESS-ERROR property=%s: evidence file failed schema validation' % self.prop)
            return 2
        # vacuity guards
        if self.level != 'model_checking' and len(self.nontrivial) < 2:
            print('HARNESS-ERROR property=%s: vacuous run (fewer than 2 non-trivial cases)' % self.prop)
            return 2
        return 1 if reported else 0


# ------------------------------------------------------------------ known findings
def load_findings(prop):
    p = os.path.join(HERE, 'known_findings.json')
    if not os.path.exists(p):
        return []
    with open(p) as f:
        doc = json.load(f)
    out = []
    for e in doc.get('findings', []):
        if e.get('property') == prop and e.get('status') == 'finding':
            out.append(e)
    return out


def _when_ok(cond, params):
    for k, want in (cond or {}).items():
        cur = params
        for part in k.split('.'):
            if isinstance(cur, dict) and part in cur:
                cur = cur[part]
            else:
                return False
        if isinstance(want, dict):
            if 'in' in want and cur not in want['in']:
                return False
            if 'lt' in want and not cur < want['lt']:
                return False
            if 'le' in want and not cur <= want['le']:
                return False
            if 'gt' in want and not cur > want['gt']:
                return False
            if 'ge' in want and not cur >= want['ge']:
                return False
            if 'ne' in want and not cur != want['ne']:
                return False
        elif cur != want:
            return False
    return True


def match_finding(findings, v):
    for f in findings:
        if f.get('site') != v.get('site') or f.get('failure') != v.get('failure'):
            continue
        if _when_ok(f.get('when'), v.get('params') or {}):
            return f
    return None


# ------------------------------------------------------------------ replay artefacts
def write_replay(prop, fn, case, v):
    d = os.path.join(HERE, 'replays' if os.path.realpath(REPO_ROOT) == '/repo' else 'replays_mut', prop)
    os.makedirs(d, exist_ok=True)
    doc = {'property': prop, 'fn': fn.__name__ if fn is not None else None, 'case': case,
           'violation': v}
    p = os.path.join(d, '%s.json' % sha([doc['fn'], case, v.get('site'), v.get('failure')]))
    with open(p, 'w') as f:
        json.dump(doc, f, indent=1, default=repr)
        f.write('\n')
    return p


def validate_evidence(path):
    schema = '/root/.vp/EVIDENCE.schema.json'
    local = os.path.join(HERE, 'mc', 'EVIDENCE.schema.json')
    if not os.path.exists(schema):
        schema = local
    code = ("import json,sys,jsonschema;"
            "jsonschema.validate(json.load(open(sys.argv[1])), json.load(open(sys.argv[2])))")
    try:
        r = subprocess.run(['python3-vt', '-W', 'ignore', '-c', code, path, schema],
                           capture_output=True, text=True, timeout=60)
    except FileNotFoundError:
        return True
    if r.returncode != 0:
        print(r.stderr[-2000:])
        return False
    return True


# ------------------------------------------------------------------ small helpers
def product_cases(**domains):
    """Full Cartesian product of named finite domains, first name outermost."""
    names = list(domains)
    for vals in itertools.product(*[domains[n] for n in names]):
        yield dict(zip(names, vals))


def compositions(n):
    """All 2^(n-1) compositions of n (ordered tuples of positive ints summing to n)."""
    if n == 0:
        yield ()
        return
    for first in range(1, n + 1):
        for rest in compositions(n - first):
            yield (first,) + rest
