"""
Plain replays of the C18 defects (no explorer needed):
    PYTHONPATH=<tree> /venv/bin/python -m pytest -q -p no:cacheprovider /verif/tests/test_c18.py
Each test fails on the pinned tree and passes after the corresponding `fix:` commit of branch fix-c18.
"""
import logging

import numpy as np
import pytest

logging.disable(logging.CRITICAL)
import setigen as stg   # noqa: E402


def fr(t_start=0.0, tchans=2):
    return stg.Frame(fchans=4, tchans=tchans, df=2.0, dt=1.0, fch1=1000.0, t_start=t_start)


# ---- D23: OrderedCadence.insert must clamp like list.insert ------------------------------------------
@pytest.mark.parametrize('i, pos', [(7, 2), (3, 2), (-9, 0), (-3, 0)])
def test_d23_insert_clamps(i, pos):
    a, b, x = fr(0), fr(10), fr(20)
    c = stg.OrderedCadence([a, b], order='ABACAD')
    ref = [a, b]
    ref.insert(i, x)
    c.insert(i, x)                                   # pinned: IndexError for 7 / -9
    assert [id(f) for f in c] == [id(f) for f in ref]
    assert x.metadata['order_label'] == 'ABACAD'[pos]   # pinned: 'C' for insert(3) / insert(-3) wrong position


def test_d23_insert_into_empty_with_short_order():
    x = fr()
    c = stg.OrderedCadence(order='A')
    c.insert(2, x)                                   # pinned: IndexError (string index out of range)
    assert list(c) == [x] and x.metadata['order_label'] == 'A'


# ---- D24: a rejected assignment must not label the frame, and must be rejected -----------------------
@pytest.mark.parametrize('i', [3, -5, 2, -3])
def test_d24_failed_assignment_leaves_no_label(i):
    a, b, x = fr(0), fr(10), fr(20)
    c = stg.OrderedCadence([a, b], order='ABACAD')
    with pytest.raises(IndexError):
        c[i] = x                                     # pinned: c[-3] = x silently replaces b
    assert [id(f) for f in c] == [id(a), id(b)]
    assert 'order_label' not in x.metadata           # pinned: stale 'C' / 'A'
    c.append(x)
    assert x.metadata['order_label'] == 'A'          # position 2 of ABACAD


# ---- D25: a tuple of positions selects those positions -----------------------------------------------
@pytest.mark.parametrize('cls', [stg.Cadence, stg.OrderedCadence])
@pytest.mark.parametrize('idx', [(0, 1), (1,), (), (-1, 0, 0)])
def test_d25_tuple_selection(cls, idx):
    frames = [fr(0), fr(10), fr(20)]
    c = cls(frames)
    r = c[idx]                                       # pinned: IndexError / TypeError / everything
    assert type(r) is cls
    assert [id(f) for f in r] == [id(frames[k]) for k in idx]
    assert [id(f) for f in c[list(idx)]] == [id(f) for f in r]
    assert [id(f) for f in c[np.array(idx, dtype=int)]] == [id(f) for f in r]
