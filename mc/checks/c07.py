"""
C07 -- Voltage frequency registration: the written header locates every tone.

E-PROD: every (sample_rate, branches) x recorded channel window x orientation x fch1 x polarisation
placement x recorded coarse channel (except the one straddling DC) x fine-bin offset (on and off bin
centres; the coarse centre itself excluded) x drift is recorded noise-free by the real backend; the file is
decoded and fine-channelised independently and the peak bin, mapped through THE FILE'S OWN HEADER, must be
within one fine bin of the injected frequency (chirps: of f_start + drift*t at the middle of each fine
spectrum, plus half the sweep per spectrum).  Also: get_raw_params round trip, and the quick-look reducers
against an independent reduction for all (fftlength, int_factor) pairs.
"""
import os
import numpy as np

from mc import engine, vharness
from mc.refs import guppi

PROPERTY = 'C07'
LEVEL = 'exploration'
M = 4


def fine(x, N):
    """x: (T,) complex -> (T//N, N) power, bin k <-> (k - N/2) * chan_bw / N"""
    S = len(x) // N
    X = np.fft.fftshift(np.fft.fft(x[:S * N].reshape(S, N), axis=1), axes=1) / np.sqrt(N)
    return np.abs(X) ** 2


def case_tone(c):
    import setigen.voltage as sv
    from setigen.voltage import raw_utils
    viol = []

    def V(failure, detail, site='RawVoltageBackend.record'):
        viol.append({'site': site, 'failure': failure, 'detail': detail})
    rate, P, N = c['rate'], c['P'], c['N']
    sc, nc, asc, fch1 = c['start_chan'], c['num_chans'], c['asc'], c['fch1']
    npol = 1 if c['polcfg'] == '1' else 2
    sgn = 1 if asc else -1
    chan_bw = rate / P
    tbin = P / rate
    fine_bw = chan_bw / N
    nspec = 4
    T = nspec * N
    coarse = c['coarse']                      # absolute coarse channel index carrying the tone
    f0 = fch1 + sgn * (coarse * chan_bw + c['offset'] * fine_bw)
    drift = sgn * c['drift'] * fine_bw / (N * tbin)          # sky Hz/s: c['drift'] fine bins per fine spectrum (baseband sense)
    form = c.get('form')
    # (sub-box) the arguments in the forms a caller may hold them: the orientation flag as a numpy bool / 0-1, the frequencies and the
    # drift rate as astropy Quantities in non-base units
    asc_arg = np.bool_(asc) if form == 'npbool' else (int(asc) if form == 'int' else asc)
    if form == 'quantity':
        from astropy import units as u
        ant = sv.Antenna(sample_rate=(rate / 1e6) * u.MHz, fch1=(fch1 / 1e6) * u.MHz, ascending=asc_arg, num_pols=npol, seed=1)
        f0_arg, drift_arg = (f0 / 1e3) * u.kHz, (drift / 1e3) * u.kHz / u.s
    else:
        ant = sv.Antenna(sample_rate=rate, fch1=fch1, ascending=asc_arg, num_pols=npol, seed=1)
        f0_arg, drift_arg = f0, drift
    tone_streams = {'1': [0], 'x': [0], 'y': [1], 'xy': [0, 1]}[c['polcfg']]
    for k in tone_streams:
        ant.streams[k].add_constant_signal(f_start=f0_arg, drift_rate=drift_arg, level=1.0, phase=0.3 * k)
    second = c.get('second')
    if second:
        # a second constant signal on the SAME stream(s), in another recorded coarse channel
        f0b = fch1 + sgn * (second['coarse'] * chan_bw + second['offset'] * fine_bw)
        driftb = sgn * second['drift'] * fine_bw / (N * tbin)
        for k in tone_streams:
            ant.streams[k].add_constant_signal(f_start=f0b, drift_rate=driftb, level=0.8, phase=1.0)
    dig = sv.RealQuantizer(target_fwhm=32, num_bits=8)
    fb = sv.PolyphaseFilterbank(num_taps=M, num_branches=P)
    rq = sv.ComplexQuantizer(target_fwhm=32, num_bits=8)
    bsz = T * nc * 2 * npol
    be = sv.RawVoltageBackend(ant, digitizer=dig, filterbank=fb, requantizer=rq, start_chan=sc, num_chans=nc,
                              block_size=bsz, blocks_per_file=2 if c.get('multi') else 1, num_subblocks=2)
    stem = os.path.join(engine.workdir(), 'c07_%s' % engine.sha(c))
    for fn in guppi.list_files(stem):
        os.remove(fn)
    res = {'viol': viol}
    try:
        be.record(output_file_stem=stem, num_blocks=3 if c.get('multi') else 1, length_mode='num_blocks', header_dict={}, digitize=c['digitize'],
                  load_template=False, verbose=False)
        blk = guppi.parse_file(stem + '.0000.raw')[0]
    except Exception as e:
        V('record_raised', '%s: %s' % (type(e).__name__, e))
        return res
    try:
        h = blk['header']
        obsfreq, cbw, obsnchan = float(h['OBSFREQ']) * 1e6, float(h['CHAN_BW']) * 1e6, int(h['OBSNCHAN'])
        hbin = float(h['TBIN'])
        dec = guppi.decode_payload(blk['payload'], 1, obsnchan, npol, 8)[0]        # (nc, T, npol)
        worst = 0.0
        amb = judged = 0
        for p in range(npol):
            pw = np.stack([fine(dec[i, :, p], N) for i in range(obsnchan)])       # (nc, S, N)
            has = p in tone_streams
            if not has:
                continue
            if second:
                # each signal is located inside its own coarse channel
                for (cz, oz, dz, fz, drz) in ((coarse, c['offset'], c['drift'], f0, drift),
                                              (second['coarse'], second['offset'], second['drift'], f0b, driftb)):
                    irow = cz - sc
                    for s in range(pw.shape[1]):
                        rel0 = oz + dz * (s * N + M / 2) / N
                        rel1 = oz + dz * ((s + 1) * N + M / 2) / N
                        if max(abs(rel0), abs(rel1)) > N / 2 - 2 + 1e-9:
                            amb += 1
                            continue
                        judged += 1
                        k = int(np.argmax(pw[irow, s, :]))
                        f_peak = obsfreq + (irow - (obsnchan - 1) / 2) * cbw + (k - N / 2) * cbw / N
                        f_true = fz + drz * (s * N + N / 2 + M / 2) * hbin
                        if abs(f_peak - f_true) > abs(cbw) / N * (1.0 + 0.5 * abs(dz)) + 1e-9 * abs(f_true):
                            V('tone_misplaced', 'two signals on one stream: pol %d fine spectrum %d: the signal injected at %.6f Hz '
                              '(coarse channel %d) peaks at %.6f Hz in its channel (%.2f fine bins away)'
                              % (p, s, f_true, cz, f_peak, (f_peak - f_true) / (abs(cbw) / N)))
                            break
                continue
            for s in range(pw.shape[1]):
                i, k = np.unravel_index(int(np.argmax(pw[:, s, :])), (obsnchan, N))
                f_peak = obsfreq + (i - (obsnchan - 1) / 2) * cbw + (k - N / 2) * cbw / N
                t_mid = (s * N + N / 2 + M / 2) * hbin
                f_true = f0 + drift * t_mid
                # a chirp that has left the usable part of its coarse channel during this fine spectrum is not judged
                rel0 = c['offset'] + c['drift'] * (s * N + M / 2) / N
                rel1 = c['offset'] + c['drift'] * ((s + 1) * N + M / 2) / N
                if max(abs(rel0), abs(rel1)) > N / 2 - 2 + 1e-9:
                    amb += 1
                    continue
                judged += 1
                tol = abs(cbw) / N * (1.0 + 0.5 * abs(c['drift'])) + 1e-9 * abs(f_true)
                worst = max(worst, abs(f_peak - f_true) / (abs(cbw) / N))
                if abs(f_peak - f_true) > tol:
                    V('tone_misplaced', 'pol %d fine spectrum %d: peak at recorded channel %d bin %d -> header frequency %.6f Hz, '
                      'injected %.6f Hz (%.2f fine bins away; OBSFREQ=%r CHAN_BW=%r OBSNCHAN=%d TBIN=%r)'
                      % (p, s, i, k, f_peak, f_true, (f_peak - f_true) / (abs(cbw) / N), h['OBSFREQ'], h['CHAN_BW'], obsnchan, h['TBIN']))
                    break
        # header sanity used by the mapping
        if abs(hbin - tbin) > 1e-12 * tbin:
            V('tbin', 'TBIN=%r, channel sample period is %r' % (hbin, tbin))
        if 'OBSBW' in h and abs(float(h['OBSBW']) * 1e6 - cbw * obsnchan) > 1e-9 * abs(cbw * obsnchan):
            V('obsbw', 'OBSBW=%r is not OBSNCHAN*CHAN_BW' % h['OBSBW'])
        # parameters read back with the same first-channel index
        rp = raw_utils.get_raw_params(stem, start_chan=sc)
        if abs(rp['fch1'] - fch1) > 1e-9 * max(abs(fch1), chan_bw) or abs(rp['chan_bw'] - sgn * chan_bw) > 1e-9 * chan_bw \
                or bool(rp['ascending']) != bool(asc):
            V('raw_params', 'get_raw_params -> fch1=%r chan_bw=%r ascending=%r; antenna has %r, %r, %r'
              % (rp['fch1'], rp['chan_bw'], rp['ascending'], fch1, sgn * chan_bw, asc), site='raw_utils.get_raw_params')
        # (sub-box `multi`) three blocks over two files: EVERY block's own header locates the (non-drifting) tone, not only the
        # first header of the first file (seeded change C07-33: a unit conversion re-applied to the cards block after block)
        if c.get('multi') and not viol:
            allb = [(os.path.basename(fn), bi_, b_) for fn in sorted(guppi.list_files(stem)) for bi_, b_ in enumerate(guppi.parse_file(fn))]
            if len(allb) != 3:
                V('multi_blocks', 'three blocks requested over two files, %d found' % len(allb))
            for (fn_, bi_, b_) in allb:
                hb = b_['header']
                of_, cb_, on_ = float(hb['OBSFREQ']) * 1e6, float(hb['CHAN_BW']) * 1e6, int(hb['OBSNCHAN'])
                d_ = guppi.decode_payload(b_['payload'], 1, on_, npol, 8)[0]
                pwb = np.stack([fine(d_[i, :, tone_streams[0]], N) for i in range(on_)])
                i_, k_ = np.unravel_index(int(np.argmax(pwb[:, 1, :])), (on_, N))
                f_peak = of_ + (i_ - (on_ - 1) / 2) * cb_ + (k_ - N / 2) * cb_ / N
                judged += 1
                if abs(f_peak - f0) > abs(chan_bw) / N + 1e-9 * abs(f0) or abs(float(hb['TBIN']) - tbin) > 1e-12 * tbin:
                    V('tone_misplaced_later_block', '%s block %d: the header of this block places the tone at %.6f Hz, injected at %.6f Hz '
                      '(OBSFREQ=%r CHAN_BW=%r OBSNCHAN=%r TBIN=%r)' % (fn_, bi_, f_peak, f0, hb['OBSFREQ'], hb['CHAN_BW'], hb['OBSNCHAN'], hb['TBIN']))
                    break
        # a SECOND recording from the same backend and antenna: the antenna's timeline continues, so a chirp is found
        # where f_start + drift*t puts it at the (later) time of that recording -- not where it started
        if c.get('second_recording') and not second and not viol:
            t_elapsed = (T * P + M * P) * (1.0 / rate)              # samples drawn by recording 1 (incl. the warm-up window)
            for fn in guppi.list_files(stem):
                os.remove(fn)
            be.record(output_file_stem=stem, num_blocks=1, length_mode='num_blocks', header_dict={}, digitize=c['digitize'],
                      load_template=False, verbose=False)
            blk2 = guppi.parse_file(stem + '.0000.raw')[0]
            dec2 = guppi.decode_payload(blk2['payload'], 1, obsnchan, npol, 8)[0]
            p = tone_streams[0]
            pw2 = np.stack([fine(dec2[i, :, p], N) for i in range(obsnchan)])
            irow = coarse - sc
            for s_ in range(pw2.shape[1]):
                t_mid = t_elapsed + (s_ * N + N / 2 + M / 2) * hbin
                rel = c['offset'] + c['drift'] * (t_mid / (N * hbin))
                if abs(rel) > N / 2 - 2 - 0.5 * abs(c['drift']):
                    continue
                k = int(np.argmax(pw2[irow, s_, :]))
                f_peak = obsfreq + (irow - (obsnchan - 1) / 2) * cbw + (k - N / 2) * cbw / N
                f_true = f0 + drift * t_mid
                judged += 1
                if abs(f_peak - f_true) > abs(cbw) / N * (1.0 + 0.5 * abs(c['drift'])) + 1e-9 * abs(f_true):
                    V('tone_misplaced_second_recording', 'second recording from the same antenna: fine spectrum %d peaks at %.6f Hz, the chirp is at '
                      '%.6f Hz by then (%.2f fine bins away; it started at %.6f Hz)' % (s_, f_peak, f_true, (f_peak - f_true) / (abs(cbw) / N), f0))
                    break
        res['nontrivial'] = [engine.sha(c)] if judged else []
        res['ambiguous'] = amb
        res['extra'] = {'fine_spectra_judged': judged}
        res['outcomes'] = ['ch%d/off%s/dr%s/%.1f' % (coarse - sc, c['offset'], c['drift'], round(worst, 1))]
    finally:
        for fn in guppi.list_files(stem):
            os.remove(fn)
    return res


def ref_reduce(xs, N, I):
    """xs: list of (T, nc) complex arrays (one per polarisation) -> (rows//I, nc*N) summed power."""
    tot = None
    for x in xs:
        T, nc = x.shape
        S = T // N
        blk = []
        for i in range(nc):
            blk.append(fine(x[:, i], N))          # (S, N)
        pw = np.concatenate(blk, axis=1)          # (S, nc*N)
        tot = pw if tot is None else tot + pw
    k = (tot.shape[0] // I) * I
    return tot[:k].reshape(k // I, I, tot.shape[1]).sum(axis=1)


def case_reducer(c):
    import setigen.voltage as sv
    from setigen.voltage import waterfall as svw
    viol = []

    def V(failure, detail, site):
        viol.append({'site': site, 'failure': failure, 'detail': detail})
    N, I = c['N'], c['I']
    rng = np.random.default_rng([c['seed'], 5])
    T, nc = c['T'], c['nc']
    x = rng.normal(size=(T, nc)) + 1j * rng.normal(size=(T, nc))
    y = rng.normal(size=(T, nc)) + 1j * rng.normal(size=(T, nc))
    for name, args, xs in (('xy', (x, y), [x, y]), ('x', (x, None), [x])):
        want = ref_reduce(xs, N, I)
        try:
            got = svw.get_pfb_waterfall(args[0], args[1], fftlength=N, int_factor=I)
            if got.shape != want.shape or not np.allclose(got, want, rtol=1e-9, atol=1e-9):
                V('reduction', 'get_pfb_waterfall(%s, fftlength=%d, int_factor=%d): shape %s vs %s' % (name, N, I, got.shape, want.shape),
                  'waterfall.get_pfb_waterfall')
        except Exception as e:
            V('raised', 'fftlength=%d int_factor=%d: %s: %s' % (N, I, type(e).__name__, e), 'waterfall.get_pfb_waterfall')
        # the two settings as numpy fixed-width integers
        try:
            got = svw.get_pfb_waterfall(args[0], args[1], fftlength=np.int16(N), int_factor=np.uint8(I))
            if got.shape != want.shape or not np.allclose(got, want, rtol=1e-9, atol=1e-9):
                V('reduction', 'get_pfb_waterfall(%s, fftlength=np.int16(%d), int_factor=np.uint8(%d)): shape %s vs %s' % (name, N, I, got.shape, want.shape),
                  'waterfall.get_pfb_waterfall')
        except Exception as e:
            V('raised', 'fftlength=np.int16(%d) int_factor=np.uint8(%d): %s: %s' % (N, I, type(e).__name__, e), 'waterfall.get_pfb_waterfall')
    # from a real RAW file (dual polarisation, 8 bit): first block only
    ant = sv.Antenna(sample_rate=1024.0, fch1=0.0, ascending=True, num_pols=2, seed=c['seed'] + 1)
    ant.x.add_noise(0, 1); ant.y.add_noise(0, 1)
    ant.x.add_constant_signal(f_start=1024.0 / 8 * 1.3, drift_rate=0.0, level=0.5)
    be = sv.RawVoltageBackend(ant, digitizer=sv.RealQuantizer(), filterbank=sv.PolyphaseFilterbank(num_taps=2, num_branches=8),
                              requantizer=sv.ComplexQuantizer(), start_chan=0, num_chans=nc, block_size=T * nc * 4,
                              blocks_per_file=2, num_subblocks=1)
    stem = os.path.join(engine.workdir(), 'c07r_%s' % engine.sha(c))
    for fn in guppi.list_files(stem):
        os.remove(fn)
    try:
        hd = {'DIRECTIO': c['directio']}
        be.record(output_file_stem=stem, num_blocks=2, length_mode='num_blocks', header_dict=dict(hd),
                  load_template=False, verbose=False)
        blk = guppi.parse_file(stem + '.0000.raw')[0]
        if c.get('aligned'):
            # the same recording with as many extra cards as make the header an exact multiple of 512 bytes
            for k in range((-blk['n_cards']) % 32):
                hd['FILL%03d' % k] = k
            for fn in guppi.list_files(stem):
                os.remove(fn)
            be = sv.RawVoltageBackend(ant, digitizer=sv.RealQuantizer(), filterbank=sv.PolyphaseFilterbank(num_taps=2, num_branches=8),
                                      requantizer=sv.ComplexQuantizer(), start_chan=0, num_chans=nc, block_size=T * nc * 4,
                                      blocks_per_file=2, num_subblocks=1)
            be.record(output_file_stem=stem, num_blocks=2, length_mode='num_blocks', header_dict=dict(hd),
                      load_template=False, verbose=False)
            blk = guppi.parse_file(stem + '.0000.raw')[0]
            if (blk['n_cards'] * 80) % 512:
                raise engine.HarnessError('aligned-header case is not aligned: %d cards' % blk['n_cards'])
        dec = guppi.decode_payload(blk['payload'], 1, nc, 2, 8)[0]           # (nc, T, 2)
        want = ref_reduce([dec[:, :, 0].T, dec[:, :, 1].T], N, I)
        got = svw.get_waterfall_from_raw(stem + '.0000.raw', T * nc * 4, nc, int_factor=I, fftlength=N)
        if got.shape != want.shape or not np.allclose(got, want, rtol=1e-9, atol=1e-9):
            V('reduction', 'get_waterfall_from_raw(int_factor=%d, fftlength=%d) has shape %s; the reduction of the first block with '
              'that FFT length and integration factor has shape %s' % (I, N, got.shape, want.shape), 'waterfall.get_waterfall_from_raw')
        # the published positional order is (raw_filename, block_size, num_chans, int_factor, fftlength)
        gotp = svw.get_waterfall_from_raw(stem + '.0000.raw', T * nc * 4, nc, I, N)
        if gotp.shape != want.shape or not np.allclose(gotp, want, rtol=1e-9, atol=1e-9):
            V('reduction_positional', 'get_waterfall_from_raw(file, block_size, num_chans, %d, %d) [positional: int_factor, fftlength] has shape %s, '
              'expected %s' % (I, N, gotp.shape, want.shape), 'waterfall.get_waterfall_from_raw')
        gp = svw.get_pfb_waterfall(dec[:, :, 0].T.astype(complex), dec[:, :, 1].T.astype(complex), N, I)
        if gp.shape != want.shape or not np.allclose(gp, want, rtol=1e-9, atol=1e-9):
            V('reduction_positional', 'get_pfb_waterfall(x, y, %d, %d) [positional: fftlength, int_factor] has shape %s, expected %s'
              % (N, I, gp.shape, want.shape), 'waterfall.get_pfb_waterfall')
    except Exception as e:
        V('raised', '%s: %s' % (type(e).__name__, e), 'waterfall.get_waterfall_from_raw')
    finally:
        for fn in guppi.list_files(stem):
            os.remove(fn)
    return {'viol': viol, 'nontrivial': [engine.sha(c)] if N != I else [], 'outcomes': ['red/%d/%d' % (N, I)]}


def case_leakage(c):
    """level_utils.get_leakage_factor: 1/sinc of the distance from the tone to the nearest fine-channel centre, the fine channels
    being counted from fch1 along the band's own direction (both orientations)."""
    import setigen.voltage as sv
    from setigen.voltage import level_utils
    viol = []
    rate, P, N, asc = c['rate'], c['P'], c['N'], c['asc']
    fch1 = c['fch1']
    ant = sv.Antenna(sample_rate=rate, fch1=fch1, ascending=asc, num_pols=1, seed=1)
    be = sv.RawVoltageBackend(ant, digitizer=sv.RealQuantizer(), filterbank=sv.PolyphaseFilterbank(num_taps=2, num_branches=P),
                              requantizer=sv.ComplexQuantizer(), start_chan=0, num_chans=P // 2, block_size=2 * (P // 2) * 2 * 4,
                              blocks_per_file=1, num_subblocks=1)
    fine = rate / P / N
    sgn = 1 if asc else -1
    n = 0
    for k in (0, 1, 7, N + 3):
        for o in (0.0, 0.1, 0.25, 0.4, 0.6, 0.75, 0.9):
            f = fch1 + sgn * (k + o) * fine
            want = 1.0 / np.sinc(min(o, 1.0 - o))
            n += 1
            try:
                got = float(level_utils.get_leakage_factor(f, be, N))
            except Exception as e:
                viol.append({'site': 'level_utils.get_leakage_factor', 'failure': 'raised', 'detail': '%s: %s' % (type(e).__name__, e)})
                continue
            # conditioning: d(1/sinc)/do is bounded by ~2.5 on [0, 0.5]; the offset itself carries ~ulp(f)/fine of rounding
            tol = 1e-9 + 4.0 * (abs(f) * 2.0 ** -52 / fine + 2.0 ** -50 * (k + 1))
            if abs(got - want) > tol * want:
                viol.append({'site': 'level_utils.get_leakage_factor', 'failure': 'leakage_factor',
                             'detail': '%s band, tone %.2f fine channels past centre %d: factor %r, 1/sinc(distance to the nearest centre) = %r'
                                       % ('ascending' if asc else 'descending', o, k, got, want)})
    # one fine channel per reduced row, along the band's own direction: the sign of the file's CHAN_BW
    for I in (1, 4):
        n += 1
        try:
            udr = float(level_utils.get_unit_drift_rate(be, N, I))
            want = (be.chan_bw / N) / (be.tbin * N * I)
            if abs(udr - want) > 1e-12 * abs(want) or (udr > 0) != (sgn > 0):
                viol.append({'site': 'level_utils.get_unit_drift_rate', 'failure': 'unit_drift_rate_sign',
                             'detail': '%s band: get_unit_drift_rate(fftlength=%d, int_factor=%d)=%r, one fine channel per reduced row is %r'
                                       % ('ascending' if asc else 'descending', N, I, udr, want)})
        except Exception as e:
            viol.append({'site': 'level_utils.get_unit_drift_rate', 'failure': 'raised', 'detail': '%s: %s' % (type(e).__name__, e)})
    return {'viol': viol, 'n': n, 'nontrivial': [engine.sha(c)], 'outcomes': ['leak/%s' % asc]}


def case_stem(c):
    """raw_utils.get_stem: the stem of a recorded file is the stem it was recorded under (dots included), so that the
    parameters can be read back from a file name."""
    import setigen.voltage as sv
    from setigen.voltage import raw_utils
    viol = []
    wd = engine.workdir()
    stem = os.path.join(wd, c['name'])
    ant = sv.Antenna(sample_rate=1024.0, fch1=0.0, ascending=True, num_pols=1, seed=1)
    ant.x.add_noise(0, 1)
    be = sv.RawVoltageBackend(ant, digitizer=sv.RealQuantizer(), filterbank=sv.PolyphaseFilterbank(num_taps=2, num_branches=8),
                              requantizer=sv.ComplexQuantizer(), start_chan=0, num_chans=2, block_size=2 * 2 * 4 * 2,
                              blocks_per_file=1, num_subblocks=1)
    for fn in guppi.list_files(stem):
        os.remove(fn)
    try:
        be.record(output_file_stem=stem, num_blocks=2, length_mode='num_blocks', header_dict={}, load_template=False, verbose=False)
        for fn in guppi.list_files(stem):
            got = str(raw_utils.get_stem(fn))
            if got != stem:
                viol.append({'site': 'raw_utils.get_stem', 'failure': 'stem', 'detail': 'get_stem(%r) = %r, recorded under %r'
                             % (os.path.basename(fn), os.path.basename(got), c['name'])})
                break
            rp = raw_utils.get_raw_params(raw_utils.get_stem(fn), start_chan=0)
            if int(rp['num_chans']) != 2:
                viol.append({'site': 'raw_utils.get_raw_params', 'failure': 'params_via_stem', 'detail': 'num_chans=%r' % rp['num_chans']})
    except Exception as e:
        viol.append({'site': 'raw_utils.get_stem', 'failure': 'raised', 'detail': '%s: %s' % (type(e).__name__, e)})
    finally:
        for fn in guppi.list_files(stem):
            os.remove(fn)
    return {'viol': viol, 'n': 1, 'nontrivial': [engine.sha(c)], 'outcomes': ['stem/%d' % c['name'].count('.')]}


def run(ctx):
    Tt = ctx.tier == 'thorough'
    cases = []
    for rate, P in ((1024.0, 16), (3e9, 16), (48e3, 8), (1e6, 32), (1024.0, 14), (1024.0, 15)):    # 14 = 2 x 7: not 5-smooth; 15: an odd branch count (7 whole channels + DC)
        half = P // 2
        wins = sorted(set([(0, 1), (0, 3), (1, 1), (1, 2), (half - 3, 3), (half - 1, 1)] +
                          ([(s, n) for s in range(half) for n in (1, 2, 3) if s + n <= half] if Tt else [])))
        for (sc, nc) in wins:
            for asc in (True, False):
                for fch1 in ((0.0, 1234.5, 6e9) if Tt else (0.0, 6e9)):
                    if not asc and fch1 == 0.0:
                        fch1 = rate / 2          # keep sky frequencies non-negative for descending bands
                    for polcfg in ('1', 'x', 'y') + (('xy',) if Tt else ()):
                        for N in ((16, 64) if Tt else (16,)):
                            offs = sorted(set([-N // 2 + 2, -5, -1, 1, 5, N // 2 - 2, 0.37, -2.63]))
                            for coarse in range(sc, sc + nc):
                                if coarse == 0:
                                    continue      # the channel straddling DC is excluded by the property
                                for off in offs:
                                    for drift in ((0, 1, -1, 3, -3) if Tt else (0, 1, -3)):
                                        for dig in ((True, False) if (Tt or (off == 1 and drift == 0)) else (True,)):
                                            cases.append(dict(rate=rate, P=P, start_chan=sc, num_chans=nc, asc=asc, fch1=fch1,
                                                              polcfg=polcfg, N=N, coarse=coarse, offset=off, drift=drift, digitize=dig))
    # (sub-box) argument forms: every tone / chirp case of the first (rate, branches) pair with a 2-channel window
    cases += [dict(c0, form=f) for c0 in list(cases) if c0['rate'] == 1024.0 and c0['P'] == 16 and c0['num_chans'] == 2 and c0['digitize']
              and c0['polcfg'] in ('1', 'x') for f in ('npbool', 'int', 'quantity')]
    # two constant signals on one stream (different recorded channels; tone + tone, tone + chirp)
    two = []
    for base in cases:
        if base['num_chans'] >= 2 and base['digitize'] and base['offset'] in (1, -5) and base['drift'] == 0:
            others = [ch for ch in range(base['start_chan'], base['start_chan'] + base['num_chans']) if ch not in (0, base['coarse'])]
            for ch in others:
                for off2, dr2 in ((3, 0), (-2, 1)):
                    two.append(dict(base, second=dict(coarse=ch, offset=off2, drift=dr2)))
    cases = cases + two
    # a second recording from the same antenna for slowly drifting tones (the chirp must still be inside its channel)
    cases = cases + [dict(b, second_recording=True) for b in cases
                     if not b.get('second') and b['drift'] in (1, -1) and b['offset'] in (1, -1, 0.37) and b['digitize']]
    # every block of a three-block, two-file recording is located through its own header (pure tones)
    cases = cases + [dict(b, multi=True) for b in cases
                     if not b.get('second') and not b.get('second_recording') and not b.get('form') and b['drift'] == 0
                     and b['offset'] in (1, 0.37) and b['digitize']]
    ctx.pmap(case_tone, cases)
    red = []
    for N in (1, 2, 4, 8):
        for I in (1, 2, 4, 8, 3, 5):         # 3, 5: the fine spectra are not a whole number of integrations (the rest is dropped)
            for nc in (1, 3):
                for directio in (0, 1):
                    red.append(dict(N=N, I=I, nc=nc, T=64, directio=directio, seed=ctx.seed))
                    if directio and N == 4:
                        red.append(dict(N=N, I=I, nc=nc, T=64, directio=directio, seed=ctx.seed, aligned=True))
    ctx.pmap(case_reducer, red)
    ctx.pmap(case_stem, [dict(name=nm) for nm in ('c07stem_plain', 'c07stem_obs_1.5GHz', 'c07stem_a.b.c', 'c07stem_guppi_59114.5_TMC1')])
    ctx.pmap(case_leakage, [dict(rate=r_, P=P_, N=N_, asc=a_, fch1=f_) for (r_, P_) in ((1024.0, 16), (3e9, 1024))
                            for N_ in (16, 1024) for a_ in (True, False) for f_ in (0.0, 6e9) if not (not a_ and f_ == 0.0)])
    # reading the parameters back from a stem that was recorded before with ANOTHER orientation / fch1 / first channel
    from mc.checks import c04
    confs = [dict(bpf=2, nb=2, asc=True, fch1=0.0, start_chan=0, num_chans=2, npol=2, source='ant', dio=1),
             dict(bpf=2, nb=2, asc=False, fch1=6e9, start_chan=1, num_chans=3, npol=1, source='ant', dio=0),
             dict(bpf=1, nb=2, asc=True, fch1=1e6, start_chan=2, num_chans=1, npol=2, source='ant', dio=1),
             # recordings of antenna arrays (OBSNCHAN counts the channels of all antennas)
             dict(bpf=2, nb=2, asc=False, fch1=6e9, start_chan=1, num_chans=3, npol=2, source='arr2', dio=0),
             dict(bpf=2, nb=1, asc=True, fch1=1e9, start_chan=0, num_chans=2, npol=1, source='arr3', dio=1)]
    ctx.pmap(c04.case_restem, [dict(box='restem', steps=[a, b]) for a in confs for b in confs if a is not b])
    return ctx.finish(
        rule='complete box of (sample_rate, branches) x channel window x orientation x fch1 x polarisation placement x recorded '
             'coarse channel (DC channel excluded) x fine-bin offset {-N/2+2, -5, -2.63, -1, 0.37, 1, 5, N/2-2} x drift (fine bins '
             'per fine spectrum) x digitiser, one noise-free recording each, peak located through the file\'s own header; plus the '
             'reducers for every (fftlength, int_factor) in {1,2,4,8} x {1,2,3,4,5,8}.  Every tone case is non-trivial (distinct tuple; the peak '
             'must be found in one of >= 16 bins x channels); reducer cases are non-trivial when fftlength != int_factor',
        assumptions=['tones within N/2-2 fine bins of the coarse centre (closer to the channel edge the neighbour channel carries '
                     'an alias of comparable power, which the property\'s "within one fine bin" does not disambiguate)',
                     'chirp reference time = middle of the fine spectrum plus half the filterbank window (num_taps/2 spectra)',
                     'tolerance 1 fine bin + half the sweep per fine spectrum'],
        coverage_extra={'bounds': {'taps': M, 'fine_spectra_per_recording': 4}})
