"""
C08 -- Polyphase filterbank equals its FIR+DFT definition, invariant to chunking.

E-HIST (composition schedules + interleavings) on the real PolyphaseFilterbank:

* case_window  : every (M, P, window) -- stored window == documented firwin design == hand-written windowed sinc.
* case_stream  : every (M, P, window, input kind, stream length c) -- one-shot call against the long-double
                 FIR+DFT definition; ALL 2^(c-1) compositions of the stream into chunks driven through
                 channelize(cache=True) on a fresh object (chunks = slices of the stream, and again with every chunk
                 passed through ONE reused caller buffer); for every composition a cache=False call on foreign
                 data, estimate_channelized_stds() (the library's own mid-stream cache=False user) and
                 _reset_cache() inserted at every position.
* case_pair    : two filterbank objects (same / different (M, P), different windows and data), every pair of
                 compositions, ALL interleavings of the two chunk sequences, second object built up-front or lazily.
* case_algebra : linearity on three (a, b) pairs, complex == channelize(Re) + i*channelize(Im),
                 get_pfb_voltages lower half == channelize.

Oracle rules (DESIGN.md section 3): rule 5 -- identities between two runs of the implementation (chunked vs
one-shot, solo vs interleaved) are compared bit for bit, falling back to the long-double reference with the
rule-4 tolerance before a violation is declared; rule 4 -- the definition is compared with 1e-10 of the input scale.
"""
import hashlib
import itertools
import numpy as np

from mc import engine
from mc.refs import pfb as R

PROPERTY = 'C08'
LEVEL = 'model_checking'

SITE = 'PolyphaseFilterbank.channelize'
TOL = 1e-10            # relative to max|x| (measured float64 error is < 1e-14 max|x| over the whole box)
TOL_WIN_DESIGN = 1e-13  # stored window vs documented firwin design, relative to max|w|
TOL_WIN_SINC = 1e-11    # stored window vs hand-written windowed sinc, relative to max|w|

TAPS = [1, 2, 3, 4]
BRANCHES_Q = [2, 3, 4, 6, 7, 8, 14, 16]       # 14, 22, 26: transform lengths with a prime factor > 5; 3, 7, 15: odd branch counts
BRANCHES_T = [2, 3, 4, 5, 6, 7, 8, 10, 12, 14, 15, 16, 22, 26, 32]
WINDOWS_Q = ['hamming', 'hann', 'boxcar', 'blackman']
WINDOWS_T = WINDOWS_Q + ['bartlett', 'blackmanharris', ['kaiser', 8.0]]
BIG_Q = [(8, 64, 'hamming'), (4, 128, 'hann')]                       # realistic sizes, short streams
BIG_T = BIG_Q + [(8, 1024, 'hamming'), (12, 256, 'blackman'), (8, 1024, ['kaiser', 8.0])]
KINDS = ['noise_tone', 'int_ramp', 'complex', 'burst']
KINDS_T = KINDS + ['float32', 'complex64']
LONG_C = 6             # thorough: streams of >= LONG_C windows are run for the quick box of configurations only
ALLPOS_C = 4           # thorough: impulse trains at ALL M*P offsets for streams of <= ALLPOS_C windows, 3 offsets beyond
CHECK_BUFFER_REUSE = True   # the same sample sequence fed through one reused caller buffer (values at call time are
                            # the stream's values; the property does not let the result depend on what the caller
                            # does with its array afterwards)
AB_REAL = [(1.0, 1.0), (2.5, -0.75), (-1.0, 1000.0)]
AB_CPLX = [(1.0, 1.0), (1j, 2.0 - 1.0j), (-0.5 + 0.25j, 1000.0)]


# ------------------------------------------------------------------ inputs
def make_input(kind, n, M, P, seed, salt, pos=0):
    """Deterministic data content; `seed` (VERIF_SEED) and `salt` only change values, never shapes."""
    rng = np.random.default_rng([int(seed), int(salt), n])
    t = np.arange(n)
    if kind == 'noise_tone':
        f = 0.5 * (0.37 + 0.01 * (seed % 5))
        return rng.standard_normal(n) + 2.0 * np.cos(2 * np.pi * f * t + 0.3 * salt)
    if kind == 'float32':
        return (rng.standard_normal(n) + np.cos(0.61 * t)).astype(np.float32)
    if kind == 'int_ramp':
        return (t - n // 3 + (seed % 7) + 3 * salt).astype(np.int64)
    if kind == 'complex':
        return rng.standard_normal(n) + 1j * (rng.standard_normal(n) + np.sin(0.23 * t + salt))
    if kind == 'complex64':
        return (rng.standard_normal(n) + 1j * rng.standard_normal(n)).astype(np.complex64)
    if kind == 'burst':
        # live samples in the first window only, exact zeros afterwards: whole later chunks are silent while the filter is
        # still ringing down from what the cache holds
        x = np.zeros(n)
        N = M * P
        x[:N] = rng.standard_normal(N) + 1.5
        return x
    if kind == 'impulse':
        # sparse train: one spike per window, amplitude j+1, offset advancing by P+1 per window, so every tap/branch
        # alignment is visited and every seam has a non-zero spectrum across it
        x = np.zeros(n)
        N = M * P
        for j in range(n // N):
            x[j * N + (pos + j * (P + 1)) % N] = float(j + 1)
        return x
    raise ValueError(kind)


def _pf():
    import setigen.voltage.polyphase_filterbank as pf
    return pf


_ITYPE = [None]


def _new(M, P, win):
    it = _ITYPE[0]
    if it:
        # the two integer settings as numpy fixed-width integers (sub-box), whenever the value fits the type
        info = np.iinfo(it)
        M = np.dtype(it).type(M) if info.min <= M <= info.max else M
        P = np.dtype(it).type(P) if info.min <= P <= info.max else P
    return _pf().PolyphaseFilterbank(num_taps=M, num_branches=P, window_fn=R.window_arg(win))


def _preamble(M, P, win):
    """Bring any state a faulty implementation might have hoisted to module/class level into a condition that is
    the same whatever this worker process ran before (so a violation reproduces when the case is replayed alone):
    a decoy object with the same (M, P) but ANOTHER window streams one chunk first, and stays alive during the case."""
    other = 'boxcar' if win != 'boxcar' else 'hamming'
    # also objects with the same coefficient count M*P but a different taps/branches split and the SAME window
    # (something memoised on (M*P, window) instead of (M, P, window) is then poisoned deterministically)
    for (m2, p2) in ((2 * M, P // 2), (M // 2, 2 * P), (M * P // 2, 2), (1, M * P), (3 * M, P // 3), (M // 3, 3 * P)):
        if m2 >= 1 and p2 >= 2 and m2 * p2 == M * P and (m2, p2) != (M, P):
            try:
                _new(m2, p2, win)
            except Exception:
                pass
    try:
        decoy = _new(M, P, other)
        decoy.channelize(np.cos(0.7 * np.arange(2 * M * P)) + 0.25, cache=True)
        return decoy
    except Exception:
        return None


def _digest(a):
    if a is None:
        return 'None'
    a = np.ascontiguousarray(a)
    return '%s%s%s' % (a.dtype.str, a.shape, hashlib.sha1(a.tobytes()).hexdigest()[:12])


def _scale(x):
    return max(float(np.abs(np.asarray(x)).max()), 1e-300)


class Cmp(object):
    """Rule 5 comparator: bit for bit against the implementation's own run, else reference with tolerance."""

    def __init__(self, V):
        self.V = V
        self.bitwise = 0
        self.fallback = 0

    def same(self, got, exp_impl, exp_ref, tol, failure, what, site=SITE):
        """Returns True when `got` is acceptable."""
        if not isinstance(got, np.ndarray) or got.shape != exp_impl.shape:
            self.V(failure + '_shape', '%s: returned shape %s, expected %s (spectra missing or repeated)'
                   % (what, getattr(got, 'shape', type(got).__name__), exp_impl.shape), site)
            return False
        if got.dtype == exp_impl.dtype and np.array_equal(got, exp_impl):
            self.bitwise += 1
            return True
        if got.size == 0:
            self.bitwise += 1
            return True
        err = float(np.abs(got.astype(R.CLD) - exp_ref).max())
        err_impl = float(np.abs(got - exp_impl).max())
        if (np.isfinite(err) and err <= tol) or (np.isfinite(err_impl) and err_impl <= tol):
            self.fallback += 1
            return True
        j = np.unravel_index(int(np.argmax(np.abs(got.astype(R.CLD) - exp_ref))), got.shape)
        self.V(failure, '%s: not bit-identical to the implementation\'s own one-shot result, and off by %.3g from it / '
               '%.3g from the definition (tol %.3g); worst at row %d chan %d: got %r, definition %r'
               % (what, err_impl, err, tol, j[0], j[1], complex(got[j]), complex(exp_ref[j])), site)
        return False


# ------------------------------------------------------------------ window
def case_window(c):
    _ITYPE[0] = c.get('itype')
    M, P, win = c['M'], c['P'], c['win']
    viol = []

    def V(failure, detail, site='get_pfb_window'):
        viol.append({'site': site, 'failure': failure, 'detail': detail})
    pf = _pf()
    decoy = _preamble(M, P, win)
    try:
        fb = _new(M, P, win)
        w_obj = np.asarray(fb.window)
        w_fun = np.asarray(pf.get_pfb_window(M, P, R.window_arg(win)))
    except Exception as e:
        V('raised', '%s: %s' % (type(e).__name__, e))
        return {'viol': viol}
    wd = R.design_window(M, P, win)
    ws = R.sinc_window(M, P, win)
    peak = float(np.abs(ws).max())
    if w_obj.shape != (M * P,) or w_fun.shape != (M * P,):
        V('window_shape', 'window has shape %s / %s, expected (%d,)' % (w_obj.shape, w_fun.shape, M * P))
        return {'viol': viol}
    if not np.array_equal(w_obj, w_fun):
        V('window_object_vs_function', 'PolyphaseFilterbank.window differs from get_pfb_window()')
    e1 = float(np.abs(w_obj - wd).max())
    if not e1 <= TOL_WIN_DESIGN * peak:
        V('window_design', 'window differs from firwin(M*P, cutoff=1/P, window, scale=True)*M*P by %.3g (peak %.3g)'
          % (e1, peak))
    e2 = float(np.abs(w_obj.astype(R.LD) - ws).max())
    if not e2 <= TOL_WIN_SINC * peak:
        V('window_sinc', 'window differs from the unit-DC-gain windowed sinc * M*P by %.3g (peak %.3g)' % (e2, peak))
    dc = float(w_obj.astype(R.LD).sum())
    if not abs(dc - M * P) <= 1e-11 * M * P:
        V('window_dc_gain', 'sum of the window is %r, expected M*P=%d' % (dc, M * P))
    res = {'viol': viol, 'outcomes': ['win/%d/%d' % (M, P)]}
    if M * P >= 4:
        res['nontrivial'] = ['win' + engine.sha(c)]
    return res


# ------------------------------------------------------------------ streams
def _run_history(fb, x, z, ops, M, N, buf=None, strided=False):
    """Execute ops on the real object.  Returns list of (op, output-or-None, state_key_fields).
    With `buf`, the caller streams through ONE reused buffer: each chunk is written into buf[:len] and passed."""
    out = []
    for op in ops:
        if op[0] == 'c':
            chunk = x[op[1] * N:op[2] * N]
            if strided:
                # every chunk arrives as a NON-contiguous view (every other element of a larger buffer, e.g. one polarisation of an
                # interleaved recording)
                big = np.zeros(2 * len(chunk) + 1, dtype=chunk.dtype) - 3
                big[1::2] = chunk
                chunk = big[1::2]
            if buf is not None:
                view = buf[:len(chunk)]
                view[:] = chunk
                chunk = view
            y = fb.channelize(chunk, cache=True)
        elif op[0] == 'n':
            y = fb.channelize(z, cache=False)
        elif op[0] == 'e':
            fb.estimate_channelized_stds(factor=2 * M, seed=1)      # the library's own mid-stream cache=False user
            y = None
        elif op[0] == 'g':
            # the read-only helpers of the object (frequency response) must not disturb the stream either
            fb.get_response(fftlength=2 * M)
            fb.tile_response(2, fftlength=2 * M)
            y = None
        elif op[0] == 'x':
            # calls the filterbank refuses in every state (no voltages at all; on a fresh object also a plain list and a chunk
            # shorter than one window) are not part of the stream
            bads = [None, 'not voltages']
            if fb.cache is None:
                bads += [list(z[:N]), np.asarray(z[:max(1, N // 2)])]
            for bad in bads:
                try:
                    fb.channelize(bad, cache=True)      # (if an earlier refused call left something behind, this one may be accepted:
                except Exception:                       #  the stream comparison that follows then shows it)
                    pass
            y = None
        elif op[0] == 'k':
            # the stream continues on a deep copy of the object (the original is dropped)
            import copy as _copy
            fb = _copy.deepcopy(fb)
            y = None
        elif op[0] == 'p':
            # ... or on the object after a pickle round trip
            import pickle as _pickle
            fb = _pickle.loads(_pickle.dumps(fb))
            y = None
        else:
            fb._reset_cache()
            y = None
        out.append((op, y, _digest(fb.cache)))
    return out


def _expect(ops, M):
    """Abstract stream model: which one-shot rows each op must return.  ('rows', r0, r1) / ('z',) / None."""
    exp = []
    fresh = True
    for op in ops:
        if op[0] == 'c':
            a, b = op[1], op[2]
            r0 = a * M if fresh else (a - 1) * M
            exp.append(('rows', r0, (b - 1) * M))
            fresh = False
        elif op[0] == 'n':
            exp.append(('z',))
        elif op[0] in ('e', 'g', 'k', 'p', 'x'):
            exp.append(None)
        else:
            exp.append(None)
            fresh = True
    return exp


def _chunks(comp):
    ops, a = [], 0
    for cj in comp:
        ops.append(('c', a, a + cj))
        a += cj
    return ops


def case_stream(c):
    _ITYPE[0] = c.get('itype')
    M, P, win, kind, cw, seed = c['M'], c['P'], c['win'], c['kind'], c['c'], c['seed']
    N = M * P
    K = P // 2
    viol = []
    seen = set()

    def V(failure, detail, site=SITE):
        if (site, failure) in seen:          # one report per kind per configuration (the first = simplest)
            return
        seen.add((site, failure))
        viol.append({'site': site, 'failure': failure, 'detail': detail})

    cmp_ = Cmp(V)
    decoy = _preamble(M, P, win)
    x = make_input(kind, cw * N, M, P, seed, 1, c.get('pos', 0))
    z = make_input('noise_tone' if kind != 'complex' else 'complex', 2 * N, M, P, seed, 2)
    w = R.design_window(M, P, win)
    Yref = R.ref_pfb(x, w, M, P)
    Zref = R.ref_pfb(z, w, M, P)
    tol = TOL * _scale(x)
    tolz = TOL * _scale(z)
    res = {'viol': viol, 'n': 0, 'transitions': 0, 'traces': 0, 'state_keys': [], 'nontrivial': [], 'outcomes': [],
           'extra': {}}
    cfgkey = engine.sha([M, P, win, kind, cw, c.get('pos', 0)])
    skeys = set()
    outcomes = set()
    try:
        skeys.add(engine.sha([cfgkey, _digest(_new(M, P, win).cache), 0, False]))     # initial state, real object
    except Exception as e:
        V('raised', 'constructor raised %s: %s' % (type(e).__name__, e), site='PolyphaseFilterbank.__init__')
        return res
    res['state_keys'] = sorted(skeys)

    # ---- one-shot, against the definition
    try:
        Y1 = _new(M, P, win).channelize(x, cache=True)
        Y0 = _new(M, P, win).channelize(x, cache=False)
        Z0 = _new(M, P, win).channelize(z, cache=False)
    except Exception as e:
        V('raised', 'one-shot channelize raised %s: %s' % (type(e).__name__, e))
        res['n'] += 1
        res['transitions'] += 1        # the call that raised was executed
        res['traces'] += 1
        return res
    res['n'] += 3
    res['transitions'] += 3
    res['traces'] += 3
    want_shape = ((cw - 1) * M, K)
    if not isinstance(Y1, np.ndarray) or Y1.shape != want_shape:
        V('oneshot_shape', 'one-shot call on %d windows returned shape %s, expected %s'
          % (cw, getattr(Y1, 'shape', None), want_shape))
        return res
    err = float(np.abs(Y1.astype(R.CLD) - Yref).max())
    oneshot_ok = np.isfinite(err) and err <= tol
    if not oneshot_ok:
        j = np.unravel_index(int(np.argmax(np.abs(Y1.astype(R.CLD) - Yref))), Y1.shape)
        V('definition_mismatch', '%s input, M=%d P=%d %s: spectrum %d channel %d is %r, FIR+DFT definition gives %r '
          '(max error %.3g, tol %.3g)' % (kind, M, P, win, j[0], j[1], complex(Y1[j]), complex(Yref[j]), err, tol))
    cmp_.same(Y0, Y1, Yref, tol, 'cache_flag', 'one-shot cache=False vs cache=True')
    if Z0.shape == Zref.shape:
        ez = float(np.abs(Z0.astype(R.CLD) - Zref).max())
        if not (np.isfinite(ez) and ez <= tolz) and oneshot_ok:
            V('definition_mismatch', 'probe input: max error %.3g' % ez)
    else:
        V('oneshot_shape', 'probe call returned shape %s expected %s' % (Z0.shape, Zref.shape))
        return res

    def check_history(ops, failure, label, reuse=False, strided=False):
        fb = _new(M, P, win)
        try:
            hist = _run_history(fb, x, z, ops, M, N, buf=np.empty_like(x) if reuse else None, strided=strided)
        except Exception as e:
            V('raised', '%s: %s: %s' % (label, type(e).__name__, e))
            res['n'] += 1
            res['transitions'] += 1
            res['traces'] += 1
            return False
        res['n'] += 1
        res['traces'] += 1
        res['transitions'] += len(ops)
        exp = _expect(ops, M)
        ok = True
        pos, sig = 0, []
        for (op, y, dig), e in zip(hist, exp):
            if op[0] == 'c':
                pos = op[2]
                _, r0, r1 = e
                ok &= cmp_.same(y, Y1[r0:r1], Yref[r0:r1], tol, failure,
                                '%s, call on windows [%d,%d)' % (label, op[1], op[2]))
                sig.append(str(0 if y is None else getattr(y, 'shape', (0,))[0]))
            elif op[0] == 'n':
                ok &= cmp_.same(y, Z0, Zref, tolz, 'nocache_reads_cache', '%s, the cache=False call itself' % label)
                sig.append('n')
            else:
                sig.append(op[0])
            skeys.add(engine.sha([cfgkey, dig, pos, sig[-1] == 'r']))
        outcomes.add('%d|%s' % (M, ','.join(sig)))
        return ok

    # ---- all compositions; buffer reuse; cache=False / stds estimate / reset inserted at every position
    n_comp = 0
    for comp in engine.compositions(cw):
        n_comp += 1
        base = _chunks(comp)
        check_history(base, 'chunk_mismatch', 'stream cut into chunks of %s windows' % (comp,))
        check_history(base, 'strided_input', 'stream cut into chunks of %s windows, every chunk handed over as a non-contiguous view' % (comp,),
                      strided=True)
        if CHECK_BUFFER_REUSE and len(comp) >= 2:
            check_history(base, 'buffer_reuse', 'stream cut into chunks of %s windows, every chunk passed through one '
                          'reused caller buffer' % (comp,), reuse=True)
        # non-trivial: >= 2 chunks and, at some seam, the spectra that need cached samples are not all zero
        if len(comp) >= 2:
            seam_rows = []
            a = 0
            for cj in comp[:-1]:
                a += cj
                seam_rows.extend(range((a - 1) * M, a * M))
            if np.any(Yref[seam_rows] != 0):
                res['nontrivial'].append(engine.sha([cfgkey, comp]))
        for i in range(len(base) + 1):
            check_history(base[:i] + [('n',)] + base[i:], 'nocache_disturbs_cache',
                          'cache=False call on foreign data inserted at position %d of composition %s' % (i, comp))
            check_history(base[:i] + [('e',)] + base[i:], 'stds_estimate_disturbs_cache',
                          'estimate_channelized_stds() inserted at position %d of composition %s' % (i, comp))
            check_history(base[:i] + [('g',)] + base[i:], 'response_helpers_disturb_stream',
                          'get_response()/tile_response() inserted at position %d of composition %s' % (i, comp))
            check_history(base[:i] + [('k',)] + base[i:], 'copy_loses_stream_state',
                          'the object replaced by copy.deepcopy(itself) at position %d of composition %s' % (i, comp))
            check_history(base[:i] + [('p',)] + base[i:], 'copy_loses_stream_state',
                          'the object replaced by its pickle round trip at position %d of composition %s' % (i, comp))
            check_history(base[:i] + [('x',)] + base[i:], 'refused_call_disturbs_stream',
                          'refused calls (None, a string; on a fresh object also a list and half a window of samples) inserted at position %d of composition %s' % (i, comp))
            check_history(base[:i] + [('r',)] + base[i:], 'reset_stream',
                          '_reset_cache() inserted at position %d of composition %s' % (i, comp))
    res['state_keys'] = sorted(skeys)
    res['outcomes'] = sorted(outcomes)
    res['extra'] = {'compositions': n_comp, 'bitwise_equal': cmp_.bitwise, 'tolerance_fallback': cmp_.fallback}
    return res


# ------------------------------------------------------------------ two objects, all interleavings
def _interleavings(na, nb):
    for pos in itertools.combinations(range(na + nb), na):
        s = ['B'] * (na + nb)
        for p in pos:
            s[p] = 'A'
        yield ''.join(s)


def case_pair(c):
    _ITYPE[0] = c.get('itype')
    seed = c['seed']
    viol = []
    seen = set()

    def V(failure, detail, site=SITE):
        if (site, failure) in seen:
            return
        seen.add((site, failure))
        viol.append({'site': site, 'failure': failure, 'detail': detail})
    cmp_ = Cmp(V)
    decoy = _preamble(c['A']['M'], c['A']['P'], c['A']['win'])
    decoy_b = _preamble(c['B']['M'], c['B']['P'], c['B']['win'])
    cfg = {}
    for name, salt in (('A', 11), ('B', 12)):
        M, P, win, kind, cw = c[name]['M'], c[name]['P'], c[name]['win'], c[name]['kind'], c[name]['c']
        x = make_input(kind, cw * M * P, M, P, seed, salt)
        w = R.design_window(M, P, win)
        Yref = R.ref_pfb(x, w, M, P)
        try:
            Y1 = _new(M, P, win).channelize(x, cache=False)
        except Exception as e:
            V('raised', 'one-shot channelize raised %s: %s' % (type(e).__name__, e))
            return {'viol': viol, 'transitions': 1, 'traces': 1}
        if Y1.shape != Yref.shape:
            V('oneshot_shape', 'one-shot returned %s expected %s' % (Y1.shape, Yref.shape))
            return {'viol': viol}
        tol = TOL * _scale(x)
        err = float(np.abs(Y1.astype(R.CLD) - Yref).max())
        if not (np.isfinite(err) and err <= tol):
            V('definition_mismatch', '%s input, M=%d P=%d %s: max error %.3g (tol %.3g)' % (kind, M, P, win, err, tol))
        cfg[name] = dict(M=M, P=P, win=win, N=M * P, x=x, Y1=Y1, Yref=Yref, tol=tol, cw=cw)
    res = {'viol': viol, 'n': 0, 'transitions': 0, 'traces': 0, 'nontrivial': [], 'outcomes': [], 'extra': {}}
    skeys, outcomes = set(), set()
    ckey = engine.sha([c['A'], c['B']])
    n_sched = 0
    for compA in engine.compositions(cfg['A']['cw']):
        for compB in engine.compositions(cfg['B']['cw']):
            ops = {'A': _chunks(compA), 'B': _chunks(compB)}
            for sched in _interleavings(len(compA), len(compB)):
                for lazy in (False, True):
                    n_sched += 1
                    fbs = {'A': _new(cfg['A']['M'], cfg['A']['P'], cfg['A']['win'])}
                    if not lazy:
                        fbs['B'] = _new(cfg['B']['M'], cfg['B']['P'], cfg['B']['win'])
                    it = {'A': iter(ops['A']), 'B': iter(ops['B'])}
                    fresh = {'A': True, 'B': True}
                    sig = []
                    label = 'objects A(M=%d,P=%d) B(M=%d,P=%d), compositions %s/%s, schedule %s, B built %s' % (
                        cfg['A']['M'], cfg['A']['P'], cfg['B']['M'], cfg['B']['P'], compA, compB, sched,
                        'lazily' if lazy else 'up-front')
                    try:
                        for who in sched:
                            g = cfg[who]
                            if who not in fbs:
                                fbs[who] = _new(g['M'], g['P'], g['win'])
                            op = next(it[who])
                            y = fbs[who].channelize(g['x'][op[1] * g['N']:op[2] * g['N']], cache=True)
                            r0 = op[1] * g['M'] if fresh[who] else (op[1] - 1) * g['M']
                            r1 = (op[2] - 1) * g['M']
                            fresh[who] = False
                            cmp_.same(y, g['Y1'][r0:r1], g['Yref'][r0:r1], g['tol'], 'interleave_crosstalk',
                                      '%s, object %s call on windows [%d,%d)' % (label, who, op[1], op[2]))
                            sig.append('%s%d' % (who, getattr(y, 'shape', (0,))[0]))
                            res['transitions'] += 1
                            skeys.add(engine.sha([ckey, who, _digest(fbs[who].cache), op[2]]))
                    except Exception as e:
                        V('raised', '%s: %s: %s' % (label, type(e).__name__, e))
                    res['traces'] += 1
                    res['n'] += 1
                    outcomes.add(','.join(sig))
            if len(compA) >= 2 and len(compB) >= 2:
                res['nontrivial'].append(engine.sha([ckey, compA, compB]))
    res['state_keys'] = sorted(skeys)
    res['outcomes'] = sorted(outcomes)[:64]
    res['extra'] = {'pair_schedules': n_sched, 'bitwise_equal': cmp_.bitwise, 'tolerance_fallback': cmp_.fallback}
    return res


# ------------------------------------------------------------------ linearity, complex split, get_pfb_voltages
def case_algebra(c):
    _ITYPE[0] = c.get('itype')
    M, P, win, cw, seed = c['M'], c['P'], c['win'], c['c'], c['seed']
    N, K = M * P, P // 2
    pf = _pf()
    viol = []

    def V(failure, detail, site=SITE):
        viol.append({'site': site, 'failure': failure, 'detail': detail})
    cmp_ = Cmp(V)
    decoy = _preamble(M, P, win)
    w = R.design_window(M, P, win)
    g = R.gain(w, P)

    def ch(v):
        return _new(M, P, win).channelize(v, cache=False)
    n_eval = 0
    try:
        # linearity, real and complex
        for kind, pairs in (('noise_tone', AB_REAL), ('int_ramp', AB_REAL), ('complex', AB_CPLX)):
            x = make_input(kind, cw * N, M, P, seed, 21)
            y = make_input('noise_tone' if kind != 'complex' else 'complex', cw * N, M, P, seed, 22)
            X, Y = ch(x), ch(y)
            for a, b in pairs:
                lhs = ch(a * x + b * y)
                rhs = a * X + b * Y
                sc = abs(a) * _scale(x) + abs(b) * _scale(y)
                n_eval += 1
                if lhs.shape != rhs.shape:
                    V('linearity', 'shape %s vs %s' % (lhs.shape, rhs.shape))
                    continue
                err = float(np.abs(lhs - rhs).max())
                if not (np.isfinite(err) and err <= TOL * sc):
                    V('linearity', '%s input: channelize(a*x+b*y) differs from a*channelize(x)+b*channelize(y) by %.3g '
                      '(tol %.3g) for a=%r b=%r' % (kind, err, TOL * sc, a, b))
        # complex = Re + i Im
        for kind in ('complex', 'complex64'):
            xc = make_input(kind, cw * N, M, P, seed, 23)
            Xc = ch(xc)
            Xs = ch(np.ascontiguousarray(xc.real)) + 1j * ch(np.ascontiguousarray(xc.imag))
            ref = R.ref_pfb(xc, w, M, P)
            tol = TOL * _scale(xc)
            n_eval += 1
            if Xc.shape != Xs.shape:
                V('complex_split', 'shape %s vs %s' % (Xc.shape, Xs.shape))
            else:
                err = float(np.abs(Xc - Xs).max())
                if not (np.isfinite(err) and err <= tol):
                    j = np.unravel_index(int(np.argmax(np.abs(Xc - Xs))), Xc.shape)
                    V('complex_split', '%s input M=%d P=%d: channelize(x) differs from channelize(Re x)+i*channelize(Im x) '
                      'by %.3g (tol %.3g) at spectrum %d chan %d: %r vs %r; error against the definition %.3g'
                      % (kind, M, P, err, tol, j[0], j[1], complex(Xc[j]), complex(Xs[j]),
                         float(np.abs(Xc.astype(R.CLD) - ref).max())))
            # the same with the natural (non-contiguous) views x.real / x.imag, and with other strided views of a
            # larger buffer: the result must not depend on the memory layout of the input
            try:
                Xv = ch(xc.real) + 1j * ch(xc.imag)
                big = np.zeros(2 * len(xc), dtype=xc.dtype)
                big[::2] = xc
                Xstr = ch(big[::2])
                cols = np.stack([xc.real, xc.imag], axis=1)          # (samples, 2): column views
                Xcol = ch(cols[:, 0]) + 1j * ch(cols[:, 1])
                n_eval += 3
                for name_, Xalt in (('x.real / x.imag views', Xv), ('a [::2] strided view', Xstr), ('column views of a (n, 2) array', Xcol)):
                    if Xalt.shape != Xc.shape or not (float(np.abs(Xalt - Xc).max()) <= tol):
                        V('noncontiguous_input', '%s input M=%d P=%d: channelising %s differs from channelising the contiguous array by %.3g (tol %.3g)'
                          % (kind, M, P, name_, float(np.abs(Xalt - Xc).max()) if Xalt.shape == Xc.shape else float('nan'), tol))
            except Exception as e:
                V('noncontiguous_input', '%s input: a non-contiguous view was rejected: %s: %s' % (kind, type(e).__name__, e))
        # get_pfb_voltages lower half
        # (real and complex input; num_taps / num_branches also as numpy fixed-width integers whenever they fit)
        for kind in ('noise_tone', 'int_ramp', 'complex'):
            x = make_input(kind, cw * N, M, P, seed, 24)
            X = ch(x)
            ref = R.ref_pfb(x, w, M, P)
            for it in (None, 'uint8', 'int16', 'uint16'):
                if it is not None and (kind == 'int_ramp' or max(M, P) > np.iinfo(it).max):
                    continue
                tM, tP = (M, P) if it is None else (np.dtype(it).type(M), np.dtype(it).type(P))
                tag = '' if it is None else ' [num_taps, num_branches as %s]' % it
                try:
                    Vv = pf.get_pfb_voltages(x, tM, tP, R.window_arg(win))
                except Exception as e:
                    V('raised', 'get_pfb_voltages on %s input%s: %s: %s' % (kind, tag, type(e).__name__, e), site='get_pfb_voltages')
                    continue
                n_eval += 1
                if getattr(Vv, 'ndim', 0) != 2 or Vv.shape[0] != X.shape[0] or Vv.shape[1] < K:
                    V('lower_half_shape', 'get_pfb_voltages%s returned shape %s, channelize %s'
                      % (tag, getattr(Vv, 'shape', None), X.shape), site='get_pfb_voltages')
                else:
                    cmp_.same(np.ascontiguousarray(Vv[:, :K]), X, ref, TOL * _scale(x), 'lower_half',
                              'get_pfb_voltages(x)[:, :P/2]%s vs channelize(x), %s input' % (tag, kind), site='get_pfb_voltages')
                if it is not None:
                    try:
                        wt = np.asarray(pf.get_pfb_window(tM, tP, R.window_arg(win)))
                        if wt.shape != (M * P,) or not np.array_equal(wt, np.asarray(pf.get_pfb_window(M, P, R.window_arg(win)))):
                            V('window_typed', 'get_pfb_window(%s(%d), %s(%d)) has shape %s / differs from the window for plain integers'
                              % (it, M, it, P, wt.shape), site='get_pfb_window')
                    except Exception as e:
                        V('raised', 'get_pfb_window%s: %s: %s' % (tag, type(e).__name__, e), site='get_pfb_window')
    except Exception as e:
        V('raised', '%s: %s' % (type(e).__name__, e))
    return {'viol': viol, 'n': n_eval, 'traces': n_eval, 'transitions': n_eval,
            'nontrivial': ['alg' + engine.sha([M, P, win, cw])] if g > 0 and cw >= 2 else [],
            'outcomes': ['alg/%d/%d' % (M, P)],
            'extra': {'voltages_bitwise_equal': cmp_.bitwise, 'voltages_tolerance_fallback': cmp_.fallback}}


# ------------------------------------------------------------------ box
def _configs(tier):
    br = BRANCHES_T if tier == 'thorough' else BRANCHES_Q
    wins = WINDOWS_T if tier == 'thorough' else WINDOWS_Q
    out, skipped = [], []
    for M in TAPS:
        for P in br:
            for win in wins:
                if R.window_is_degenerate(M, P, win):
                    skipped.append([M, P, win])
                    continue
                out.append((M, P, win))
    return out, skipped


def run(ctx):
    thorough = ctx.tier == 'thorough'
    seed = ctx.seed
    cfgs, skipped = _configs(ctx.tier)
    big = [b for b in (BIG_T if thorough else BIG_Q)]
    cs = list(range(2, 8)) if thorough else list(range(2, 6))
    kinds = KINDS_T if thorough else KINDS

    ctx.pmap(case_window, [dict(M=M, P=P, win=win) for (M, P, win) in cfgs + big])

    quick_box = set((M, P, str(win)) for M in TAPS for P in BRANCHES_Q for win in WINDOWS_Q)
    stream = []
    for cw in cs:                                   # shortest streams first: the first counterexample is the smallest
        for (M, P, win) in cfgs:
            if cw >= LONG_C and (M, P, str(win)) not in quick_box:
                continue                            # streams of >= LONG_C windows: the quick box of configurations only
            for kind in kinds:
                stream.append(dict(M=M, P=P, win=win, kind=kind, c=cw, seed=seed))
            if thorough and cw <= ALLPOS_C:
                positions = range(M * P)
            else:
                positions = sorted(set([0, P + 1 if M > 1 else P - 1, M * P - 1]))
            for pos in positions:
                stream.append(dict(M=M, P=P, win=win, kind='impulse', pos=pos, c=cw, seed=seed))
    for (M, P, win) in big:
        for cw in ((2, 3, 4) if P < 1024 else (2, 3)):
            for kind in ('noise_tone', 'complex', 'impulse'):
                stream.append(dict(M=M, P=P, win=win, kind=kind, pos=P + 1, c=cw, seed=seed))
    # num_taps / num_branches handed over as numpy fixed-width integers: sub-box (noise+tone input, 3 windows)
    stream += [dict(sc, itype=it) for sc in stream if sc['kind'] == 'noise_tone' and sc['c'] == 3 and sc['win'] == cfgs[0][2]
               for it in ('uint8', 'int8', 'uint16', 'int32', 'int64')]
    ctx.pmap(case_stream, stream, chunk=8)

    # two objects: every unordered pair of (M, P) (incl. the same (M, P)); windows and data differ between the objects
    mps = [(M, P) for M in TAPS for P in BRANCHES_Q if not R.window_is_degenerate(M, P, 'hann')]
    pairs = []
    cpairs = [(3, 3), (3, 4), (4, 3), (4, 4)] if thorough else [(3, 3)]
    for ca, cb in cpairs:
        kk = [('noise_tone', 'noise_tone')]
        if thorough and (ca, cb) != (4, 4):
            kk.append(('int_ramp', 'complex'))
        for i, a in enumerate(mps):
            for b in mps[i:]:
                for kinds_ab in kk:
                    pairs.append(dict(A=dict(M=a[0], P=a[1], win='hamming', kind=kinds_ab[0], c=ca),
                                      B=dict(M=b[0], P=b[1], win='hann', kind=kinds_ab[1], c=cb), seed=seed))
    ctx.pmap(case_pair, pairs, chunk=2)

    alg = [dict(M=M, P=P, win=win, c=cw, seed=seed) for (M, P, win) in cfgs + big[:2]
           for cw in ((2, 3, 5) if thorough else (3,))]
    ctx.pmap(case_algebra, alg)

    return ctx.finish(
        rule='every (num_taps, num_branches, window) of the box x input kind x stream length c: one-shot call vs the '
             'long-double FIR+DFT definition, then ALL 2^(c-1) compositions of the stream into chunks on a fresh '
             'object, each also with a cache=False call / estimate_channelized_stds() / _reset_cache() inserted at every position, and refed through one reused caller buffer; two objects '
             'through ALL interleavings of all pairs of compositions; linearity, complex split, get_pfb_voltages. '
             'A composition is non-trivial when it has >= 2 chunks and the spectra that need cached samples at a seam '
             'are not all zero (pairs: both objects stream in >= 2 chunks); distinct = distinct (configuration, '
             'composition).  State = (configuration, digest of fb.cache, windows consumed, just-reset flag) read from '
             'the real object after every transition; transition = one channelize / _reset_cache call; trace = one '
             'complete history on a fresh object.',
        assumptions=['num_branches even (lower half = k < P/2); chunk sizes are multiples of num_taps*num_branches',
                     'window designs whose unnormalised DC gain is 0 (2-point hann/blackman/bartlett) are outside the '
                     'property and skipped: %s' % (skipped,),
                     'one-shot vs definition: |error| <= %g * max|x|; implementation-vs-implementation identities are '
                     'bit for bit with that tolerance against the definition as fallback (counter tolerance_fallback)' % TOL,
                     'a call on W whole windows returns (W-1)*num_taps spectra (the last window is the streaming tail)',
                     'chunks are slices of the stream array, or (buffer_reuse histories) one caller buffer refilled '
                     'before each call; the caller never writes to a chunk DURING a call'],
        coverage_extra={'bounds': {'num_taps': TAPS, 'num_branches': BRANCHES_T if thorough else BRANCHES_Q,
                                   'windows': WINDOWS_T if thorough else WINDOWS_Q, 'big_configs': big,
                                   'stream_windows': cs, 'kinds': kinds + ['impulse'],
                                   'impulse_positions': ('all M*P for c<=%d, else 3' % ALLPOS_C) if thorough else 3,
                                   'long_streams': 'c>=%d only for the quick box of (M,P,window)' % LONG_C,
                                   'pair_stream_windows': cpairs, 'pair_mps': len(mps)},
                        'alphabet': ['channelize(chunk, cache=True)', 'channelize(chunk via reused buffer, cache=True)', 'channelize(foreign, cache=False)', 'estimate_channelized_stds()',
                                     '_reset_cache()', 'construct second object']})
