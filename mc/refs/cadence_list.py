"""
ref_list -- reference model for C18: a plain Python list of pool names plus a label dict.

Written from the property statement, the Python list documentation and docs/source/cadences.rst --
not from setigen/cadence.py.  The model is *not* deterministic where the property is silent; for every
operation `predict` returns the list of ALLOWED outcomes (first = the primary one) and the check accepts
the implementation if what it did is one of them ("adoption": the model then continues from the observed
state, which by construction satisfies the constraints).

State (a dict):  ordered: bool, order: str|None, lst: [pool names], labels: {frame name: letter|None}
                 (labels of ALL pool frames, also of frames that are not / no longer members -- labels are
                 sticky, so a removed frame's label decides what happens when it is inserted again).

What is decided, and what is left open (DESIGN.md section 3 rule 8):
  * list content and order: exactly what `list` does with the same operation and the same index
    (negative indices count from the end, insert clamps, item get/set/del/pop raise IndexError out of range);
  * guard: an argument that is not a Frame, or a Frame whose (df, dt, fchans, fmin) class differs from
    element 0's, makes the operation raise (any exception type) and is not added;
    extend([.., offender, ..]) may either keep the elements before the offender (sequence-of-appends
    semantics) or nothing (validate-first semantics); the offender and later elements are never in;
  * labels: an unlabelled frame that ends up at position p < len(order) gets order[p]; a labelled frame
    keeps its label; non-members and rejected arguments are never (re)labelled;
  * UNSPECIFIED: an unlabelled frame whose position p >= len(order) has no label to receive.  The operation
    may raise (then NOTHING may have changed) or be carried out like a list would (then that frame's label is
    not constrained).  set_order(o) with len(o) < len(cadence) is unspecified in the same way (list content
    must not change; member labels and the order attribute are not constrained);
  * one object inserted at several positions by ONE operation (constructor / extend / set_order with
    duplicates) may receive the letter of any of those positions.
"""

ANY = '*'          # label constraint: anything

COMPAT_CLASS = {'a': 0, 'b': 0, 'c': 0,      # c is a DESCENDING frame with the same fmin -> compatible
                'd': 1,                      # df differs
                'e': 2,                      # dt differs
                'f': 3,                      # fchans differs
                'g': 4,                      # fmin differs (fch1 shifted)
                'n5': None, 'nN': None, 'nA': None}   # non-frames: 5, None, an ndarray
FRAMES = [k for k in COMPAT_CLASS if COMPAT_CLASS[k] is not None]


def is_frame(x):
    return COMPAT_CLASS[x] is not None


def guard_ok(lst, x):
    """The property's guard: a Frame, and consistent with the cadence (= with its element 0) if non-empty."""
    if not is_frame(x):
        return False
    if lst and COMPAT_CLASS[x] != COMPAT_CLASS[lst[0]]:
        return False
    return True


def insert_pos(i, n):
    """Position at which list.insert(i, x) puts x in a list of length n."""
    if i < 0:
        i += n
        if i < 0:
            i = 0
    if i > n:
        i = n
    return i


def item_pos(i, n):
    """Normalised position for lst[i] / lst[i] = x / del lst[i]; None if the list raises IndexError."""
    p = i + n if i < 0 else i
    if 0 <= p < n:
        return p
    return None


class Outcome(object):
    """One allowed result of an operation.
    exc: None (must not raise) | 'guard' (must raise, any type) | 'IndexError' | 'unspec' (must raise, any type)
    lst: resulting list;  lab: {name: letter|None|frozenset(letters)|ANY};  order: str|None|(tuple of allowed)
    ret: name of the returned object (pop) or None."""
    def __init__(self, exc, lst, lab, order, ret=None, note=''):
        self.exc, self.lst, self.lab, self.order, self.ret, self.note = exc, list(lst), dict(lab), order, ret, note


def new_state(ordered, order=None):
    return {'ordered': bool(ordered), 'order': order if ordered else None, 'lst': [],
            'labels': {k: None for k in FRAMES}}


def _add_seq(st, values, at_end=True):
    """Sequence-of-appends walk used by the constructor and extend.  Returns the allowed outcomes."""
    outs = []
    lst = list(st['lst'])
    lab = dict(st['labels'])
    order = st['order']
    positions = {}          # frames labelled by THIS operation -> positions they were added at
    unspec_seen = False
    for j, x in enumerate(values):
        if not guard_ok(lst, x):
            # must raise; prefix-in or atomic
            outs.append(Outcome('guard', lst, _cands(lab, positions, order), order, note='offender %d' % j))
            outs.append(Outcome('guard', st['lst'], st['labels'], order, note='offender %d atomic' % j))
            return outs
        p = len(lst)
        if st['ordered'] and lab[x] is None or (st['ordered'] and x in positions):
            if x in positions:
                positions[x].append(p)
            elif p < len(order):
                positions[x] = [p]
                lab[x] = order[p]
            else:
                # nothing to label it with: may stop here (atomically for this element) ...
                o = Outcome('unspec', lst, _cands(lab, positions, order), order, note='no label for position %d' % p)
                outs.append(o)
                if lst != st['lst']:
                    outs.append(Outcome('unspec', st['lst'], st['labels'], order, note='atomic'))
                # ... or go on with an unconstrained label
                positions[x] = [p]
                lab[x] = ANY
                unspec_seen = True
        lst.append(x)
    primary = Outcome(None, lst, _cands(lab, positions, order), order)
    if unspec_seen:
        outs.append(primary)        # raising variants first: they are what "no label" most plausibly means
    else:
        outs.insert(0, primary)
    return outs


def _cands(lab, positions, order):
    """Label constraints: frames labelled by this op may carry the letter of any position they were put at."""
    out = dict(lab)
    for x, ps in positions.items():
        if out[x] == ANY:
            continue
        if any(p >= len(order) for p in ps):
            out[x] = ANY
            continue
        c = frozenset(order[p] for p in ps)
        out[x] = c if len(c) > 1 else order[ps[0]]
    return out


def _place(st, x, p, lst_after):
    """Outcomes for a single frame x (guard already passed) ending at position p with list lst_after."""
    lab = dict(st['labels'])
    order = st['order']
    if not st['ordered'] or lab[x] is not None:
        return [Outcome(None, lst_after, lab, order)]
    if p < len(order):
        lab[x] = order[p]
        return [Outcome(None, lst_after, lab, order)]
    lab2 = dict(lab)
    lab2[x] = ANY
    return [Outcome('unspec', st['lst'], st['labels'], order, note='no label for position %d' % p),
            Outcome(None, lst_after, lab2, order, note='no label for position %d' % p)]


def predict(st, op):
    """Allowed outcomes of op in state st.  op = [name, args...] (JSON-able)."""
    k = op[0]
    lst, lab, order = st['lst'], st['labels'], st['order']
    n = len(lst)
    same = lambda exc, note='': [Outcome(exc, lst, lab, order, note=note)]
    if k == 'new':
        return _add_seq(st, op[1] or [])
    if k == 'extend':
        return _add_seq(st, op[1])
    if k == 'append':
        x = op[1]
        if not guard_ok(lst, x):
            return same('guard')
        return _place(st, x, n, lst + [x])
    if k == 'insert':
        i, x = op[1], op[2]
        if not guard_ok(lst, x):
            return same('guard')
        p = insert_pos(i, n)
        return _place(st, x, p, lst[:p] + [x] + lst[p:])
    if k == 'set':
        i, x = op[1], op[2]
        p = item_pos(i, n)
        g = guard_ok(lst, x)
        if not g and p is None:
            # both reasons to raise: either is fine
            return same('guard') + same('IndexError')
        if not g:
            return same('guard')
        if p is None:
            return same('IndexError')
        after = list(lst)
        after[p] = x
        return _place(st, x, p, after)
    if k == 'del':
        p = item_pos(op[1], n)
        if p is None:
            return same('IndexError')
        return [Outcome(None, lst[:p] + lst[p + 1:], lab, order)]
    if k == 'delslice':
        after = list(lst)
        del after[slice(op[1], op[2], op[3])]
        return [Outcome(None, after, lab, order)]
    if k == 'pop':
        if n == 0:
            return same('IndexError')
        return [Outcome(None, lst[:-1], lab, order, ret=lst[-1])]
    if k == 'popi':
        p = item_pos(op[1], n)
        if p is None:
            return same('IndexError')
        return [Outcome(None, lst[:p] + lst[p + 1:], lab, order, ret=lst[p])]
    if k == 'set_order':
        o = op[1]
        if len(o) >= n:
            lab2 = dict(lab)
            for x in set(lst):
                c = frozenset(o[p] for p in range(n) if lst[p] == x)
                lab2[x] = c if len(c) > 1 else next(iter(c))
            return [Outcome(None, lst, lab2, o)]
        lab2 = dict(lab)
        for x in set(lst):
            lab2[x] = ANY
        return [Outcome('unspec', lst, lab2, (order, o), note='order shorter than cadence'),
                Outcome(None, lst, lab2, (order, o), note='order shorter than cadence')]
    raise ValueError('unknown op %r' % (op,))


def label_fits(constraint, observed):
    if constraint == ANY:
        return True
    if isinstance(constraint, frozenset):
        return observed in constraint
    return observed == constraint


def fits(out, exc_name, lst, labels, order, ret=None):
    """Does the observed result satisfy this allowed outcome?  Returns '' or the first reason it does not."""
    if out.exc is None and exc_name is not None:
        return 'raised'
    if out.exc is not None and exc_name is None:
        return 'no_raise'
    if out.exc == 'IndexError' and exc_name != 'IndexError':
        return 'exc_type'
    if list(lst) != out.lst:
        return 'list'
    if out.ret is not None and ret != out.ret:
        return 'ret'
    for x, c in out.lab.items():
        if not label_fits(c, labels.get(x)):
            return 'label:' + x
    if isinstance(out.order, tuple):
        if order not in out.order:
            return 'order'
    elif order != out.order:
        return 'order'
    return ''


def by_label(st, letter):
    return [x for x in st['lst'] if st['labels'][x] == letter]
