#!/usr/bin/env python3
"""Prints a markdown table of the stored seeded changes (from seeded/*/meta.json and notes.md)."""
import os, json, re
HERE = os.path.dirname(os.path.dirname(os.path.abspath(__file__)))
rows = []
for name in sorted(os.listdir(os.path.join(HERE, 'seeded'))):
    d = os.path.join(HERE, 'seeded', name)
    mp = os.path.join(d, 'meta.json')
    if not os.path.isfile(mp):
        continue
    m = json.load(open(mp))
    patch = open(os.path.join(d, 'patch.diff')).read()
    files = sorted(set(os.path.basename(f) for f in re.findall(r'^\+\+\+ b/(\S+)', patch, flags=re.M)))
    verd = ', '.join('%s %s' % (c, v['verdict']) for c, v in sorted(m.get('checks', {}).items()))
    fails = '; '.join(sorted({re.sub(r' cases=.*', '', dd.replace('violation detail: ', '')) for c, v in m.get('checks', {}).items() for dd in v.get('details', [])[:2]}))[:160]
    rows.append('| %s | %s | %s | %s |' % (name, ', '.join(files), verd, fails))
print('| change | touches | verdict (quick tier) | reported as |\n|---|---|---|---|')
print('\n'.join(rows))
