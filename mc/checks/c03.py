"""
C03 -- Save/load through .fil/.h5 preserves data and axis registration.

E-HIST: breadth-first exploration of operation histories on the REAL Frame objects, from synthetic
roots in both orientations.  A state is the operation list reaching it; it is rebuilt from scratch
(fresh objects, replay) for every transition.  At every history the frame is saved in BOTH container
formats and the files are compared with
  (i)   the Frame re-loaded from the file,
  (ii)  an independent parser (mc.refs.sigproc: SIGPROC parser / direct h5py reader),
  (iii) blimpy.Waterfall(path).grab_data(),
  (iv)  the stand-alone helpers get_fs / get_ts / min_freq / max_freq / get_data.
The oracle is "what the frame being saved says" (its own shape, data, fs, df, dt, t_start,
orientation, source_name).  E-PROD: the helpers and the load path are additionally run on a complete
box of headers written by the independent writer.

Oracle rules (DESIGN.md section 3): 3 (grids in ULPs against exact rationals), 5, 7, 8.
"""
import os, pickle
from fractions import Fraction as Fr
import numpy as np

from mc import engine
from mc.refs.axes import F, ulp
from mc.refs import sigproc as S

PROPERTY = 'C03'
LEVEL = 'model_checking'

K_F = 4        # ulps (of the largest |frequency| on the axis) between two descriptions of a frequency
K_S = 2        # ulps for scalars that are converted at most once (df, dt, header fields)
K_T = 4        # ulps of the MJD double for start times

T0 = 1600000000.5          # unix seconds
ROOT_SRC = 'ROOTSRC'

GEOMS = {
    'unit': dict(df=1.0, dt=1.0, fch1=100.0),
    'bl_hires': dict(df=2.7939677238464355, dt=18.253611008, fch1=6e9),
    'ghz2': dict(df=2.0, dt=0.5, fch1=1e9),
}
SIZES = [(3, 16), (4, 5)]      # (tchans, fchans); DESIGN had (2, 5), but blimpy cannot open .h5 files with fewer
                               # than 3 integrations, which would leave half of the .h5 nodes to the h5py reader only

OPS = ['save_fil>load', 'save_h5>load', 'get_waterfall', 'copy', 'slice_head', 'slice_tail', 'slice_mid',
       'dedrift_pos', 'dedrift_neg', 'from_wf_obj', 'pickle']

# helper box (files written by the independent writer)
BOX_FOFF = [1.0, 2.7939677238464355e-6, 0.1, 1.3969838619232178e-6]
BOX_FCH1 = [100.0, 1420.4, 6000.0, 8400.123]
BOX_TSAMP_Q = [18.253611008, 1.0, 0.1]
BOX_TSAMP_T = [18.253611008, 1.0, 0.1, 1.4316557653333333, 1e-3, 0.3]
BOX_NCHANS = list(range(1, 41))
BOX_NINTS = [1, 2, 3, 4, 5]


class _Clock(object):
    """Deterministic stand-in for the `time` module inside setigen.frame (rule 7)."""
    def __init__(self):
        self.n = 0

    def time(self):
        self.n += 1
        return 1700000000.0 + 16.0 * self.n


def _own_clock():
    import setigen.frame as sf
    sf.time = _Clock()


# --------------------------------------------------------------------------------------- tolerances
def _close(a, exact, scale, k):
    return abs(F(a) - exact) <= Fr(k) * F(ulp(scale))


def _f32_equal(got, want):
    """got (any float dtype) equals `want` to float32 precision (1 float32 ulp of |want|)."""
    got = np.asarray(got, dtype=np.float64)
    w32 = np.asarray(want).astype(np.float32)
    tol = np.spacing(np.abs(w32)).astype(np.float64)
    return np.abs(got - w32.astype(np.float64)) <= tol


# --------------------------------------------------------------------------------------- real objects
def _root(c):
    import setigen as stg
    g = GEOMS[c['geom']]
    m, n = c['tchans'], c['fchans']
    rng = np.random.default_rng([c['seed'], m, n])
    data = 10.0 + np.arange(m * n, dtype=float).reshape(m, n) + rng.uniform(0, 0.25, size=(m, n))
    if c.get('root') in ('fil8', 'fil16'):
        # (sub-box) the root is loaded from an 8- / 16-bit filterbank file written by the independent writer, and a fractional
        # offset is then added to its (floating-point) data: what the frame holds is what a save must write
        nb = 8 if c['root'] == 'fil8' else 16
        fch1_mhz = g['fch1'] * 1e-6 if c['asc'] else (g['fch1']) * 1e-6
        hdr = S.default_header(n, fch1_mhz, (g['df'] if c['asc'] else -g['df']) * 1e-6, g['dt'], tstart=59105.5, source_name=ROOT_SRC, nbits=nb)
        p = _tmp('.fil')
        ints = np.floor(data).astype(np.int64) % 100
        S.write_fil(p, hdr, ints if c['asc'] else ints[:, ::-1])
        try:
            fr = stg.Frame(waterfall=p)
            fr.data = np.array(fr.data, dtype=float) + 0.25
        finally:
            _rm(p)
        return fr
    if c.get('root') == 'wf_tsel':
        # (sub-box) a frame built from a caller-opened Waterfall with a TIME selection (rows 1..m of a file with m + 2 rows):
        # whatever start time such a frame has, the file it saves carries that start time
        from blimpy import Waterfall
        big = stg.Frame(fchans=n, tchans=m + 2, df=g['df'], dt=g['dt'], fch1=g['fch1'], ascending=c['asc'],
                        data=np.vstack([data[:1], data, data[-1:]]), t_start=T0, source_name=ROOT_SRC)
        p = _tmp('.fil')
        try:
            big.save_fil(p)
            fr = stg.Frame(waterfall=Waterfall(p, t_start=1, t_stop=m + 1))
            fr.data = np.array(fr.data)
            # the selection starts one integration into the file: that is the frame's start time
            fr._c03_t0_expected = (big.t_start + 1 * float(g['dt']), float(g['dt']))
        finally:
            _rm(p)
        return fr
    if c.get('root') == 'from_data_named':
        # (sub-box) the documented direct route with an existing Waterfall AND a source name of its own
        donor = stg.Frame(fchans=n, tchans=m, df=g['df'], dt=g['dt'], fch1=g['fch1'], ascending=c['asc'],
                          data=data, t_start=T0, source_name='DONORSRC')
        return stg.Frame.from_data(g['df'], g['dt'], g['fch1'], c['asc'], data + 1.0, waterfall=donor.get_waterfall(),
                                   t_start=T0, source_name=ROOT_SRC)
    return stg.Frame(fchans=n, tchans=m, df=g['df'], dt=g['dt'], fch1=g['fch1'], ascending=c['asc'],
                     data=data, t_start=T0, source_name=ROOT_SRC)


class NotApplicable(Exception):
    pass


_COUNTER = [0]


def _tmp(ext):
    _COUNTER[0] += 1
    return os.path.join(engine.workdir(), 'c03_%d%s' % (_COUNTER[0], ext))


def _rm(p):
    try:
        os.remove(p)
    except OSError:
        pass


def _unloadable_h5(fr):
    # blimpy's HDF5 reader probes data[2][0][0] and data[0][0][2]: files with fewer than three
    # integrations or channels cannot be opened by it at all (third-party limit, not setigen's).
    return fr.tchans < 3 or fr.fchans < 3


def _apply(fr, op):
    """Apply one operation of the alphabet to the real frame; returns the new current frame."""
    import setigen as stg
    n, m = fr.fchans, fr.tchans
    if op in ('save_fil>load', 'save_h5>load'):
        h5 = op.startswith('save_h5')
        if h5 and _unloadable_h5(fr):
            raise NotApplicable()
        p = _tmp('.h5' if h5 else '.fil')
        try:
            _decoy_materialised()
            (fr.save_h5 if h5 else fr.save_fil)(p)
            new = stg.Frame(waterfall=p)
            new.data = np.array(new.data)      # detach from the reader before the file is removed
            if h5:
                try:
                    new.waterfall.container.h5.close()
                except Exception:
                    pass
        finally:
            _rm(p)
        return new
    if op == 'get_waterfall':
        fr.get_waterfall()
        return fr
    if op == 'copy':
        return fr.copy()
    if op.startswith('slice_'):
        if op == 'slice_head':
            l, r = 1, n
        elif op == 'slice_tail':
            l, r = 0, n - 1
        else:
            l = n // 3
            r = l + max(1, n // 2)
            if (l, r) in ((1, n), (0, n - 1)):
                raise NotApplicable()
        if r - l < 1 or r > n:
            raise NotApplicable()
        return fr.get_slice(l, r)
    if op.startswith('dedrift_'):
        k = 2 if n >= 4 else 1
        if n < 2:
            raise NotApplicable()
        dr = k * fr.df / (m * fr.dt)
        if int(np.round(abs(dr) * m * fr.dt / fr.df)) >= n:
            raise NotApplicable()
        return stg.dedrift(fr, dr if op == 'dedrift_pos' else -dr)
    if op == 'from_wf_obj':
        return stg.Frame(waterfall=fr.get_waterfall())
    if op == 'pickle':
        return pickle.loads(pickle.dumps(fr))
    raise ValueError(op)


def _state_key(fr):
    """Canonical key of every property-relevant observable of the REAL object."""
    wf = fr.waterfall
    k = {'shape': list(fr.shape), 'dshape': list(np.shape(fr.data)), 'asc': bool(fr.ascending),
         'df': fr.df, 'dt': fr.dt, 'fch1': fr.fch1, 't_start': fr.t_start, 'src': fr.source_name,
         'data': engine.sha(np.asarray(fr.data, dtype=np.float64).tobytes().hex()),
         'loaded': fr.header is not None, 'wf': wf is not None}
    if wf is not None:
        c = wf.container
        k['wf_hdr'] = {a: repr(wf.header.get(a)) for a in ('nchans', 'fch1', 'foff', 'tsamp', 'tstart',
                                                           'source_name', 'nbits', 'nifs')}
        k['cont'] = [type(c).__name__] + [repr(getattr(c, a, None)) for a in
                                          ('selection_shape', 'f_start', 'f_stop', 'f_begin', 'f_end', 't_start',
                                           't_stop', 'n_channels_in_file', 'n_ints_in_file', 'file_shape',
                                           'chan_start_idx', 'chan_stop_idx')]
        k['wfa'] = [repr(getattr(wf, a, None)) for a in ('selection_shape', 'file_shape', 'n_channels_in_file',
                                                         'n_ints_in_file')]
    return engine.sha(k)


def _class_key(fr):
    wf = fr.waterfall
    stale = None
    if wf is not None:
        stale = tuple(wf.container.selection_shape) != (fr.tchans, 1, fr.fchans)
    return '%s/%s/wf=%s/loaded=%s/stale=%s' % (tuple(fr.shape), 'asc' if fr.ascending else 'desc', wf is not None,
                                               fr.header is not None, stale)


# --------------------------------------------------------------------------------------- the oracle
class Snap(object):
    """What the frame being saved says (taken before the save)."""
    def __init__(self, fr):
        self.tchans, self.fchans = int(fr.tchans), int(fr.fchans)
        self.shape = tuple(fr.shape)
        self.data = np.array(fr.data, dtype=np.float64)
        self.fs = np.array(fr.fs, dtype=np.float64)
        self.ts = np.array(fr.ts, dtype=np.float64)
        self.df, self.dt, self.fch1 = float(fr.df), float(fr.dt), float(fr.fch1)
        self.asc = bool(fr.ascending)
        self.t_start = float(fr.t_start)
        self.src = fr.source_name
        self.fscale = max(abs(float(self.fs[0])), abs(float(self.fs[-1])), self.df) if len(self.fs) else 1.0


def _check_parsed(snap, hdr, pay, V, fmt):
    """(ii) independent parser vs the frame.  Returns True when the file is structurally as expected."""
    m, n = snap.tchans, snap.fchans
    site = 'Frame.save_%s' % fmt
    if hdr.get('nchans') != n:
        V(site, 'header_nchans', 'header nchans=%r but the frame has fchans=%d' % (hdr.get('nchans'), n))
    if pay.shape != (m, n):
        V(site, 'payload_shape', 'payload holds %s (nints, nchans), frame shape is %s' % (pay.shape, (m, n)))
        return False
    if snap.data.shape != (m, n) or snap.fs.shape != (n,):
        V(site, 'frame_inconsistent', 'frame says shape %s but data %s / fs %s' % ((m, n), snap.data.shape,
                                                                                 snap.fs.shape))
        return False
    if fmt == 'fil' and hdr.get('nbits') != 32:
        V(site, 'nbits', 'nbits=%r' % (hdr.get('nbits'),))
    if hdr.get('nifs', 1) != 1:
        V(site, 'nifs', 'nifs=%r' % (hdr.get('nifs'),))
    foff, fch1 = float(hdr['foff']), float(hdr['fch1'])
    if (foff > 0) != snap.asc or foff == 0:
        V(site, 'foff_sign', 'foff=%r for a frame with ascending=%r' % (foff, snap.asc))
    if not _close(abs(foff), F(snap.df) / 10**6, snap.df * 1e-6, K_S):
        V(site, 'foff_value', '|foff|=%r MHz, frame df=%r Hz' % (abs(foff), snap.df))
    if not _close(fch1, F(snap.fch1) / 10**6, snap.fscale * 1e-6, K_S):
        V(site, 'fch1_value', 'header fch1=%r MHz, frame fch1=%r Hz' % (fch1, snap.fch1))
    if not _close(hdr['tsamp'], F(snap.dt), snap.dt, K_S):
        V(site, 'tsamp', 'tsamp=%r, frame dt=%r' % (hdr['tsamp'], snap.dt))
    mjd_x = S.unix_to_mjd_exact(snap.t_start)
    if not _close(hdr['tstart'], mjd_x, float(mjd_x), K_T):
        V(site, 'tstart', 'tstart=%r MJD, frame t_start=%r unix = MJD %r' % (hdr['tstart'], snap.t_start,
                                                                               float(mjd_x)))
    src = hdr.get('source_name')
    if src != snap.src:
        V(site, 'source_name', 'file source_name=%r, frame source_name=%r' % (src, snap.src))
    # pixel by pixel: file channel i is at fch1 + i*foff; the frame column at that sky frequency must hold it
    bad_f = bad_d = None
    for i in range(n):
        j = i if foff > 0 else n - 1 - i
        fx = S.chan_freq_mhz(hdr, i) * 10**6
        if bad_f is None and not _close(snap.fs[j], fx, snap.fscale, K_F):
            bad_f = (i, j, float(fx))
        if bad_d is None and not np.all(_f32_equal(pay[:, i], snap.data[:, j])):
            bad_d = (i, j)
    if bad_f is not None:
        i, j, fx = bad_f
        V(site, 'pixel_frequency', 'file channel %d is at %r Hz but the frame column %d holding it is at %r Hz'
          % (i, fx, j, snap.fs[j]))
    if bad_d is not None:
        i, j = bad_d
        V(site, 'pixel_value', 'file channel %d = %s, frame column %d (same sky frequency) = %s'
          % (i, pay[:, i].tolist(), j, snap.data[:, j].tolist()))
    return True


def _check_reload(snap, path, V, fmt):
    """(i) Frame(path) vs the frame that was saved."""
    import setigen as stg
    site = 'Frame.save_%s' % fmt
    try:
        fr2 = stg.Frame(waterfall=path)
    except (Exception, SystemExit) as e:
        V(site, 'reload_raised', 'Frame(waterfall=file) raised %s: %s' % (type(e).__name__, e))
        return None
    if tuple(fr2.shape) != snap.shape or np.shape(fr2.data) != snap.shape:
        V(site, 'reload_shape', 'reloaded frame has shape %s / data %s, saved frame %s'
          % (tuple(fr2.shape), np.shape(fr2.data), snap.shape))
        return fr2
    if snap.data.shape != snap.shape:
        return fr2
    if not np.all(_f32_equal(fr2.data, snap.data)):
        j = np.argwhere(~_f32_equal(fr2.data, snap.data))[0]
        V(site, 'reload_data', 'reloaded data differ at %s: %r vs saved %r' % (tuple(int(x) for x in j),
                                                                             float(fr2.data[tuple(j)]),
                                                                             float(snap.data[tuple(j)])))
    if bool(fr2.ascending) != snap.asc:
        V(site, 'reload_ascending', 'reloaded ascending=%r, saved %r' % (fr2.ascending, snap.asc))
    if fr2.fs.shape != snap.fs.shape:
        V(site, 'reload_fs', 'reloaded fs has %d entries' % len(fr2.fs))
    else:
        for j in range(snap.fchans):
            if not _close(fr2.fs[j], F(snap.fs[j]), snap.fscale, K_F):
                V(site, 'reload_fs', 'reloaded fs[%d]=%r, saved fs[%d]=%r' % (j, fr2.fs[j], j, snap.fs[j]))
                break
    if not _close(fr2.df, F(snap.df), snap.df, K_S):
        V(site, 'reload_df', 'reloaded df=%r, saved %r' % (fr2.df, snap.df))
    if not _close(fr2.dt, F(snap.dt), snap.dt, K_S):
        V(site, 'reload_dt', 'reloaded dt=%r, saved %r' % (fr2.dt, snap.dt))
    if fr2.source_name != snap.src:
        V(site, 'reload_source_name', 'reloaded source_name=%r, saved %r' % (fr2.source_name, snap.src))
    mjd = float(S.unix_to_mjd_exact(snap.t_start))
    if abs(F(fr2.t_start) - F(snap.t_start)) > Fr(K_T) * F(ulp(mjd)) * 86400:
        V(site, 'reload_t_start', 'reloaded t_start=%r, saved %r' % (fr2.t_start, snap.t_start))
    return fr2


def _check_blimpy(hdr, pay, path, V, fmt):
    """(iii) blimpy's own reader sees every pixel at the same sky frequency as the independent parser."""
    import blimpy
    site = 'Frame.save_%s' % fmt if fmt in ('fil', 'h5') else fmt
    try:
        wf = blimpy.Waterfall(path)
        freqs, dat = wf.grab_data()
    except (Exception, SystemExit) as e:
        V(site, 'blimpy_raised', 'blimpy.Waterfall(file).grab_data() raised %s: %s' % (type(e).__name__, e))
        return
    finally:
        try:
            wf.container.h5.close()
        except Exception:
            pass
    m, n = pay.shape
    freqs = np.atleast_1d(freqs)
    if freqs.shape != (n,) or np.size(dat) != m * n:
        V(site, 'blimpy_shape', 'blimpy sees %d frequencies / %d samples, file has (%d, %d)'
          % (len(freqs), np.size(dat), m, n))
        return
    dat = np.reshape(dat, (m, n))
    scale = max(abs(float(hdr['fch1'])), abs(float(S.chan_freq_mhz(hdr, n - 1))), abs(float(hdr['foff'])))
    for i in range(n):
        if not _close(freqs[i], S.chan_freq_mhz(hdr, i), scale, K_F):
            V(site, 'blimpy_frequency', 'blimpy puts channel %d at %r MHz, header says %r'
              % (i, freqs[i], float(S.chan_freq_mhz(hdr, i))))
            break
    if not np.array_equal(dat, pay):
        V(site, 'blimpy_data', 'blimpy data differ from the raw payload')


def _check_helpers(hdr, pay, arg, V, fr2=None, label='file'):
    """(iv) waterfall_utils helpers on a path / Waterfall: exact lengths, values = header grid = loaded axes."""
    import setigen as stg
    m, n = pay.shape
    if m < 1 or n < 1:
        return
    grid = S.freqs_mhz_exact(hdr, n)
    scale = max(abs(float(grid[0])), abs(float(grid[-1])), abs(float(hdr['foff'])))
    try:
        fs = np.asarray(stg.get_fs(arg))
        ts = np.asarray(stg.get_ts(arg))
        lo, hi = stg.min_freq(arg), stg.max_freq(arg)
        dat = np.asarray(stg.get_data(arg))
    except (Exception, SystemExit) as e:
        V('waterfall_utils', 'raised', 'helper raised on %s: %s: %s' % (label, type(e).__name__, e))
        return
    if fs.shape != (n,):
        V('waterfall_utils.get_fs', 'length', 'get_fs returns %d values for nchans=%d (fch1=%r foff=%r)'
          % (len(fs), n, hdr['fch1'], hdr['foff']))
    else:
        for i in range(n):
            if not _close(fs[i], grid[i], scale, K_F):
                V('waterfall_utils.get_fs', 'value', 'get_fs[%d]=%r, header grid %r' % (i, fs[i], float(grid[i])))
                break
        if fr2 is not None and len(fr2.fs) == n:
            srt = np.sort(fs)
            for j in range(n):
                if not _close(fr2.fs[j], F(srt[j]) * 10**6, scale * 1e6, K_F):
                    V('waterfall_utils.get_fs', 'vs_frame', 'sorted get_fs[%d]=%r MHz, loaded frame fs[%d]=%r Hz'
                      % (j, srt[j], j, fr2.fs[j]))
                    break
    if not _close(lo, min(grid), scale, K_F):
        V('waterfall_utils.min_freq', 'value', 'min_freq=%r, lowest channel %r' % (lo, float(min(grid))))
    if not _close(hi, max(grid), scale, K_F):
        V('waterfall_utils.max_freq', 'value', 'max_freq=%r, highest channel %r' % (hi, float(max(grid))))
    if ts.shape != (m,):
        V('waterfall_utils.get_ts', 'length', 'get_ts returns %d values for %d integrations (tsamp=%r)'
          % (len(ts), m, hdr['tsamp']))
    else:
        tx = S.times_s_exact(hdr, m)
        tscale = max(float(tx[-1]), float(hdr['tsamp']))
        for i in range(m):
            if not _close(ts[i], tx[i], tscale, K_S):
                V('waterfall_utils.get_ts', 'value', 'get_ts[%d]=%r, exact %r' % (i, ts[i], float(tx[i])))
                break
        if fr2 is not None and len(fr2.ts) == m:
            for i in range(m):
                if not _close(fr2.ts[i], F(ts[i]), tscale, K_S):
                    V('waterfall_utils.get_ts', 'vs_frame', 'get_ts[%d]=%r, loaded frame ts[%d]=%r'
                      % (i, ts[i], i, fr2.ts[i]))
                    break
    if dat.shape != (m, n) or not np.array_equal(dat, pay):
        V('waterfall_utils.get_data', 'value', 'get_data returns shape %s / differs from the payload (%d, %d)'
          % (dat.shape, m, n))


_DECOY = {}


def _decoy_materialised():
    """Deterministic process history: just before every save under test ANOTHER synthetic frame -- other source name, other
    geometry, other orientation -- materialises its Waterfall.  Whatever the library shares between the Waterfalls of
    different frames (a header template, a reader) then last served that frame, in every process alike."""
    import setigen as stg
    try:
        _DECOY['k'] = 1 - _DECOY.get('k', 0)
        d = stg.Frame(fchans=5 + _DECOY['k'], tchans=3, df=1.5, dt=2.0, fch1=8.4e9, ascending=bool(_DECOY['k']), t_start=86400.0 * 7,
                      source_name='DECOYSRC%d' % _DECOY['k'])
        d.get_waterfall()
    except Exception:
        pass


def _save_and_check(fr, fmt, V, cnt):
    """Save the real frame in one format and run oracles (i)-(iv) on the file."""
    snap = Snap(fr)
    _decoy_materialised()
    site = 'Frame.save_%s' % fmt
    p = _tmp('.' + fmt)
    try:
        try:
            (fr.save_fil if fmt == 'fil' else fr.save_h5)(p)
        except Exception as e:
            V(site, 'save_raised', '%s: %s' % (type(e).__name__, e))
            return
        cnt['files'] += 1
        try:
            if fmt == 'fil':
                hdr, pay, _ = S.read_fil(p)
            else:
                hdr, pay, root = S.read_h5(p)
                if root.get('CLASS') != 'FILTERBANK':
                    V(site, 'h5_class', 'root CLASS attribute is %r' % (root.get('CLASS'),))
        except S.FormatError as e:
            V(site, 'malformed_file', 'independent parser: %s (frame shape %s)' % (e, snap.shape))
            # the readers of the library still have to be looked at: what do they make of it?
            if not (fmt == 'h5' and _unloadable_h5(fr)):
                _check_reload(snap, p, V, fmt)
            return
        ok = _check_parsed(snap, hdr, pay, V, fmt)
        if fmt == 'h5' and (pay.shape[0] < 3 or pay.shape[1] < 3):
            cnt['h5_not_openable_by_blimpy'] += 1
            return
        fr2 = _check_reload(snap, p, V, fmt)
        _check_blimpy(hdr, pay, p, V, fmt)
        if ok:
            _check_helpers(hdr, pay, p, V, fr2=fr2)
            cnt['helper_files'] += 1
        if fr2 is not None and fmt == 'h5':
            try:
                fr2.waterfall.container.h5.close()
            except Exception:
                pass
    finally:
        _rm(p)


def _check_insession(fr, V, cnt):
    """get_waterfall(): the in-session Waterfall carries the header and data the file would."""
    snap = Snap(fr)
    try:
        wf = fr.get_waterfall()
    except Exception as e:
        V('Frame.get_waterfall', 'raised', '%s: %s' % (type(e).__name__, e))
        return
    h = wf.header
    n, m = snap.fchans, snap.tchans
    d = np.asarray(wf.data)
    if h.get('nchans') != n or d.shape != (m, 1, n) or snap.data.shape != (m, n):
        V('Frame.get_waterfall', 'shape', 'in-session Waterfall: nchans=%r data %s, frame %s'
          % (h.get('nchans'), d.shape, snap.shape))
        return
    foff = float(h['foff'])
    if (foff > 0) != snap.asc:
        V('Frame.get_waterfall', 'foff_sign', 'foff=%r, ascending=%r' % (foff, snap.asc))
        return
    want = snap.data if snap.asc else snap.data[:, ::-1]
    if not np.all(_f32_equal(d[:, 0, :], want)):
        V('Frame.get_waterfall', 'data', 'in-session Waterfall data are not the frame data in file order')
    if not _close(h['fch1'], F(snap.fch1) / 10**6, snap.fscale * 1e-6, K_S):
        V('Frame.get_waterfall', 'fch1', 'fch1=%r MHz, frame fch1=%r Hz' % (h['fch1'], snap.fch1))
    cnt['insession'] += 1


def _visit(c, hist, V, cnt, fmt_orders):
    """Rebuild the node from the root, run the oracle.  Returns (state key, class key) or None."""
    keys = None
    for order in fmt_orders:
        fr = _replay(c, hist, V)
        if fr is None:
            return None
        if fr.tchans < 1 or fr.fchans < 1 or np.ndim(fr.data) != 2 or len(fr.fs) < 1:
            V('history_op', 'degenerate_frame', 'operation %s produced a frame of shape %s (data %s, %d frequencies)'
              % (hist[-1] if hist else 'root', tuple(fr.shape), np.shape(fr.data), len(fr.fs)),
              op=hist[-1] if hist else 'root')
            return None
        if keys is None:
            keys = (_state_key(fr), _class_key(fr), (fr.tchans, fr.fchans))
        for fmt in order:
            _save_and_check(fr, fmt, V, cnt)
    # the node edited IN PLACE and then saved: the file holds the pixels the frame has at the time of saving, whatever views
    # of its data were handed out or wrapped earlier in the history (seeded change C03-31: an identity memo of the wrapped
    # array that a copy inherits, so the copy saves the snapshot taken before the edit)
    fr = _replay(c, hist, V)
    if fr is not None:
        fr.data *= 0.5
        fr.data += 3.0
        for fmt in (('fil',) if c['tier'] == 'quick' else ('fil', 'h5')):
            _save_and_check(fr, fmt, V, cnt)
    fr = _replay(c, hist, V)
    if fr is not None:
        _check_insession(fr, V, cnt)
    return keys


def _replay(c, hist, V):
    _own_clock()
    fr = _root(c)
    exp = getattr(fr, '_c03_t0_expected', None)
    if exp is not None and not hist and abs(fr.t_start - exp[0]) > 1e-3 * exp[1]:
        V('Frame.__init__(waterfall=Waterfall)', 'time_selection_start',
          'frame built from Waterfall(file, t_start=1, ...) starts at %r; the first selected integration of the file is at %r (dt=%r)'
          % (fr.t_start, exp[0], exp[1]))
    for k, op in enumerate(hist):
        try:
            fr = _apply(fr, op)
        except NotApplicable:
            return None
        except (Exception, SystemExit) as e:      # blimpy's HDF5 reader calls sys.exit(86) on a file it rejects
            if k == len(hist) - 1:
                V('history_op', 'op_raised', 'operation %s after %s raised %s: %s'
                  % (op, hist[:k], type(e).__name__, e), op=op)
            return None
    return fr


def case_history(c):
    """BFS over histories below c['prefix'] down to c['depth'] operations (one root per case)."""
    viol = []
    cur = {'hist': None}

    def V(site, failure, detail, op=None):
        if site == 'history_op':
            site = {'from_wf_obj': 'Frame.__init__(waterfall=Waterfall)', 'copy': 'Frame.copy',
                    'pickle': 'Frame.__getstate__', 'slice_head': 'Frame.get_slice', 'slice_tail': 'Frame.get_slice',
                    'slice_mid': 'Frame.get_slice', 'dedrift_pos': 'dedrift', 'dedrift_neg': 'dedrift',
                    'save_fil>load': 'Frame.save_fil+Frame(path)', 'save_h5>load': 'Frame.save_h5+Frame(path)',
                    'get_waterfall': 'Frame.get_waterfall'}.get(op, 'Frame.' + str(op))
        viol.append({'site': site, 'failure': failure,
                     'detail': 'history %s: %s' % (cur['hist'], detail),
                     'params': dict(c, history=list(cur['hist'] or []))})

    cnt = {'files': 0, 'helper_files': 0, 'insession': 0, 'h5_not_openable_by_blimpy': 0, 'not_applicable': 0}
    orders = [('fil', 'h5')] if c['tier'] == 'quick' else [('fil', 'h5'), ('h5', 'fil')]
    seen = set()
    classes = set()
    nontriv = []
    transitions = traces = 0
    frontier = [list(c['prefix'])]
    first = True
    while frontier:
        nxt = []
        for hist in frontier:
            cur['hist'] = hist
            nv = len(viol)
            keys = _visit(c, hist, V, cnt, orders)
            if hist:
                transitions += 1
            if keys is None:
                if len(viol) == nv:
                    cnt['not_applicable'] += 1
                continue
            traces += 1
            sk, ck, shp = keys
            classes.add(ck)
            if shp[0] * shp[1] >= 2:
                nontriv.append(engine.sha([c['geom'], c['asc'], c['tchans'], c['fchans'], hist]))
            if sk in seen:
                continue
            seen.add(sk)
            if len(hist) < c['depth']:
                for op in OPS:
                    nxt.append(hist + [op])
        frontier = nxt
        first = False
    # first violation of each kind only (the engine groups by (site, failure) anyway; keeps results small)
    out, had = [], set()
    for v in viol:
        k = (v['site'], v['failure'])
        if k not in had:
            had.add(k)
            out.append(v)
    return {'viol': out, 'nontrivial': nontriv, 'outcomes': sorted(classes), 'n': traces,
            'state_keys': sorted(seen), 'transitions': transitions, 'traces': traces, 'extra': cnt}


def case_header_box(c):
    """Files written by the INDEPENDENT writer: load path, blimpy, helpers.  One (nchans, foff, fch1) per
    case, all (tsamp, nints) inside."""
    import setigen as stg
    viol = []
    cur = {}

    def V(site, failure, detail):
        viol.append({'site': site, 'failure': failure, 'detail': '%s: %s' % (cur, detail),
                     'params': dict(c, **cur)})

    n = c['nchans']
    nontriv, outcomes = [], set()
    nfiles = 0
    for tsamp in c['tsamps']:
        for m in c['nints']:
            cur.clear()
            cur.update(tsamp=tsamp, nints=m)
            hdr = S.default_header(n, c['fch1'], c['foff'], tsamp, tstart=59105.5 + 1.0 / 64, source_name='BOXSRC')
            rng = np.random.default_rng([c['seed'], m, n])
            pay = (10.0 + np.arange(m * n).reshape(m, n) + rng.uniform(0, 0.25, size=(m, n))).astype(np.float32)
            p = _tmp('.fil')
            try:
                S.write_fil(p, hdr, pay)
                nfiles += 1
                fr2 = None
                try:
                    fr2 = stg.Frame(waterfall=p)
                except Exception as e:
                    V('Frame.__init__(waterfall=path)', 'raised', '%s: %s' % (type(e).__name__, e))
                if fr2 is not None:
                    asc = c['foff'] > 0
                    if tuple(fr2.shape) != (m, n) or np.shape(fr2.data) != (m, n):
                        V('Frame.__init__(waterfall=path)', 'shape', 'loaded shape %s, file (%d, %d)' % (fr2.shape, m, n))
                        fr2 = None
                    else:
                        want = pay if asc else pay[:, ::-1]
                        if not np.array_equal(np.asarray(fr2.data), want):
                            V('Frame.__init__(waterfall=path)', 'data', 'loaded data are not the payload in '
                              'ascending-frequency order')
                        if bool(fr2.ascending) != asc:
                            V('Frame.__init__(waterfall=path)', 'ascending', 'ascending=%r for foff=%r'
                              % (fr2.ascending, c['foff']))
                        grid = sorted(S.freqs_mhz_exact(hdr, n))
                        scale = max(abs(float(grid[0])), abs(float(grid[-1])), abs(c['foff'])) * 1e6
                        for j in range(n):
                            if not _close(fr2.fs[j], grid[j] * 10**6, scale, K_F):
                                V('Frame.__init__(waterfall=path)', 'fs', 'loaded fs[%d]=%r Hz, header grid %r MHz'
                                  % (j, fr2.fs[j], float(grid[j])))
                                break
                        if not _close(fr2.df, F(abs(c['foff'])) * 10**6, abs(c['foff']) * 1e6, K_S):
                            V('Frame.__init__(waterfall=path)', 'df', 'df=%r for foff=%r MHz' % (fr2.df, c['foff']))
                        if not _close(fr2.dt, F(tsamp), tsamp, K_S):
                            V('Frame.__init__(waterfall=path)', 'dt', 'dt=%r for tsamp=%r' % (fr2.dt, tsamp))
                        if fr2.source_name != 'BOXSRC':
                            V('Frame.__init__(waterfall=path)', 'source_name', 'source_name=%r' % (fr2.source_name,))
                        tx = S.mjd_to_unix_exact(hdr['tstart'])
                        if abs(F(fr2.t_start) - tx) > Fr(K_T) * F(ulp(hdr['tstart'])) * 86400:
                            V('Frame.__init__(waterfall=path)', 't_start', 't_start=%r, header MJD %r = unix %r'
                              % (fr2.t_start, hdr['tstart'], float(tx)))
                _check_blimpy(hdr, pay, p, V, 'blimpy.Waterfall')
                _check_helpers(hdr, pay, p, V, fr2=fr2)
                if n <= 12 and fr2 is not None:
                    # the Waterfall-object route, used TWICE on the same reader: building a frame must leave the reader's
                    # own data and header alone (an independent reader sees every pixel at the same sky frequency), and a
                    # second frame from it must equal the first
                    import blimpy
                    try:
                        wf = blimpy.Waterfall(p)
                        d0 = np.array(wf.data, copy=True)
                        h0 = (wf.header['fch1'], wf.header['foff'], wf.header['nchans'])
                        fa = stg.Frame(waterfall=wf)
                        da = np.array(fa.data, copy=True)
                        fb = stg.Frame(waterfall=wf)
                        site_w = 'Frame.__init__(waterfall=Waterfall)'
                        if not np.array_equal(np.asarray(wf.data), d0) or (wf.header['fch1'], wf.header['foff'], wf.header['nchans']) != h0:
                            V(site_w, 'reader_modified', 'building a Frame from a Waterfall object changed the reader\'s own data/header '
                              '(foff=%r, %dx%d)' % (c['foff'], m, n))
                        if not np.array_equal(np.asarray(fb.data), da) or not np.array_equal(np.asarray(fa.data), da):
                            V(site_w, 'second_frame_differs', 'two frames built from the same Waterfall object differ (foff=%r, %dx%d)'
                              % (c['foff'], m, n))
                        if not np.array_equal(da, np.asarray(fr2.data)) or not np.array_equal(np.asarray(fa.fs), np.asarray(fr2.fs)):
                            V(site_w, 'differs_from_path_route', 'Frame(waterfall=Waterfall object) differs from Frame(waterfall=path)')
                    except SystemExit:
                        pass
                    except Exception as e:
                        V('Frame.__init__(waterfall=Waterfall)', 'raised', '%s: %s' % (type(e).__name__, e))
                if c.get('wf_arg'):
                    import blimpy
                    _check_helpers(hdr, pay, blimpy.Waterfall(p), V, fr2=fr2, label='Waterfall object')
                if n <= 8:
                    # file-side history, same size: the path is overwritten with a file of the SAME geometry and byte length (same
                    # source-name length) but another band, orientation and content
                    name3 = str(hdr.get('source_name', 'BOXSRC'))[::-1]
                    hdr3 = S.default_header(n, c['fch1'] + 7.0, -c['foff'], tsamp, tstart=59105.5, source_name=name3)
                    pay3 = (900.0 - np.arange(m * n).reshape(m, n)).astype(np.float32)
                    S.write_fil(p, hdr3, pay3)
                    _check_helpers(hdr3, pay3, p, V, label='file (path reused for another file of the same size)')
                if n <= 8:
                    # file-side history: the SAME path is overwritten with a file of another geometry / band / orientation and
                    # queried again -- the helpers and the loader must describe the file that is on disk now
                    n2, m2 = n + 1, m + 1
                    hdr2 = S.default_header(n2, c['fch1'] + 3.0, -c['foff'], tsamp * 2, tstart=59105.5 + 1.0 / 64, source_name='BOXSRC2')
                    pay2 = (5.0 + np.arange(m2 * n2).reshape(m2, n2)).astype(np.float32)
                    S.write_fil(p, hdr2, pay2)
                    _check_helpers(hdr2, pay2, p, V, label='file (path reused for another file)')
                    try:
                        fr3 = stg.Frame(waterfall=p)
                        if tuple(fr3.shape) != (m2, n2) or bool(fr3.ascending) != (hdr2['foff'] > 0) or fr3.source_name != 'BOXSRC2':
                            V('Frame.__init__(waterfall=path)', 'stale_after_path_reuse', 'after the path was overwritten the loaded frame has shape %s '
                              'ascending=%r source=%r; the file holds (%d, %d), foff=%r, BOXSRC2' % (fr3.shape, fr3.ascending, fr3.source_name, m2, n2, hdr2['foff']))
                    except SystemExit:
                        pass
                    except Exception as e:
                        V('Frame.__init__(waterfall=path)', 'raised', 'after path reuse: %s: %s' % (type(e).__name__, e))
            finally:
                _rm(p)
            if m * n >= 2:
                nontriv.append(engine.sha([n, c['foff'], c['fch1'], tsamp, m]))
            outcomes.add('box/%d/%d/%s' % (min(n, 3), min(m, 3), c['foff'] > 0))
    out, had = [], set()
    for v in viol:
        k = (v['site'], v['failure'])
        if k not in had:
            had.add(k)
            out.append(v)
    return {'viol': out, 'nontrivial': nontriv, 'outcomes': sorted(outcomes), 'n': nfiles,
            'extra': {'box_files': nfiles}}


def run(ctx):
    depth = 2 if ctx.tier == 'quick' else 3
    cases = []
    # simplest first: small frames, short histories
    for sz in sorted(SIZES, key=lambda s: s[0] * s[1]):
        for geom in GEOMS:
            for asc in (False, True):
                base = dict(geom=geom, asc=asc, tchans=sz[0], fchans=sz[1], seed=ctx.seed, tier=ctx.tier)
                cases.append(dict(base, prefix=[], depth=0))
                for op in OPS:
                    cases.append(dict(base, prefix=[op], depth=depth))
    # (sub-box) roots loaded from 8- and 16-bit files
    for rt in ('fil8', 'fil16', 'from_data_named', 'wf_tsel'):
        for asc in (False, True):
            base = dict(geom=sorted(GEOMS)[0], asc=asc, tchans=SIZES[0][0], fchans=SIZES[0][1], seed=ctx.seed, tier=ctx.tier, root=rt)
            cases.append(dict(base, prefix=[], depth=0))
            for op in ('get_waterfall', 'copy', 'slice_mid'):
                cases.append(dict(base, prefix=[op], depth=1))
    cases.sort(key=lambda c: (len(c['prefix']), c['tchans'] * c['fchans']))
    ctx.pmap(case_history, cases, chunk=1)
    box = []
    tsamps = BOX_TSAMP_Q if ctx.tier == 'quick' else BOX_TSAMP_T
    for n in BOX_NCHANS:
        for a in BOX_FOFF:
            for sgn in (-1, 1):
                for fch1 in BOX_FCH1:
                    box.append(dict(nchans=n, foff=sgn * a, fch1=fch1, tsamps=tsamps, nints=BOX_NINTS,
                                    seed=ctx.seed, wf_arg=(ctx.tier == 'thorough')))
    ctx.pmap(case_header_box, box)
    return ctx.finish(
        rule='E-HIST: every operation history of length <= %d over the alphabet from every root (3 geometries x 2 '
             'orientations x 2 sizes), each rebuilt from fresh objects and ended with a save in both formats; '
             'expansion stops at states whose canonical key (all frame attributes, data digest, attached-Waterfall '
             'header and container attributes) was already seen below the same first operation.  E-PROD: complete '
             'box of headers written by the independent writer.  Non-trivial = the saved frame/file has >= 2 '
             'pixels; distinct = distinct (root, history) or header tuples' % depth,
        assumptions=['fch1/df <= 2^36', 'frequencies compared within %d ulp of the largest axis magnitude against '
                     'exact rationals of the header doubles; scalars within %d ulp; start time within %d ulp of the '
                     'MJD double' % (K_F, K_S, K_T),
                     'intensities compared to 1 float32 ulp',
                     'blimpy cannot open .h5 files with fewer than 3 integrations or 3 channels (its probe reads '
                     'data[2][0][0] and data[0][0][2]); such files are checked with the independent h5py reader only '
                     '(counter h5_not_openable_by_blimpy)',
                     'time.time inside setigen.frame replaced by a deterministic counter',
                     'reference for start time / source name is the saved frame\'s own attribute'],
        coverage_extra={'max_depth': depth, 'alphabet': OPS,
                        'bounds': {'geometries': GEOMS, 'sizes_tchans_fchans': SIZES, 'orientations': [False, True],
                                   'box_nchans': [1, 40], 'box_foff_mhz': BOX_FOFF, 'box_fch1_mhz': BOX_FCH1,
                                   'box_tsamp': tsamps, 'box_nints': BOX_NINTS}})
