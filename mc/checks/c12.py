"""
C12 -- Determinism from seeds, history independence, copy isolation.

E-HIST over API histories: every sequence (up to the depth bound) over an alphabet of self-contained
actions (recordings with default / explicit / template headers, array recordings, injection onto existing
RAW, a second recording from the same backend, frame pipelines, frames loaded from .fil/.h5, stream
requests).  Each history runs in a child forked from a pristine process (so "history" is exactly the listed
actions), and the artefacts of its LAST action must be bit-identical to the same action run ALONE IN A FRESH
INTERPRETER (baselines computed in separate `python` subprocesses).  Copy / pickle isolation: frames from
every construction route x every single mutation of either side.  Different seeds => different noise.
"""
import os, sys, json, hashlib, pickle, subprocess, itertools, io, contextlib
import numpy as np

from mc import engine

PROPERTY = 'C12'
LEVEL = 'model_checking'

ACTIONS = ['R1', 'R2', 'R3', 'R4', 'R5', 'R6', 'R7', 'F1', 'F2', 'F3', 'S1', 'E1', 'E2']
_D_ORIG = {'OBSERVER': 'me', 'MYKEY': 42, 'DIRECTIO': 0}
_STATE = {'D': dict(_D_ORIG)}          # the caller's dictionary, kept and passed again by later R2 actions


def _h(*parts):
    m = hashlib.sha256()
    for p in parts:
        if isinstance(p, np.ndarray):
            m.update(str(p.dtype).encode()); m.update(str(p.shape).encode()); m.update(np.ascontiguousarray(p).tobytes())
        elif isinstance(p, bytes):
            m.update(p)
        else:
            m.update(repr(p).encode())
    return m.hexdigest()[:24]


def _files_digest(stem):
    from mc.refs import guppi
    out = []
    first = None
    for fn in guppi.list_files(stem):
        with open(fn, 'rb') as f:
            b = f.read()
        out.append((os.path.basename(fn)[-9:], hashlib.sha256(b).hexdigest()[:24]))
        if first is None:
            first = guppi.parse_file(b)[0]['header']
        os.remove(fn)
    return out, first


def _backend(seed, source='ant', bits=8):
    from mc import vharness
    cfg = dict(M=2, P=4, start_chan=0, num_chans=2, r=2, num_subblocks=2, bpf=2, npol=2, source=source, bits=bits,
               sample_rate=1024.0, t_start=0)
    return vharness.make_backend(cfg, seed=seed)


def act(name, wd):
    """Run one action; returns (digest, info dict).  Everything is built from fixed seeds."""
    import setigen as stg
    import setigen.voltage as sv
    from mc.refs import guppi
    stem = os.path.join(wd, 'c12_%s' % name)
    info = {}
    if name in ('R1', 'R2', 'R3', 'R4'):
        be = _backend(7, 'arr2' if name == 'R4' else 'ant')[0]
        if name == 'R1':
            be.record(output_file_stem=stem, num_blocks=3, length_mode='num_blocks', load_template=False, verbose=False)
        elif name == 'R2':
            be.record(output_file_stem=stem, num_blocks=3, length_mode='num_blocks', header_dict=_STATE['D'],
                      load_template=False, verbose=False)
        elif name == 'R3':
            be.record(output_file_stem=stem, num_blocks=2, length_mode='num_blocks', load_template=True, verbose=False)
        else:
            be.record(output_file_stem=stem, num_blocks=2, length_mode='num_blocks', load_template=False, verbose=False)
        dg, h = _files_digest(stem)
        info['pktidx0'] = h.get('PKTIDX')
        return _h(dg), info
    if name == 'R5':
        from mc.checks import c14
        c = dict(bits=8, npol=2, nants=1, directio=1, aligned=False, layout=[3, 2], content='tone', digitize=True, T=8,
                 nchans=4, start_chan=0, recordings=1, seed=0)
        stem_in = os.path.join(wd, 'c12_in')
        c14.write_input(c, stem_in, 5)
        ant = sv.Antenna(sample_rate=1024.0, fch1=0.0, ascending=True, num_pols=2, seed=8)
        ant.x.add_constant_signal(f_start=200.0, drift_rate=0.0, level=0.5)
        ant.y.add_noise(0, 0.1)
        fb = sv.PolyphaseFilterbank(num_taps=2, num_branches=8)
        fb.estimate_channelized_stds(factor=100, seed=12)
        be = sv.RawVoltageBackend.from_data(stem_in, ant, digitizer=sv.RealQuantizer(), filterbank=fb, start_chan=0, num_subblocks=2)
        be.record(output_file_stem=stem, verbose=False, load_template=False)
        dg, h = _files_digest(stem)
        for fn in guppi.list_files(stem_in):
            os.remove(fn)
        return _h(dg), info
    if name == 'R6':
        be = _backend(9)[0]
        be.record(output_file_stem=stem, num_blocks=2, length_mode='num_blocks', load_template=False, verbose=False)
        _files_digest(stem)
        be.record(output_file_stem=stem, num_blocks=2, length_mode='num_blocks', load_template=False, verbose=False)
        dg, h = _files_digest(stem)
        info['pktidx0'] = h.get('PKTIDX')
        info['pktstart'] = h.get('PKTSTART')
        return _h(dg), info
    if name == 'R7':
        # "what a recording writes depends only on its backend, antenna state and arguments": the SECOND recording of a
        # backend must equal the recording of a FRESH, identically configured backend whose antenna was brought to the
        # identical state (same seed, same sequence of requests as the first recording made).
        from mc import vharness
        digs = []
        # (period, windows per block, requested sub-blocks): 3 and 3; 4 and 4 (one window per sub-block: every rounding of
        # the sub-block length is exact); 8 windows in 3 (a short last sub-block)
        for period, r_, nsub_ in ((2, 3, 3), (-1, 3, 3), (1, 3, 3), (1, 4, 4), (2, 4, 4), (1, 8, 3)):
            cfg = dict(M=2, P=4, start_chan=0, num_chans=2, r=r_, num_subblocks=nsub_, bpf=2, npol=1, source='ant', bits=8,
                       sample_rate=1024.0, t_start=0)

            def mk():
                be, src, dig, fb, rq = vharness.make_backend(cfg, seed=17)
                for row in dig + rq:
                    for q in row:
                        for part in ([q] if not hasattr(q, 'quantizer_r') else [q, q.quantizer_r, q.quantizer_i]):
                            part.stats_calc_period = period
                            part.stats_calc_num_samples = 6
                return be, src
            be, src = mk()
            be.record(output_file_stem=stem, num_blocks=1, length_mode='num_blocks', load_template=False, verbose=False)
            _files_digest(stem)
            reqs = [n for n, _, _ in src.log]
            be.record(output_file_stem=stem, num_blocks=2, length_mode='num_blocks', load_template=False, verbose=False)
            second, _ = _files_digest(stem)
            be2, src2 = mk()
            src2.reset_start()
            for n in reqs:
                src2.get_samples(n)
            be2.record(output_file_stem=stem, num_blocks=2, length_mode='num_blocks', load_template=False, verbose=False)
            fresh, _ = _files_digest(stem)
            digs.append(((period, r_, nsub_), second == fresh))
        info['second_equals_fresh_backend'] = digs
        return _h(digs, second), info
    if name == 'F1':
        fr = stg.Frame(fchans=16, tchans=8, df=2.0, dt=1.0, fch1=1e9, seed=3, t_start=10.0)
        n1 = fr.add_noise(5.0)
        n2 = fr.add_noise_from_obs(noise_type='gaussian')
        s1 = fr.add_signal(stg.simple_rfi_path(fr.get_frequency(5), 0.1, 4.0, spread_type='normal', rfi_type='random_walk', seed=5),
                           stg.periodic_gaussian_t_profile(2.0, 3.0, pulse_offset_width=0.5, seed=6),
                           stg.gaussian_f_profile(4.0))
        s2 = fr.add_constant_signal(fr.get_frequency(9), 0.3, fr.get_intensity(snr=10), 3.0, 'sinc2')
        # the stand-alone distribution helpers with explicit integer seeds (0 included)
        d = [stg.gaussian(1.0, 2.0, (3, 2), seed=0), stg.truncated_gaussian(1.0, 2.0, 0.0, (3, 2), seed=0), stg.chi2(5.0, 8, (3, 2), seed=0),
             stg.gaussian(1.0, 2.0, (3, 2), seed=7), stg.sample_gaussian_params(np.arange(5.0), np.arange(5.0) + 0.5, seed=0)]
        # a frame asked to start at the instant 0 (a valid start time): it and the frames derived from it carry that start
        # time in every run, not the wall clock (seeded change C12-30)
        f0 = stg.Frame(fchans=8, tchans=4, df=2.0, dt=1.0, fch1=1e9, seed=3, t_start=0)
        f0.add_noise(2.0)
        sl = f0.get_slice(1, 5)
        starts = [float(fr.t_start), float(f0.t_start), float(sl.t_start), float(f0.copy().t_start),
                  float(f0.get_waterfall().header['tstart'])]
        return _h(fr.data, n1, n2, s1, s2, fr.noise_mean, fr.noise_std, [np.asarray(x) for x in d], starts, f0.data, f0.ts), info
    if name in ('F2', 'F3'):
        src = stg.Frame(fchans=12, tchans=4, df=2.0, dt=1.0, fch1=1e9, seed=13, t_start=86400.0 * 5, ascending=(name == 'F3'))
        src.add_noise(3.0)
        fn = os.path.join(wd, 'c12.%s' % ('fil' if name == 'F2' else 'h5'))
        if os.path.exists(fn):
            os.remove(fn)
        (src.save_fil if name == 'F2' else src.save_h5)(fn)
        fr = stg.Frame(waterfall=fn, seed=4)
        n = fr.add_noise(2.0, 1.0, noise_type='gaussian')
        os.remove(fn)
        return _h(fr.data, fr.fs, fr.ts, n, fr.t_start, fr.source_name, fr.noise_std), info
    if name in ('E1', 'E2'):
        # the seeded channelised-noise estimate used for injection onto existing RAW (same configuration, two seeds)
        fb = sv.PolyphaseFilterbank(num_taps=2, num_branches=8)
        st = np.array(fb.estimate_channelized_stds(factor=100, seed=21 if name == 'E1' else 22))
        fb2 = sv.PolyphaseFilterbank(num_taps=2, num_branches=8)
        st2 = np.array(fb2.estimate_channelized_stds(factor=100, seed=21 if name == 'E1' else 22))
        info['same_seed_same_estimate'] = bool(np.array_equal(st, st2))
        # the seed given as ONE Generator object shared by the filterbanks of two polarisations: the second estimate is what
        # a generator in the state the first call left behind yields (decided with a twin generator set to that state)
        import copy as _copy
        gen = np.random.default_rng(31 if name == 'E1' else 32)
        ga = np.array(sv.PolyphaseFilterbank(num_taps=2, num_branches=8).estimate_channelized_stds(factor=100, seed=gen))
        state = _copy.deepcopy(gen.bit_generator.state)
        gb = np.array(sv.PolyphaseFilterbank(num_taps=2, num_branches=8).estimate_channelized_stds(factor=100, seed=gen))
        twin = np.random.default_rng(0)
        twin.bit_generator.state = state
        gb2 = np.array(sv.PolyphaseFilterbank(num_taps=2, num_branches=8).estimate_channelized_stds(factor=100, seed=twin))
        info['generator_seed'] = [bool(np.array_equal(gb, gb2)), bool(not np.array_equal(ga, gb))]
        return _h(st, ga, gb), info
    if name == 'S1':
        s = sv.DataStream(sample_rate=1e3, fch1=0.0, ascending=True, t_start=1.5, seed=9)
        s.add_noise(0.1, 1.0)
        s.add_constant_signal(200.0, 3.0, 0.7)
        a = np.array(s.get_samples(5)); b = np.array(s.get_samples(7))
        ant = sv.Antenna(sample_rate=1e3, num_pols=2, seed=10)
        for t in ant.streams:
            t.add_noise(0, 1)
        v = np.array(ant.get_samples(6))
        arr = sv.MultiAntennaArray(num_antennas=2, sample_rate=1e3, num_pols=2, delays=[1, 0], seed=11)
        for t in arr.bg_streams:
            t.add_noise(0, 1)
        for an in arr.antennas:
            an.x.add_noise(0, 1); an.y.add_noise(0, 1)
        w = np.array(arr.get_samples(5))
        return _h(a, b, v, w), info
    raise ValueError(name)


def _globals_digest():
    """Diagnostic only: digest of every setigen module global and function default."""
    import types
    out = {}
    for mn, mod in list(sys.modules.items()):
        if not mn.startswith('setigen') or mod is None:
            continue
        for k, v in list(vars(mod).items()):
            if k.startswith('__'):
                continue
            if isinstance(v, (int, float, str, tuple, list, dict, set, np.ndarray)):
                try:
                    out['%s.%s' % (mn, k)] = _h(repr(v)[:2000])
                except Exception:
                    pass
            fns = []
            if isinstance(v, types.FunctionType):
                fns = [(k, v)]
            elif isinstance(v, type):
                fns = [(k + '.' + n, f) for n, f in vars(v).items() if isinstance(f, (types.FunctionType, classmethod))]
            for fname, f in fns:
                f = getattr(f, '__func__', f)
                d = getattr(f, '__defaults__', None)
                if d:
                    out['%s.%s.__defaults__' % (mn, fname)] = _h(repr(d)[:2000])
    return out


def run_history(hist, wd):
    """Runs in a child forked from a pristine process.  Returns per-step digests + diagnostics."""
    engine._silence()
    _STATE['D'] = dict(_D_ORIG)
    steps = []
    g0 = _globals_digest()
    for a in hist:
        d_before = dict(_STATE['D'])
        dg, info = act(a, wd)
        g1 = _globals_digest()
        changed = sorted(k for k in set(g0) | set(g1) if g0.get(k) != g1.get(k))
        steps.append({'action': a, 'digest': dg, 'info': info, 'globals_changed': changed,
                      'caller_dict_changed': (_STATE['D'] != d_before) if a == 'R2' else False})
        g0 = g1
    return steps


def _forked(fn, *args):
    r, w = os.pipe()
    pid = os.fork()
    if pid == 0:
        code = 0
        try:
            os.close(r)
            out = fn(*args)
            with os.fdopen(w, 'wb') as f:
                f.write(pickle.dumps(('ok', out)))
        except BaseException as e:
            import traceback
            try:
                with os.fdopen(w, 'wb') as f:
                    f.write(pickle.dumps(('err', traceback.format_exc())))
            except Exception:
                pass
            code = 3
        os._exit(code)
    os.close(w)
    with os.fdopen(r, 'rb') as f:
        data = f.read()
    os.waitpid(pid, 0)
    if not data:
        raise engine.HarnessError('forked child died without a result')
    kind, out = pickle.loads(data)
    if kind == 'err':
        raise engine.HarnessError('forked child raised:\n' + out)
    return out


def case_baseline(c):
    """The action alone in a FRESH INTERPRETER (separate python process, imports from scratch)."""
    wd = engine.workdir()
    env = dict(os.environ)
    code = ("import sys, json; from mc import engine; engine._silence(); from mc.checks import c12; "
            "print('RESULT ' + json.dumps(c12.run_history([%r], %r)))" % (c['action'], wd))
    outs = []
    for rep, hs in enumerate(('0', '1', '4242')):
        # the interpreter's string-hash randomisation is not a seed the user controls: results must not depend on it
        env = dict(os.environ, PYTHONHASHSEED=hs)
        r = subprocess.run([sys.executable, '-W', 'ignore', '-c', code], capture_output=True, text=True, env=env, cwd=engine.HERE)
        line = [l for l in r.stdout.splitlines() if l.startswith('RESULT ')]
        if r.returncode != 0 or not line:
            raise engine.HarnessError('baseline subprocess failed: %s\n%s' % (r.stdout[-2000:], r.stderr[-2000:]))
        outs.append(json.loads(line[0][7:])[0])
    viol = []
    if len(set(o['digest'] for o in outs)) != 1:
        viol.append({'site': 'action:' + c['action'], 'failure': 'nondeterministic_across_processes', 'no_reexec': True,
                     'detail': 'fresh interpreters (PYTHONHASHSEED 0 / 1 / 4242) running %s with the same seeds produced different '
                               'results: %s' % (c['action'], [o['digest'][:8] for o in outs])})
    return {'viol': viol, 'baseline': {c['action']: outs[0]}, 'nontrivial': [c['action']], 'outcomes': [outs[0]['digest']]}


def case_history(c):
    hist = c['history']
    base = c['baselines']
    wd = engine.workdir()
    steps = _forked(run_history, hist, wd)
    viol = []
    last = steps[-1]
    a = last['action']
    if last['digest'] != base[a]['digest']:
        leak = sorted(set(k for s in steps[:-1] for k in s['globals_changed']))
        viol.append({'site': 'action:' + a, 'failure': 'history_dependent',
                     'detail': '%s after %s differs from %s alone in a fresh interpreter (info %s vs %s); process state changed '
                               'by earlier actions: %s; caller dict changed: %s'
                               % (a, hist[:-1], a, last['info'], base[a]['info'], leak[:6], [s['caller_dict_changed'] for s in steps])})
    if a == 'R7' and not all(ok for _, ok in last['info'].get('second_equals_fresh_backend', [])):
        viol.append({'site': 'action:R7', 'failure': 'second_recording_differs_from_fresh_backend',
                     'detail': 'the second recording of a backend differs from that of a fresh identically configured backend whose antenna '
                               'is in the identical state; ((stats_calc_period, windows per block, sub-blocks), equal): %s' % last['info'].get('second_equals_fresh_backend')})
    if a in ('E1', 'E2') and not last['info'].get('same_seed_same_estimate', True):
        viol.append({'site': 'action:' + a, 'failure': 'same_seed_different_estimate',
                     'detail': 'two identically configured filterbanks given the same integer seed return different estimates'})
    if a in ('E1', 'E2') and not all(last['info'].get('generator_seed', [True])):
        viol.append({'site': 'action:' + a, 'failure': 'generator_seed_not_consumed',
                     'detail': 'estimate_channelized_stds(seed=<Generator>) called twice with one Generator object: (second estimate equals '
                               'that of a twin generator in the same state, second differs from first) = %s' % last['info'].get('generator_seed')})
    if a == 'R6' and (last['info'].get('pktidx0') != 0 or last['info'].get('pktstart') != 0):
        viol.append({'site': 'action:R6', 'failure': 'second_recording_header',
                     'detail': 'second recording from the same backend with the default header starts at PKTIDX=%r PKTSTART=%r'
                               % (last['info'].get('pktidx0'), last['info'].get('pktstart'))})
    return {'viol': viol, 'traces': 1, 'transitions': len(hist), 'state_keys': ['/'.join(hist[:k]) for k in range(len(hist) + 1)],
            'nontrivial': ['/'.join(hist)] if len(hist) > 1 else [], 'outcomes': [last['digest']]}


# ------------------------------------------------------------------------------------------ copies
ROUTES = ['synthetic', 'from_data', 'fil', 'h5', 'sliced', 'after_get_waterfall', 'file_sliced', 'consolidated', 'dedrifted']
MUTATIONS = ['data_write', 'add_noise', 'add_signal', 'metadata', 'rng_draw', 'waterfall_header']


def _route(name, wd, seed):
    import setigen as stg
    base = stg.Frame(fchans=10, tchans=4, df=2.0, dt=1.0, fch1=1e9, seed=seed, t_start=86400.0 * 3, source_name='SRC')
    base.add_noise(4.0)
    base.add_metadata({'note': 'x', 'drift_rate': 0.5})
    if name == 'synthetic':
        return base
    if name == 'from_data':
        return stg.Frame.from_data(2.0, 1.0, 1e9, False, np.array(base.data), metadata={'k': 1}, seed=seed)
    if name in ('fil', 'h5', 'file_sliced'):
        fn = os.path.join(wd, 'c12copy_%s.%s' % (name, 'h5' if name == 'h5' else 'fil'))
        if os.path.exists(fn):
            os.remove(fn)
        # the observation header carries values that are NOT the library's template defaults (another telescope, beam):
        # they belong to the file and to every copy of a frame loaded from it
        wf0 = base.get_waterfall()
        wf0.header['telescope_id'] = 4
        wf0.header['ibeam'] = 3
        (base.save_h5 if name == 'h5' else base.save_fil)(fn)
        fr = stg.Frame(waterfall=fn, seed=seed)
        if int(fr.waterfall.header.get('telescope_id', -1)) != 4:
            raise engine.HarnessError('edited header field did not reach the file (%r)' % fr.waterfall.header.get('telescope_id'))
        if name == 'file_sliced':
            fr = fr.get_slice(2, 8)
        return fr
    if name == 'sliced':
        return base.get_slice(1, 7)
    if name == 'after_get_waterfall':
        base.get_waterfall()
        return base
    if name == 'consolidated':
        # a frame whose time axis is NOT the default grid: absolute times of a cadence with a gap
        b2 = stg.Frame(fchans=10, tchans=3, df=2.0, dt=1.0, fch1=1e9, seed=seed + 1, t_start=86400.0 * 3 + 50.0, source_name='SRC')
        b2.add_noise(4.0)
        return stg.Cadence([base, b2]).consolidate()
    if name == 'dedrifted':
        return stg.dedrift(base, 0.9)
    raise ValueError(name)


def _snapshot(fr):
    wf = None
    if fr.waterfall is not None:
        def _nv(v):
            # header values by VALUE: a refresh of the attached Waterfall may turn 10 into np.int64(10) and back
            if isinstance(v, (bool, np.bool_)):
                return 'b%d' % int(v)
            if isinstance(v, (int, np.integer)):
                return 'i%d' % int(v)
            if isinstance(v, (float, np.floating)):
                return 'f%r' % float(v)
            if isinstance(v, bytes):
                return 's' + v.decode('latin1')
            return 's' + str(v)
        wf = _h(sorted((str(k), _nv(v)) for k, v in fr.waterfall.header.items()))
    return dict(data=_h(fr.data), fs=_h(fr.fs), ts=_h(fr.ts), meta=_h(sorted(fr.metadata.items(), key=str)),
                noise=_h(fr.noise_mean, fr.noise_std), rng=_h(json.dumps(fr.rng.bit_generator.state, sort_keys=True, default=str)),
                scal=_h(fr.df, fr.dt, fr.fch1, fr.ascending, fr.t_start, fr.source_name, fr.shape), wf=wf)


def _mutate(fr, m):
    import setigen as stg
    if m == 'data_write':
        fr.data[0, 0] += 1.0
    elif m == 'add_noise':
        fr.add_noise(1.0)
    elif m == 'add_signal':
        fr.add_signal(fr.get_frequency(2), 1.0, stg.box_f_profile(3 * fr.df))
    elif m == 'metadata':
        fr.metadata['note'] = 'changed'; fr.add_metadata({'new': 1})
    elif m == 'rng_draw':
        fr.rng.normal(size=3)
    elif m == 'waterfall_header':
        fr.get_waterfall().header['source_name'] = 'EDITED'
        fr.waterfall.header['extra'] = 1


def case_copy(c):
    viol = []

    def V(failure, detail, site):
        viol.append({'site': site, 'failure': failure, 'detail': detail})
    wd = engine.workdir()
    with contextlib.redirect_stdout(io.StringIO()):
        def mk():
            return _route(c['route'], wd, 21 + c['seed'])
        orig = mk()
        how = c['how']
        site = 'Frame.copy' if how == 'copy' else 'Frame.pickle'

        def dup(fr):
            if how == 'copy':
                return fr.copy()
            fn = os.path.join(wd, 'c12copy.pickle')
            fr.save_pickle(fn)
            out = type(fr).load_pickle(fn)
            os.remove(fn)
            return out
        had_wf = orig.waterfall is not None
        if had_wf:
            orig.get_waterfall()       # bring the attached Waterfall up to date first (a lazy refresh is not a change)
        s0 = _snapshot(orig)
        try:
            cp = dup(orig)
        except Exception as e:
            V('copy_raised', '%s of a %s frame raised %s: %s' % (how, c['route'], type(e).__name__, e), site)
            return {'viol': viol, 'n': 1, 'nontrivial': [engine.sha(c)], 'outcomes': ['%s/%s/raised' % (c['route'], how)]}
        s_orig_after = _snapshot(orig)
        sc = _snapshot(cp)
        keys = ['data', 'fs', 'ts', 'meta', 'noise', 'rng', 'scal']
        for k in keys:
            if sc[k] != s0[k]:
                V('copy_differs', '%s of a %s frame: %s differs from the original' % (how, c['route'], k), site)
            if s_orig_after[k] != s0[k]:
                V('original_changed', 'taking a %s of a %s frame changed the original\'s %s' % (how, c['route'], k), site)
        if had_wf and s_orig_after['wf'] != s0['wf']:
            V('original_changed', 'taking a %s of a %s frame changed the ORIGINAL\'s attached Waterfall header (or detached it)' % (how, c['route']), site)
        if how == 'copy' and had_wf and (cp.waterfall is None or sc['wf'] != s0['wf']):
            V('copy_differs', 'copy of a %s frame: attached Waterfall header differs / missing' % c['route'], site)
        n = 0
        for m in MUTATIONS:
            for side in ('copy', 'orig'):
                a = mk()
                b = dup(a)
                if m == 'waterfall_header' and how == 'pickle' and side == 'copy':
                    pass
                sa, sb = _snapshot(a), _snapshot(b)
                tgt, other, so = (b, a, sa) if side == 'copy' else (a, b, sb)
                try:
                    _mutate(tgt, m)
                except Exception as e:
                    V('mutation_raised', '%s on the %s of a %s frame: %s: %s' % (m, side, c['route'], type(e).__name__, e), site)
                    continue
                n += 1
                s_after = _snapshot(other)
                if other.waterfall is not None and so['wf'] is None:
                    s_after['wf'] = None
                diff = [k for k in s_after if s_after[k] != so[k]]
                if diff:
                    V('not_isolated', '%s applied to the %s of a %s frame (%s) changed the other side\'s %s'
                      % (m, side, c['route'], how, diff), site)
    return {'viol': viol, 'n': 1 + n, 'nontrivial': [engine.sha(c)], 'outcomes': ['%s/%s' % (c['route'], how)]}


def case_seeds(c):
    import setigen as stg
    import setigen.voltage as sv
    viol = []
    s = c['seed']
    a = stg.Frame(fchans=8, tchans=4, seed=s).add_noise(1.0)
    b = stg.Frame(fchans=8, tchans=4, seed=s + 1).add_noise(1.0)
    a2 = stg.Frame(fchans=8, tchans=4, seed=s).add_noise(1.0)
    if np.array_equal(a, b):
        viol.append({'site': 'Frame', 'failure': 'same_noise_different_seeds', 'detail': 'frames with seeds %d and %d draw identical noise' % (s, s + 1)})
    if not np.array_equal(a, a2):
        viol.append({'site': 'Frame', 'failure': 'different_noise_same_seed', 'detail': 'frames with the same seed %d draw different noise' % s})
    # two frames created from ONE caller-held array with the same seed and the same calls are bit-identical, the first is
    # not changed while the second is filled, and the caller's array is left alone
    src = np.random.default_rng([s, 99]).chisquare(4, size=(4, 8))
    src0 = src.copy()
    f1 = stg.Frame.from_data(2.0, 1.0, 1e9, False, src, seed=s)
    f1.add_noise(3.0); f1.add_signal(f1.get_frequency(3), 2.0, stg.gaussian_f_profile(4.0))
    d1 = np.array(f1.data, copy=True)
    f2 = stg.Frame(data=src, df=2.0, dt=1.0, fch1=1e9, ascending=False, seed=s)
    f2.add_noise(3.0); f2.add_signal(f2.get_frequency(3), 2.0, stg.gaussian_f_profile(4.0))
    if not np.array_equal(f2.data, d1):
        viol.append({'site': 'Frame', 'failure': 'history_dependent', 'detail': 'two frames created from the same array with the same seed and calls differ'})
    if not np.array_equal(f1.data, d1):
        viol.append({'site': 'Frame', 'failure': 'not_isolated', 'detail': 'filling a second frame created from the same array changed the first frame'})
    if not np.array_equal(src, src0):
        viol.append({'site': 'Frame', 'failure': 'caller_array_modified', 'detail': 'the array a frame was created from was written into'})
    # two frames built from ONE blimpy Waterfall object (the caller's) are independent of each other and of that object
    try:
        from blimpy import Waterfall
        import contextlib as _cl, io as _io
        fnw = os.path.join(engine.workdir(), 'c12_wfshare_%d.fil' % s)
        # (both orientations of the file: a descending one is flipped on loading, an ascending one is used as it is)
        for asc_ in (False, True):
            with _cl.redirect_stdout(_io.StringIO()):
                src_fr = stg.Frame(fchans=f1.fchans, tchans=f1.tchans, df=f1.df, dt=f1.dt, fch1=(f1.fmin if asc_ else f1.fmax), ascending=asc_,
                                   data=np.array(f1.data, copy=True), t_start=86400.0 * 3)
                src_fr.save_fil(fnw)
                w = Waterfall(fnw)
                w0 = np.array(w.data, copy=True)
                fa = stg.Frame(waterfall=w, seed=s)
                fb = stg.Frame(waterfall=w, seed=s + 1)
                b0 = np.array(fb.data, copy=True)
                fa.add_noise(1.0e3)
                fa.add_signal(fa.get_frequency(2), 5.0, stg.gaussian_f_profile(4.0))
            if not np.array_equal(fb.data, b0):
                viol.append({'site': 'Frame', 'failure': 'not_isolated', 'detail': 'adding noise / a signal to one frame built from a Waterfall object (ascending=%s) changed a second frame built from the same object' % asc_})
            if not np.array_equal(np.asarray(w.data), w0):
                viol.append({'site': 'Frame', 'failure': 'caller_array_modified', 'detail': 'adding noise / a signal to a frame built from a Waterfall object (ascending=%s) wrote into that object\'s data' % asc_})
            os.remove(fnw)
    except Exception as e:
        viol.append({'site': 'Frame', 'failure': 'raised', 'detail': 'frames from one Waterfall object: %s: %s' % (type(e).__name__, e)})
    # two streams with different seeds and TWO noise sources each: no source of one may repeat a source of the other
    s1 = sv.DataStream(sample_rate=1e3, seed=s); s2 = sv.DataStream(sample_rate=1e3, seed=s + 1)
    for st in (s1, s2):
        st.add_noise(0, 1); st.add_noise(0, 1); st.add_noise(0, 1)
    v1, v2 = np.array(s1.get_samples(1024)), np.array(s2.get_samples(1024))
    cc = abs(float(np.corrcoef(v1, v2)[0, 1]))
    if cc > 0.3:       # independent streams: |r| ~ 0.03; one shared source out of three: r = 1/3 .. 2/3
        viol.append({'site': 'DataStream', 'failure': 'same_noise_different_seeds',
                     'detail': 'streams with seeds %d and %d and three noise sources each are correlated (|r| = %.3f over 1024 samples)' % (s, s + 1, cc)})
    ant = sv.Antenna(sample_rate=1e3, num_pols=2, seed=s)
    ant.x.add_noise(0, 1); ant.y.add_noise(0, 1)
    ant.x.add_noise(0, 1); ant.y.add_noise(0, 1)
    v = np.array(ant.get_samples(1024))
    if abs(float(np.corrcoef(v[0][0], v[0][1])[0, 1])) > 0.3:
        viol.append({'site': 'Antenna', 'failure': 'same_noise_xy', 'detail': 'x and y polarisations (two noise sources each) are correlated (seed %d)' % s})
    if np.array_equal(v[0][0], v[0][1]):
        viol.append({'site': 'Antenna', 'failure': 'same_noise_xy', 'detail': 'x and y polarisations draw identical noise (seed %d)' % s})
    arr = sv.MultiAntennaArray(num_antennas=3, sample_rate=1e3, num_pols=2, delays=[0, 0, 0], seed=s)
    for an in arr.antennas:
        an.x.add_noise(0, 1); an.y.add_noise(0, 1)
    for t in arr.bg_streams:
        t.add_noise(0, 1)
    w = np.array(arr.get_samples(16))
    rows = [w[i][p] for i in range(3) for p in range(2)]
    for i, j in itertools.combinations(range(len(rows)), 2):
        if np.array_equal(rows[i], rows[j]):
            viol.append({'site': 'MultiAntennaArray', 'failure': 'same_noise_antennas', 'detail': 'streams %d and %d of the array draw identical noise' % (i, j)})
    bx, by = np.array(arr.bg_x.v), np.array(arr.bg_y.v)
    if np.array_equal(bx, by):
        viol.append({'site': 'MultiAntennaArray', 'failure': 'same_noise_antennas', 'detail': 'background x and y draw identical noise'})
    return {'viol': viol, 'nontrivial': [engine.sha(c)], 'outcomes': ['seeds']}


def run(ctx):
    T = ctx.tier == 'thorough'
    depth = 3 if T else 2
    # baselines: one fresh interpreter per action (twice)
    base = {}
    cases = [dict(action=a) for a in ACTIONS]
    ctx.pmap(case_baseline_collect, cases, chunk=1)
    for a in ACTIONS:
        p = os.path.join(engine.tmproot(), 'baseline_%s.json' % a)
        with open(p) as f:
            base[a] = json.load(f)
    if base['E1']['digest'] == base['E2']['digest']:
        ctx.absorb({'n': 0, 'viol': [{'site': 'action:E1', 'failure': 'same_estimate_different_seeds', 'no_reexec': True,
                                      'params': {}, 'detail': 'estimate_channelized_stds gives the same estimate for seeds 21 and 22'}]})
    hists = []
    for d in range(1, depth + 1):
        for h in itertools.product(ACTIONS, repeat=d):
            hists.append(dict(history=list(h), baselines={h[-1]: base[h[-1]]}))
    if T:
        # depth 4 over the recording actions (the ones that share process-level state with each other)
        rec = [a for a in ACTIONS if a.startswith('R')]
        for h in itertools.product(rec, repeat=4):
            hists.append(dict(history=list(h), baselines={h[-1]: base[h[-1]]}))
    ctx.pmap(case_history, hists, chunk=2)
    copies = [dict(route=r, how=h, seed=ctx.seed) for r in ROUTES for h in ('copy', 'pickle')]
    ctx.pmap(case_copy, copies, chunk=1)
    ctx.pmap(case_seeds, [dict(seed=ctx.seed + k) for k in range(0, 40 if T else 12)], chunk=2)
    return ctx.finish(
        rule='all histories of length <= %d over the action alphabet %s, each run in a child forked from a pristine process and '
             'compared (last action) with that action alone in a fresh interpreter; states = distinct history prefixes, '
             'transitions = actions executed, traces = complete histories; plus copy/pickle of frames from %d construction '
             'routes x %d mutations x both sides, and seed-separation checks' % (depth, ACTIONS, len(ROUTES), len(MUTATIONS)),
        assumptions=['every randomness source is given a seed; wall-clock stage timers of the backend are not part of the result',
                     'file contents (headers included) are compared by SHA-256'],
        coverage_extra={'bounds': {'depth': depth, 'alphabet': ACTIONS, 'routes': ROUTES, 'mutations': MUTATIONS}})


def case_baseline_collect(c):
    r = case_baseline(c)
    p = os.path.join(engine.tmproot(), 'baseline_%s.json' % c['action'])
    with open(p, 'w') as f:
        json.dump(r.pop('baseline')[c['action']], f)
    return r
