"""
C06 -- Injection is additive, confined to its bounding range, preserves frame state.

E-HIST: every sequence of injections (depth <= 2 quick / 3 thorough) over a pool of signal forms x bounding
ranges, on real frames with four kinds of prior content (zeros, seeded noise, an earlier signal, float32
data loaded from a .fil file), both orientations.  Invariants after every transition (bit-exact where the
property is an identity): data delta == returned array; untouched outside the range; bounded == unbounded
restricted to the range; axes / noise estimates / metadata / random state unchanged; a rejected call leaves
everything identical.  At leaves: data == prior + sum of separately computed signals (superposition).
"""
import os, io, json, itertools, contextlib
import numpy as np

from mc import engine

PROPERTY = 'C06'
LEVEL = 'model_checking'

FCH, TCH, DF, DT = 16, 4, 2.0, 1.0

SIGNALS = ['gauss_drift', 'box_sine', 'array_forms', 'scalar_forms', 'int_path_t', 'int_f', 'smear', 'all_flags', 'smear_arrays', 'pulse_phase', 'int_f_bparr']
RANGES = ['none', 'inside', 'clip_low', 'clip_high', 'above', 'below', 'single', 'reversed']
BAD = ['bad_shape', 'bad_type', 'bad_cadence']


def mk_frame(prior, asc, seed, wd):
    import setigen as stg
    fch1 = 1000.0 if asc else 1000.0 + (FCH - 1) * DF
    fr = stg.Frame(fchans=FCH, tchans=TCH, df=DF, dt=DT, fch1=fch1, ascending=asc, seed=seed, t_start=100.0)
    if prior == 'noise':
        fr.add_noise(5.0)
    elif prior == 'signal':
        fr.add_signal(stg.constant_path(fr.get_frequency(4), 0.5), 2.0, stg.gaussian_f_profile(3.0))
        # ... and the frame under test is created FROM that array (C-contiguous float64), which the caller keeps
        arr = np.array(fr.data, dtype=float, order='C')
        fr = stg.Frame.from_data(DF, DT, fch1, asc, arr, seed=seed)
        fr._c06_src = (arr, arr.copy())
    elif prior == 'ints':
        # prior content handed over as an INTEGER array (counts, an 8-bit product): the frame holds it as floating point
        arr = (np.arange(TCH * FCH).reshape(TCH, FCH) % 17 + 3).astype(np.int64)
        fr = stg.Frame.from_data(DF, DT, fch1, asc, arr, seed=seed)
        fr._c06_src = (arr, arr.copy())
    elif prior == 'zeros':
        # empty, with negative zeros here and there ("bit-for-bit untouched" includes their sign)
        fr.data[::2, 1::2] = -0.0
    elif prior == 'fil':
        fr.add_noise(5.0)
        fn = os.path.join(wd, 'c06_%s_%d.fil' % (asc, seed))
        if not os.path.exists(fn):
            fr.save_fil(fn)
        fr = stg.Frame(waterfall=fn, seed=seed)
    return fr


def signal_args(fr, name):
    import setigen as stg
    f = fr.get_frequency
    ts = fr.ts
    if name == 'gauss_drift':
        return dict(path=stg.constant_path(f(5), 1.1), t_profile=stg.constant_t_profile(2.0), f_profile=stg.gaussian_f_profile(3.0))
    if name == 'box_sine':
        return dict(path=stg.constant_path(f(11), -1.5), t_profile=stg.sine_t_profile(3.0, phase=0.4, amplitude=0.5, level=1.5),
                    f_profile=stg.box_f_profile(3.0 * DF))
    if name == 'array_forms':
        return dict(path=np.array([f(2), f(3), f(3) + 0.5, f(5)]), t_profile=[1.0, 0.5, 2.0, 1.5], f_profile=stg.sinc2_f_profile(4.0 * DF))
    if name == 'scalar_forms':
        return dict(path=float(f(8)) + 0.3, t_profile=3, f_profile=stg.lorentzian_f_profile(2.5), bp_profile=0.5)
    if name == 'int_path_t':
        return dict(path=stg.sine_path(f(7), 0.2, 3.0, 2.0), t_profile=stg.sine_t_profile(2.5), f_profile=stg.gaussian_f_profile(2.0),
                    integrate_path=True, integrate_t_profile=True, t_subsamples=3)
    if name == 'int_f':
        return dict(path=stg.constant_path(f(6), 0.9), t_profile=1.0, f_profile=stg.gaussian_f_profile(1.5),
                    bp_profile=(lambda ff: 1.0 + 0.01 * (np.asarray(ff) - 1000.0)), integrate_f_profile=True, f_subsamples=2)
    if name == 'int_f_bparr':
        # a per-channel bandpass ARRAY together with sub-channel integration of the frequency profile
        return dict(path=stg.constant_path(f(7), -0.6), t_profile=2.0, f_profile=stg.gaussian_f_profile(2.2),
                    bp_profile=0.5 + 0.05 * np.arange(FCH), integrate_f_profile=True, f_subsamples=3)
    if name == 'smear':
        return dict(path=stg.constant_path(f(3), 2.6), t_profile=1.0, f_profile=stg.box_f_profile(1.0 * DF),
                    doppler_smearing=True, smearing_subsamples=3)
    if name == 'all_flags':
        return dict(path=stg.squared_path(f(4), 0.8), t_profile=stg.sine_t_profile(5.0), f_profile=stg.voigt_f_profile(2.0, 1.0),
                    bp_profile=stg.constant_bp_profile(0.9), integrate_path=True, integrate_t_profile=True, integrate_f_profile=True,
                    doppler_smearing=True, t_subsamples=2, f_subsamples=2, smearing_subsamples=2)
    if name == 'pulse_phase':
        # shipped time profile with a non-zero phase (seeded), time-varying path in the same call
        return dict(path=stg.sine_path(f(8), 0.3, 5.0, 1.5),
                    t_profile=stg.periodic_gaussian_t_profile(1.0, 2.0, phase=0.7, pulse_offset_width=0.2, seed=3),
                    f_profile=stg.gaussian_f_profile(2.0))
    if name == 'smear_arrays':
        # caller-owned float64 ndarrays for every component that accepts one
        return dict(path=np.array([f(9), f(9) + 1.5, f(10) + 0.5, f(12), f(12) + 0.25]), t_profile=np.array([1.0, 0.5, 2.0, 1.5]),
                    f_profile=stg.gaussian_f_profile(2.5), bp_profile=None, doppler_smearing=True, smearing_subsamples=3)
    if name == 'bad_cadence':
        return {}
    if name == 'bad_shape':
        return dict(path=f(5), t_profile=[1.0, 2.0], f_profile=stg.gaussian_f_profile(3.0))
    if name == 'bad_type':
        return dict(path='abc', t_profile=1.0, f_profile=stg.gaussian_f_profile(3.0))
    raise ValueError(name)


_EPS = [0.0]


_RFORM = [None]


def range_arg(rng_):
    """The bounding range in the form the caller holds it (sub-box): floats in Hz, astropy Quantities in MHz, a float and a
    Quantity in kHz, a list, a numpy array."""
    form = _RFORM[0]
    if rng_ is None or form is None:
        return rng_
    from astropy import units as u
    lo, hi = rng_
    if form == 'mhz':
        return (lo / 1e6 * u.MHz, hi / 1e6 * u.MHz)
    if form == 'mixed':
        return (lo, hi / 1e3 * u.kHz)
    if form == 'list':
        return [lo, hi]
    if form == 'array':
        return np.array([lo, hi])
    raise ValueError(form)


def range_of(fr, name):
    f0 = fr.get_frequency
    # every case shifts all bounds by its own tiny offset (<< df): the numeric range values are then unique to the
    # case, so a memo keyed on them can only have been filled by this case's own decoy frames (deterministic history)
    f = lambda i: f0(i) + _EPS[0]
    if name == 'none':
        return None
    return {'inside': (f(3), f(9)), 'clip_low': (f(0) - 5 * DF, f(4)), 'clip_high': (f(10), float('inf')),        # open-ended above (everything from channel 10 up)
           
            'above': (f(15) + 4 * DF, f(15) + 9 * DF), 'below': (f(0) - 9 * DF, f(0) - 3 * DF),
            'single': (f(6), f(7)), 'reversed': (f(9), f(3))}[name]


def snap(fr, noise=True):
    d = _snap(fr)
    if not noise:
        d.pop('nm'); d.pop('ns')
    return d


def _snap_nonoise(fr):
    return dict(fs=fr.fs.tobytes(), ts=fr.ts.tobytes(), shape=tuple(fr.shape),
                meta=json.dumps(fr.metadata, sort_keys=True, default=repr),
                rng=json.dumps(fr.rng.bit_generator.state, sort_keys=True, default=str),
                scal=repr((fr.df, fr.dt, fr.fch1, fr.ascending, fr.fmin, fr.fmax, fr.t_start, fr.fchans, fr.tchans)))


def _snap(fr):
    return dict(fs=fr.fs.tobytes(), ts=fr.ts.tobytes(), shape=tuple(fr.shape), nm=repr(fr.noise_mean), ns=repr(fr.noise_std),
                meta=json.dumps(fr.metadata, sort_keys=True, default=repr),
                rng=json.dumps(fr.rng.bit_generator.state, sort_keys=True, default=str),
                scal=repr((fr.df, fr.dt, fr.fch1, fr.ascending, fr.fmin, fr.fmax, fr.t_start, fr.fchans, fr.tchans)))


def col_masks(fr, rng_):
    """(must_untouched, must_equal_unbounded) column masks; columns within half a channel of a bound are undecided."""
    fs = fr.fs
    if rng_ is None:
        return np.zeros(FCH, bool), np.ones(FCH, bool)
    lo, hi = float(rng_[0]), float(rng_[1])
    if lo >= hi:
        return np.ones(FCH, bool), np.zeros(FCH, bool)
    eps = 1e-6 * DF
    out = (fs < lo - DF / 2 - eps) | (fs > hi + DF / 2 + eps)
    ins = (fs > lo + DF / 2 + eps) & (fs < hi - DF / 2 - eps)
    return out, ins


def inject(fr, step, V, wd, check=True, ctrl_noise=None):
    """One transition on the real frame.  Returns the returned signal (or None for a rejected call)."""
    sname, rname = step
    if sname == 'int_f_bparr':
        rname = 'none'        # a bandpass array has one entry per channel of the WHOLE band: this form is injected unbounded
    before = np.array(fr.data, copy=True)
    # the noise estimates are deliberately NOT read before the call (a lazily computed estimate would otherwise be
    # pinned by the harness itself); afterwards they must equal those of an untouched control frame (ctrl_noise)
    s0 = _snap_nonoise(fr)
    args = signal_args(fr, sname)
    caller_arrays = {k: (v, np.array(v, copy=True)) for k, v in args.items() if isinstance(v, np.ndarray)}
    rng_ = range_of(fr, rname)
    tag = '%s @ %s' % (sname, rname)
    try:
        if sname == 'bad_cadence':
            # the frame is the SECOND member of a cadence whose injection is rejected for it (time-profile array sized for the
            # first member only): the rejected injection must leave this frame exactly as it was
            import setigen as stg
            other = stg.Frame(fchans=fr.fchans, tchans=fr.tchans + 1, df=fr.df, dt=fr.dt, fch1=fr.fch1, ascending=fr.ascending,
                              seed=5, t_start=fr.t_start - 100.0)
            stg.Cadence([other, fr]).add_signal(stg.constant_path(fr.get_frequency(5), 0.3), np.ones(fr.tchans + 1),
                                               stg.gaussian_f_profile(3.0))
            sig = np.zeros(fr.shape)
        else:
            sig = fr.add_signal(bounding_f_range=range_arg(rng_), **args)
    except Exception as e:
        if sname in BAD:
            if check:
                if not np.array_equal(fr.data, before, equal_nan=True) or _snap_nonoise(fr) != s0:
                    V('rejected_call_changed_state', '%s: rejected with %s but the frame changed' % (tag, type(e).__name__))
                want = TypeError if sname == 'bad_type' else ValueError
                if not isinstance(e, want):
                    V('rejection_type', '%s raised %s, expected %s' % (tag, type(e).__name__, want.__name__))
            return None
        if check:
            V('injection_raised', '%s: %s: %s' % (tag, type(e).__name__, e))
        return None
    if sname in BAD:
        if check:
            V('bad_input_accepted', '%s was accepted' % tag)
        return None
    if not check:
        return sig
    if np.shape(sig) != tuple(fr.shape):
        V('returned_shape', '%s: returned shape %s, frame %s' % (tag, np.shape(sig), fr.shape))
        return sig
    s1 = _snap_nonoise(fr)
    diff = [k for k in s0 if s0[k] != s1[k]]
    if ctrl_noise is not None and (repr(fr.noise_mean), repr(fr.noise_std)) != ctrl_noise:
        diff.append('noise estimates (%s, %s) != untouched control frame %s' % (repr(fr.noise_mean), repr(fr.noise_std), ctrl_noise))
    if diff:
        V('state_changed', '%s changed the frame\'s %s' % (tag, diff))
    for k, (obj, cp) in caller_arrays.items():
        if not np.array_equal(obj, cp):
            V('caller_array_modified', '%s: the caller\'s %s array was modified by the call (%s -> %s)' % (tag, k, cp[:3], obj[:3]))
    after = fr.data
    if after.dtype != before.dtype or after.shape != before.shape:
        V('data_container_changed', '%s: data dtype/shape %s%s -> %s%s' % (tag, before.dtype, before.shape, after.dtype, after.shape))
        return sig
    # (i) additivity: the data changed by exactly the returned array
    if before.dtype == np.float64:
        if not np.array_equal(after, before + sig):
            k = np.unravel_index(int(np.argmax(np.abs(after - (before + sig)))), after.shape)
            V('not_additive', '%s: data_after != data_before + returned at %s: %r vs %r + %r' % (tag, k, after[k], before[k], sig[k]))
    else:
        want = (before.astype(np.float64) + sig)
        tol = np.spacing(np.abs(want).astype(before.dtype)).astype(np.float64) * 1.01
        if np.any(np.abs(after.astype(np.float64) - want) > tol):
            V('not_additive', '%s: %s data_after differs from round(data_before + returned) by more than one ulp' % (tag, before.dtype))
    # (iv)/(ii) confinement
    out, ins = col_masks(fr, rng_)
    if np.any(sig[:, out] != 0):
        j = int(np.nonzero(np.any(sig[:, out] != 0, axis=0))[0][0])
        V('signal_outside_range', '%s: returned signal is non-zero in column %d (of the %d columns wholly outside the requested range %s)'
          % (tag, int(np.nonzero(out)[0][j]), int(out.sum()), rng_))
    if np.ascontiguousarray(after[:, out]).tobytes() != np.ascontiguousarray(before[:, out]).tobytes():
        # bit for bit: also the sign of a zero
        same_values = np.array_equal(after[:, out], before[:, out])
        V('touched_outside_range', '%s: data outside the requested range changed%s' % (tag, ' (bit pattern only: the sign of zeros)' if same_values else ''))
    src = getattr(fr, '_c06_src', None)
    if src is not None and not np.array_equal(src[0], src[1]):
        V('source_array_modified', '%s: the array the frame was created from (still held by the caller) was written into' % tag)
    if rng_ is not None and ins.any():
        twin = mk_frame('zeros', fr.ascending, 1, wd)
        try:
            full = twin.add_signal(**signal_args(twin, sname))
            scale = max(float(np.abs(full).max()), 1e-300)
            if not np.allclose(sig[:, ins], full[:, ins], rtol=1e-9, atol=1e-9 * scale):
                k = int(np.nonzero(ins)[0][int(np.argmax(np.abs(sig[:, ins] - full[:, ins]).max(axis=0)))])
                V('bounded_differs_from_unbounded', '%s: bounded result differs from the unbounded result inside the range (column %d)' % (tag, k))
        except Exception as e:
            V('injection_raised', '%s (unbounded twin): %s: %s' % (sname, type(e).__name__, e))
    return sig


def case_sequences(c):
    viol = []
    hist_box = [None]

    def V(failure, detail, site='Frame.add_signal'):
        viol.append({'site': site, 'failure': failure, 'detail': detail, 'params': dict(c, history=hist_box[0])})
    wd = engine.workdir()
    prior, asc, depth = c['prior'], c['asc'], c['depth']
    steps = [(s, r) for s in SIGNALS for r in RANGES] + [(b, 'none') for b in BAD] + [(BAD[0], 'inside')]
    # separately computed signals on a zero twin (for the superposition check)
    solo = {}
    _EPS[0] = (int(engine.sha([c['prior'], c['asc'], c['first'], c['depth']]), 16) % 100000) * 1e-9
    _RFORM[0] = c.get('rform')
    with contextlib.redirect_stdout(io.StringIO()):
        # Deterministic process history: OTHER frames (different channel count, resolution, band edge, orientation) are
        # injected with numerically the same bounding ranges first, so that anything memoised at class/module level on
        # the range alone is poisoned in the same way in every process.
        import setigen as stg
        ref_fr = mk_frame('zeros', asc, 1, wd)
        for (nch, df_, f1, a_) in ((7, 3.0, 985.0, True), (23, 0.5, 1040.0, False)):
            for rn in RANGES:
                dec = stg.Frame(fchans=nch, tchans=2, df=df_, dt=1.0, fch1=f1, ascending=a_, seed=1, t_start=0.0)
                try:
                    dec.add_signal(1000.0, 1.0, stg.box_f_profile(4.0), bounding_f_range=range_of(ref_fr, rn))
                except Exception:
                    pass
        for st in steps:
            if st[0] in BAD:
                continue
            tw = mk_frame('zeros', asc, 1, wd)
            try:
                solo[st] = tw.add_signal(bounding_f_range=range_of(tw, st[1]), **signal_args(tw, st[0]))
            except Exception:
                solo[st] = None
        first = c['first']
        res = {'viol': viol, 'n': 0, 'traces': 0, 'transitions': 0, 'state_keys': set()}
        base = mk_frame(prior, asc, 7 + c['seed'], wd)
        prior_data = np.array(base.data, copy=True).astype(np.float64)
        ctrl_noise = (repr(base.noise_mean), repr(base.noise_std))      # control frame: estimates read before any injection
        res['state_keys'].add(engine.sha([prior, asc, 'init']))
        for rest in itertools.product(range(len(steps)), repeat=depth - 1):
            hist = [steps[first]] + [steps[k] for k in rest]
            fr = mk_frame(prior, asc, 7 + c['seed'], wd)
            applied = []
            held = []          # the arrays add_signal returned, kept WITHOUT copying (as a caller would), + a private copy
            ok = True
            for d, st in enumerate(hist):
                hist_box[0] = [list(h) for h in hist[:d + 1]]
                # a prefix is verified once: in the sequence where everything after it is step 0 (or it is the last step)
                check = (d == len(hist) - 1) or all(k == 0 for k in rest[d:])
                nv = len(viol)
                sig = inject(fr, st, V, wd, check=check, ctrl_noise=ctrl_noise)
                if sig is not None:
                    held.append((sig, np.array(sig, copy=True)))
                res['transitions'] += 1 if check else 0
                if len(viol) > nv:
                    ok = False
                    break
                if sig is not None:
                    applied.append(st)
            res['n'] += 1
            res['traces'] += 1
            if not ok:
                if len(viol) >= 4:
                    break
                continue
            # arrays returned by earlier injections must not be overwritten by later ones
            for hi, (obj, cp) in enumerate(held):
                if obj.shape != cp.shape or not np.array_equal(obj, cp):
                    V('returned_array_overwritten', 'the array returned by injection %d of %s was modified by a later injection' % (hi, hist))
                    ok = False
                    break
            if not ok:
                continue
            # superposition at the leaf
            if all(solo.get(st) is not None for st in applied):
                want = prior_data.copy()
                for st in applied:
                    want = want + solo[st]
                got = fr.data.astype(np.float64)
                scale = max(float(np.abs(want).max()), 1e-300)
                tol = 1e-12 * scale if fr.data.dtype == np.float64 else 4e-7 * scale * (len(applied) + 1)
                if not np.allclose(got, want, rtol=0, atol=tol):
                    V('superposition', 'after %s the data is not prior + sum of the separately computed signals (max diff %.3g)'
                      % (hist, float(np.abs(got - want).max())))
            res['state_keys'].add(engine.sha([prior, asc, fr.data.tobytes().hex()[:64], float(fr.data.sum())]))
    res['state_keys'] = sorted(res['state_keys'])
    res['nontrivial'] = [engine.sha(c)]
    res['outcomes'] = ['%s/%s' % (prior, asc)]
    return res


def run(ctx):
    T = ctx.tier == 'thorough'
    depth = 3 if T else 2
    nsteps = len(SIGNALS) * len(RANGES) + len(BAD) + 1
    cases = []
    for prior in ('zeros', 'noise', 'signal', 'fil', 'ints'):
        for asc in (True, False):
            for first in range(nsteps):
                cases.append(dict(prior=prior, asc=asc, depth=depth, first=first, seed=ctx.seed))
    # (sub-box) the bounding range handed over as Quantities in MHz / a float and a kHz Quantity / a list / an array
    cases += [dict(cc, rform=rf) for cc in cases if cc['prior'] == 'noise' and cc['asc'] and cc['first'] < len(SIGNALS) * len(RANGES)
              and cc['first'] % len(RANGES) in (1, 2) for rf in ('mhz', 'mixed', 'list', 'array')]
    ctx.pmap(case_sequences, cases, chunk=1)
    return ctx.finish(
        rule='all injection sequences of length %d over %d steps (%d signal forms x %d bounding ranges + rejected calls) x 4 prior '
             'contents x 2 orientations; one case per (prior, orientation, first step); transitions = injections checked, traces = '
             'complete sequences, states = distinct data digests' % (depth, nsteps, len(SIGNALS), len(RANGES)),
        assumptions=['columns whose centre is within half a channel of a requested bound are not decided (rule 2)',
                     'float32 data (loaded from .fil): delta compared within one float32 ulp of the float64 sum',
                     'superposition compared at 1e-12 of the data scale (float addition is not associative)'],
        coverage_extra={'bounds': {'depth': depth, 'signals': SIGNALS, 'ranges': RANGES, 'frame': [TCH, FCH]}})
