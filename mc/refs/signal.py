"""
mc.refs.signal -- scalar, pointwise reference model of setigen's signal injection.

Written from the property statement (C01) and the docstrings of ``Frame.add_signal`` and of
``setigen/funcs/*.py`` -- NOT from the code.  Everything is evaluated one scalar at a time with
``math``; no meshgrids, no broadcasting, no reshaping.

What is modelled
----------------
The injected array has, at time row ``i`` and frequency column ``j``,

    S[i][j] = T_i * mean_{c, s} ( F(f_j + s*df/m, P_i + c*(P_{i+1}-P_i)/n) * B(f_j + s*df/m) )

with

* ``f_j``, ``t_i``: the frame's OWN axes (``frame.fs``, ``frame.ts``); the extra time used by Doppler
  smearing is ``t_tchans = ts[-1] + dt`` ("ending timestamp", ``Frame.ts_ext``);
* ``P_i``  = ``path(t_i)``, or with ``integrate_path`` the left-Riemann mean of
  ``path(t_i + s*dt/k)``, ``s = 0..k-1`` (``k = t_subsamples``);
* ``T_i``  = ``t_profile(t_i)``, or with ``integrate_t_profile`` the same left-Riemann mean;
* ``s`` runs over ``0..m-1`` (``m = f_subsamples``) only with ``integrate_f_profile``
  (left-Riemann mean of profile x bandpass over the channel starting at ``f_j``), else ``s = 0``;
* ``c`` runs over ``0..n-1`` (``n = smearing_subsamples``) only with ``doppler_smearing`` ("the mean
  over n copies whose centres are spaced evenly between path(t_i) and path(t_{i+1})"), else ``c = 0``.

All sub-sample time grids are expressed RELATIVE TO THE FRAME'S OWN ``ts`` (``ts[i] + s*dt/k``), so
the same reference serves frames whose time axis does not start at 0 (cadence injection, C16).

Components given as arrays are indexed (``P_i = path[i]``, ``T_i = t_profile[i]``,
``B = bp[j]`` for every sub-sample of channel ``j``); scalars are constants.  For those forms the
sub-sample means are means of a constant, i.e. the value itself.

Component descriptions ("specs")
--------------------------------
Every component is described by a small JSON-able dict with absolute numbers (Hz, s), so that a
replay file is self-contained.  ``impl_*`` turns a spec into the argument handed to the real
``Frame.add_signal`` (through setigen's public constructors), ``ref_*`` turns the same spec into
the independent scalar model:

    path       constant_path | squared_path | sine_path | simple_rfi_path | custom | array | list |
               float | int
    t_profile  constant_t_profile | sine_t_profile | periodic_gaussian_t_profile | custom | array |
               list | float | int
    f_profile  box_f_profile | gaussian_f_profile | multiple_gaussian_f_profile |
               lorentzian_f_profile | voigt_f_profile | sinc2_f_profile | custom
    bp_profile none | constant_bp_profile | custom | array | list | float | int

``custom`` = a named plain-Python callable from ``CUSTOM`` (the reference calls the very same
callable with Python scalars; the implementation calls it with arrays).

Seeded families (``simple_rfi_path`` with non-zero spread, ``periodic_gaussian_t_profile`` with
timing jitter, random direction or an even ``pnum``) draw from a generator whenever they are called,
so their values are only defined per call: the reference evaluates an identically seeded TWIN exactly
once on the documented grid (``ts`` / ``ts_ext`` / the sub-sample grid).  Where the draws cannot
matter (zero spread; zero ``pulse_offset_width`` with direction up/down and odd ``pnum``) an
independent closed form is used instead, so the family itself is checked there.

Soundness helpers (DESIGN section 3): every frequency-profile model reports whether an argument lies
within ``eps`` of a step (box edge, truncation point) -> the pixel is *ambiguous*; every model carries
a Lipschitz bound ``lip`` so the caller can scale its tolerance to the conditioning
(``ulp(6 GHz) ~ 1e-6 Hz`` is not small against a 0.8 Hz wide Gaussian).
"""
import math
import numpy as np

FWHM_TO_SIGMA = 2.0 * math.sqrt(2.0 * math.log(2.0))     # FWHM = 2 sqrt(2 ln 2) sigma


def _ulp(x):
    x = abs(float(x))
    return 5e-324 if x == 0 else float(np.spacing(x))


def _mean(vals):
    return math.fsum(vals) / len(vals)


# ------------------------------------------------------------------------------------------------
# custom callables (shared by implementation and reference; reference calls them with scalars)
# ------------------------------------------------------------------------------------------------
def _custom_cubic_path(p):
    f0, a, b = p['f0'], p['a'], p['b']
    return lambda t: f0 + a * t + b * t * t * t


def _custom_cos_t(p):
    level, amp, w = p['level'], p['amp'], p['w']
    return lambda t: level + amp * np.cos(w * t)


def _custom_logistic_f(p):
    w = p['w']          # asymmetric in (f - f_center): distinguishes f_profile(f, fc) from f_profile(fc, f)
    return lambda f, fc: 0.5 * (1.0 + np.tanh((f - fc) / w))


def _custom_ramp_bp(p):
    f_ref, slope, level = p['f_ref'], p['slope'], p['level']
    return lambda f: level + slope * (f - f_ref)


def _custom_steps_uint_path(p):
    # whole-Hz centre frequencies read off an UNSIGNED integer table: f0 + step * (number of whole dt elapsed), step < 0 allowed
    f0, step, dt = int(p['f0']), int(p['step']), float(p['dt'])
    return lambda t: (f0 + step * np.round(np.asarray(t, dtype=float) / dt)).astype(np.uint64)


CUSTOM = {
    'cubic_path': _custom_cubic_path,
    'steps_uint_path': _custom_steps_uint_path,
    'cos_t': _custom_cos_t,
    'logistic_f': _custom_logistic_f,
    'ramp_bp': _custom_ramp_bp,
}


# ------------------------------------------------------------------------------------------------
# implementation-side arguments from a spec
# ------------------------------------------------------------------------------------------------
def _impl_common(spec):
    k = spec['kind']
    if k == 'custom':
        return CUSTOM[spec['name']](spec['params'])
    if k == 'array':
        return np.array(spec['values'], dtype=spec.get('dtype', 'float64'))
    if k == 'list':
        return list(spec['values'])
    if k in ('float', 'int') and spec.get('np'):
        # the scalar in another numeric type (numpy scalar of another width, 0-d array); values are exact in those types
        return np.array(float(spec['value'])) if spec['np'] == '0d' else np.dtype(spec['np']).type(spec['value'])
    if k == 'float':
        return float(spec['value'])
    if k == 'int':
        return int(spec['value'])
    raise KeyError(k)


def _Q(spec, key, kind):
    """The parameter as the implementation receives it: a plain number, or -- when the spec asks for unit-carrying
    arguments -- an astropy Quantity in a unit OTHER than the SI base (MHz / kHz / mHz per second / ms), so that every
    unit conversion the shipped families promise is exercised."""
    v = spec[key]
    if not spec.get('units'):
        return v
    from astropy import units as u
    if kind == 'f_abs':
        return (v * 1e-6) * u.MHz
    if kind == 'f_rel':
        return (v * 1e-3) * u.kHz
    if kind == 'drift':
        return (v * 1e3) * u.mHz / u.s
    if kind == 'time':
        return (v * 1e3) * u.ms
    raise KeyError(kind)


def impl_path(spec):
    import setigen as stg
    k = spec['kind']
    if k == 'constant_path':
        return stg.constant_path(f_start=_Q(spec, 'f_start', 'f_abs'), drift_rate=_Q(spec, 'drift_rate', 'drift'))
    if k == 'squared_path':
        return stg.squared_path(f_start=_Q(spec, 'f_start', 'f_abs'), drift_rate=_Q(spec, 'drift_rate', 'drift'))
    if k == 'sine_path':
        return stg.sine_path(f_start=_Q(spec, 'f_start', 'f_abs'), drift_rate=_Q(spec, 'drift_rate', 'drift'),
                             period=_Q(spec, 'period', 'time'), amplitude=_Q(spec, 'amplitude', 'f_rel'))
    if k == 'simple_rfi_path':
        return stg.simple_rfi_path(f_start=_Q(spec, 'f_start', 'f_abs'), drift_rate=_Q(spec, 'drift_rate', 'drift'),
                                   spread=_Q(spec, 'spread', 'f_rel'), spread_type=spec['spread_type'],
                                   rfi_type=spec['rfi_type'], seed=spec['seed'])
    return _impl_common(spec)


def impl_t_profile(spec):
    import setigen as stg
    k = spec['kind']
    if k == 'constant_t_profile':
        return stg.constant_t_profile(level=spec['level'])
    if k == 'sine_t_profile':
        return stg.sine_t_profile(period=_Q(spec, 'period', 'time'), phase=spec['phase'],
                                  amplitude=spec['amplitude'], level=spec['level'])
    if k == 'periodic_gaussian_t_profile':
        pn = spec['pnum'] if not spec.get('pnum_np') else np.dtype(spec['pnum_np']).type(spec['pnum'])
        kw = dict(pulse_width=_Q(spec, 'pulse_width', 'time'), period=_Q(spec, 'period', 'time'), phase=_Q(spec, 'phase', 'time'),
                  pulse_offset_width=_Q(spec, 'pulse_offset_width', 'time'), pulse_direction=spec['pulse_direction'],
                  pnum=pn, amplitude=spec['amplitude'], level=spec['level'], seed=spec['seed'])
        if spec.get('min_level') is not None:
            kw['min_level'] = spec['min_level']          # None: the documented default floor (0) is left to the library
        return stg.periodic_gaussian_t_profile(**kw)
    return _impl_common(spec)


def impl_f_profile(spec):
    import setigen as stg
    k = spec['kind']
    if k == 'box_f_profile':
        return stg.box_f_profile(width=_Q(spec, 'width', 'f_rel'))
    if k == 'gaussian_f_profile':
        return stg.gaussian_f_profile(width=_Q(spec, 'width', 'f_rel'))
    if k == 'multiple_gaussian_f_profile':
        return stg.multiple_gaussian_f_profile(width=_Q(spec, 'width', 'f_rel'))
    if k == 'lorentzian_f_profile':
        return stg.lorentzian_f_profile(width=_Q(spec, 'width', 'f_rel'))
    if k == 'voigt_f_profile':
        return stg.voigt_f_profile(g_width=_Q(spec, 'g_width', 'f_rel'), l_width=_Q(spec, 'l_width', 'f_rel'))
    if k == 'sinc2_f_profile':
        return stg.sinc2_f_profile(width=_Q(spec, 'width', 'f_rel'), width_mode=spec['width_mode'], trunc=spec['trunc'])
    return _impl_common(spec)


def impl_bp_profile(spec):
    import setigen as stg
    k = spec['kind']
    if k == 'none':
        return None
    if k == 'constant_bp_profile':
        return stg.constant_bp_profile(level=spec['level'])
    return _impl_common(spec)


# ------------------------------------------------------------------------------------------------
# reference: components that depend on time (path, t_profile)
# ------------------------------------------------------------------------------------------------
class TimeComponent(object):
    """
    form == 'callable':  ``on_grid(tgrid)`` -> (list of float values, list of bool 'undecided')
                         evaluated ONCE on the whole documented grid (matters for seeded twins);
    form == 'array':     ``values`` (indexed by the time row);
    form == 'scalar':    ``value``.
    ``closed_form`` tells whether the values come from an independent formula (True) or from an
    identically seeded twin of the shipped function / the custom callable itself (False).
    """
    form = 'callable'
    closed_form = True

    def at(self, t):            # scalar closed form; overridden
        raise NotImplementedError

    def on_grid(self, tgrid):
        vals, und = [], []
        for t in tgrid:
            v = self.at(float(t))
            if isinstance(v, tuple):
                vals.append(v[0]); und.append(v[1])
            else:
                vals.append(v); und.append(False)
        return vals, und


class _Array(TimeComponent):
    form = 'array'

    def __init__(self, values):
        self.values = [float(v) for v in values]


class _Scalar(TimeComponent):
    form = 'scalar'

    def __init__(self, value):
        self.value = float(value)


class _Custom(TimeComponent):
    closed_form = False

    def __init__(self, fn):
        self.fn = fn

    def at(self, t):
        return float(self.fn(t))


class _Twin(TimeComponent):
    """Identically seeded twin of a shipped seeded family, evaluated once per ``on_grid`` call."""
    closed_form = False

    def __init__(self, factory):
        self.factory = factory

    def on_grid(self, tgrid):
        fn = self.factory()
        out = np.asarray(fn(np.array([float(t) for t in tgrid], dtype=float)), dtype=float)
        return [float(v) for v in out], [False] * len(tgrid)


# -- paths ("map out the path of a signal as a function of time") ---------------------------------
class _ConstantPath(TimeComponent):
    """constant_path: "Constant drift rate" from a "starting center frequency"."""
    def __init__(self, f_start, drift_rate):
        self.f0, self.a = float(f_start), float(drift_rate)

    def at(self, t):
        return self.f0 + self.a * t


class _SquaredPath(TimeComponent):
    """squared_path: "Quadratic signal path": constant rate of change `drift_rate` of the drift,
    starting at rest at f_start: f_start + drift_rate t^2 / 2."""
    def __init__(self, f_start, drift_rate):
        self.f0, self.a = float(f_start), float(drift_rate)

    def at(self, t):
        return self.f0 + self.a * t * t / 2.0


class _SinePath(TimeComponent):
    """sine_path: linear drift plus a sine of the given "modulation period / amplitude"."""
    def __init__(self, f_start, drift_rate, period, amplitude):
        self.f0, self.a, self.p, self.amp = float(f_start), float(drift_rate), float(period), float(amplitude)

    def at(self, t):
        return self.f0 + self.a * t + self.amp * math.sin(2.0 * math.pi * t / self.p)


def ref_path(spec):
    k = spec['kind']
    if k == 'constant_path':
        return _ConstantPath(spec['f_start'], spec['drift_rate'])
    if k == 'squared_path':
        return _SquaredPath(spec['f_start'], spec['drift_rate'])
    if k == 'sine_path':
        return _SinePath(spec['f_start'], spec['drift_rate'], spec['period'], spec['amplitude'])
    if k == 'simple_rfi_path':
        if spec['spread'] == 0:
            # "only offsets with respect to a straight-line path": zero spread = the straight line
            # (a random walk of zero steps is also the straight line)
            return _ConstantPath(spec['f_start'], spec['drift_rate'])
        return _Twin(lambda: impl_path(spec))
    return _ref_common(spec)


# -- time profiles --------------------------------------------------------------------------------
class _ConstantT(TimeComponent):
    def __init__(self, level):
        self.level = float(level)

    def at(self, t):
        return self.level


class _SineT(TimeComponent):
    """sine_t_profile: "Intensity varying as a sine curve" about the "mean intensity level";
    phase is a time offset (same unit as t)."""
    def __init__(self, period, phase, amplitude, level):
        self.p, self.ph, self.amp, self.level = float(period), float(phase), float(amplitude), float(level)

    def at(self, t):
        return self.level + self.amp * math.sin(2.0 * math.pi * (t + self.ph) / self.p)


class _PeriodicGaussianT(TimeComponent):
    """
    periodic_gaussian_t_profile without randomness (zero timing jitter, fixed direction, odd pnum):
    Gaussian pulses of FWHM `pulse_width`, one per `period`, located where the baseline sine
    modulation of the same period and phase has its maxima ((k + 1/4) period - phase); the `pnum`
    pulses nearest to t are summed (odd pnum: the nearest one and (pnum-1)/2 on either side),
    added to (up) or subtracted from (down) `level`, floored at `min_level`.
    A time within TIE of the midpoint between two pulses is reported undecided (which pulses are
    the nearest is a rounding tie).
    """
    TIE = 1e-9

    def __init__(self, spec):
        self.sigma = float(spec['pulse_width']) / FWHM_TO_SIGMA
        self.p, self.ph = float(spec['period']), float(spec['phase'])
        self.pnum = int(spec['pnum'])
        self.sign = {'up': 1.0, 'down': -1.0}[spec['pulse_direction']]
        self.amp, self.level = float(spec['amplitude']), float(spec['level'])
        self.floor = 0.0 if spec.get('min_level') is None else float(spec['min_level'])

    def at(self, t):
        y = (t + self.ph) / self.p - 0.25
        k0 = math.floor(y + 0.5)
        undecided = abs(abs(y - math.floor(y)) - 0.5) <= self.TIE
        h = self.pnum // 2
        tot = 0.0
        for k in range(k0 - h, k0 + h + 1):
            c = (k + 0.25) * self.p - self.ph
            tot += math.exp(-(t - c) ** 2 / (2.0 * self.sigma ** 2))
        v = self.level + self.sign * self.amp * tot
        return max(self.floor, v), undecided        # max() is continuous: nothing to mask at the floor


def ref_t_profile(spec):
    k = spec['kind']
    if k == 'constant_t_profile':
        return _ConstantT(spec['level'])
    if k == 'sine_t_profile':
        return _SineT(spec['period'], spec['phase'], spec['amplitude'], spec['level'])
    if k == 'periodic_gaussian_t_profile':
        if (spec['pulse_offset_width'] == 0 and spec['pulse_direction'] in ('up', 'down')
                and spec['pnum'] % 2 == 1):
            return _PeriodicGaussianT(spec)
        return _Twin(lambda: impl_t_profile(spec))
    return _ref_common(spec)


def _ref_common(spec):
    k = spec['kind']
    if k == 'custom':
        return _Custom(CUSTOM[spec['name']](spec['params']))
    if k in ('array', 'list'):
        return _Array(spec['values'])
    if k in ('float', 'int'):
        return _Scalar(spec['value'])
    raise KeyError(k)


# ------------------------------------------------------------------------------------------------
# reference: frequency profiles  F(f, f_center)
# ------------------------------------------------------------------------------------------------
def _sinc(u):
    """Normalised sinc, sin(pi u)/(pi u)."""
    if u == 0.0:
        return 1.0
    x = math.pi * u
    return math.sin(x) / x


def _solve_half_sinc2():
    """u in (0, 1) with sinc(u)^2 = 1/2 (half of the FWHM of sinc^2), by bisection."""
    lo, hi = 0.0, 1.0
    for _ in range(200):
        mid = (lo + hi) / 2.0
        if _sinc(mid) ** 2 > 0.5:
            lo = mid
        else:
            hi = mid
    return (lo + hi) / 2.0


SINC2_HALF = _solve_half_sinc2()      # 0.44294647...


class FProfile(object):
    """
    value(f, fc) -> float;  undecided(f, fc, eps) -> True when (f - fc) is within eps of a step of
    the profile;  peak = sup |value|;  lip = bound on |d value / d f| away from the steps.
    """
    peak = 1.0
    lip = 0.0
    closed_form = True

    def value(self, f, fc):
        raise NotImplementedError

    def undecided(self, f, fc, eps):
        return False


class _Box(FProfile):
    """box_f_profile: "Square intensity profile", total width `width` centred on f_center."""
    def __init__(self, width):
        self.h = float(width) / 2.0

    def value(self, f, fc):
        return 1.0 if abs(f - fc) < self.h else 0.0

    def undecided(self, f, fc, eps):
        return abs(abs(f - fc) - self.h) <= eps


class _Gaussian(FProfile):
    """gaussian_f_profile: unit-peak Gaussian whose FWHM is `width`."""
    def __init__(self, width):
        self.sigma = float(width) / FWHM_TO_SIGMA
        self.lip = 2.0 / (float(width) / 2.0)

    def value(self, f, fc):
        return math.exp(-(f - fc) ** 2 / (2.0 * self.sigma ** 2))


class _MultipleGaussian(FProfile):
    """multiple_gaussian_f_profile: the Gaussian plus two quarter-intensity copies 100 Hz either side."""
    peak = 1.5

    def __init__(self, width):
        self.sigma = float(width) / FWHM_TO_SIGMA
        self.lip = 3.0 / (float(width) / 2.0)

    def value(self, f, fc):
        s2 = 2.0 * self.sigma ** 2
        x = f - fc
        return (math.exp(-x ** 2 / s2) + 0.25 * math.exp(-(x - 100.0) ** 2 / s2)
                + 0.25 * math.exp(-(x + 100.0) ** 2 / s2))


class _Lorentzian(FProfile):
    """lorentzian_f_profile: unit-peak Lorentzian whose FWHM is `width`."""
    def __init__(self, width):
        self.g = float(width) / 2.0
        self.lip = 2.0 / self.g

    def value(self, f, fc):
        return 1.0 / (1.0 + ((f - fc) / self.g) ** 2)


class _Voigt(FProfile):
    """voigt_f_profile: convolution of a Gaussian (FWHM g_width) and a Lorentzian (FWHM l_width),
    normalised to 1 at the centre.  scipy.special.voigt_profile is the documented pdf of exactly that
    convolution (it reduces to the Cauchy / normal pdf for sigma = 0 / gamma = 0); it is cross-checked
    against a direct numerical convolution in ``selftest``."""
    def __init__(self, g_width, l_width):
        self.sigma = float(g_width) / FWHM_TO_SIGMA
        self.gamma = float(l_width) / 2.0
        from scipy.special import voigt_profile
        self._vp = voigt_profile
        self._v0 = float(voigt_profile(0.0, self.sigma, self.gamma))
        # a convolution is at least as wide as its wider component (half-width h); the slope of a
        # unit-height bell of half-width h stays below 2/h
        h = max(float(g_width), float(l_width)) / 2.0
        self.lip = 2.0 / h

    def value(self, f, fc):
        return float(self._vp(f - fc, self.sigma, self.gamma)) / self._v0


class _Sinc2(FProfile):
    """sinc2_f_profile: squared normalised sinc.  width_mode 'crossing': `width` is the distance
    between the first zero crossings (width = 2 df models an ideal cosine); 'fwhm': `width` is the
    FWHM of sinc^2.  trunc: zero beyond the first root."""
    def __init__(self, width, width_mode, trunc):
        if width_mode == 'fwhm':
            self.zc = (float(width) / 2.0) / SINC2_HALF
        elif width_mode == 'crossing':
            self.zc = float(width) / 2.0
        else:
            raise KeyError(width_mode)
        self.trunc = bool(trunc)
        self.lip = 4.0 / self.zc

    def value(self, f, fc):
        x = f - fc
        if self.trunc and not abs(x) < self.zc:
            return 0.0
        return _sinc(x / self.zc) ** 2

    def undecided(self, f, fc, eps):
        return self.trunc and abs(abs(f - fc) - self.zc) <= eps


class _CustomF(FProfile):
    closed_form = False

    def __init__(self, fn, lip, peak):
        self.fn, self.lip, self.peak = fn, lip, peak

    def value(self, f, fc):
        return float(self.fn(f, fc))


def ref_f_profile(spec):
    k = spec['kind']
    if k == 'box_f_profile':
        return _Box(spec['width'])
    if k == 'gaussian_f_profile':
        return _Gaussian(spec['width'])
    if k == 'multiple_gaussian_f_profile':
        return _MultipleGaussian(spec['width'])
    if k == 'lorentzian_f_profile':
        return _Lorentzian(spec['width'])
    if k == 'voigt_f_profile':
        return _Voigt(spec['g_width'], spec['l_width'])
    if k == 'sinc2_f_profile':
        return _Sinc2(spec['width'], spec['width_mode'], spec['trunc'])
    if k == 'custom':
        return _CustomF(CUSTOM[spec['name']](spec['params']), float(spec['lip']), float(spec.get('peak', 1.0)))
    raise KeyError(k)


# ------------------------------------------------------------------------------------------------
# reference: bandpass  B(f) / B[j]
# ------------------------------------------------------------------------------------------------
class Bandpass(object):
    """at(f, j): relative intensity at frequency f, which belongs to channel j;
    lip = bound on |dB/df| (non-zero only for a callable that varies with f)."""
    def __init__(self, spec):
        k = spec['kind']
        self.kind = k
        self.lip = float(spec.get('lip', 0.0))
        self.fn = None
        self.values = None
        self.value = None
        if k == 'none':
            self.value = 1.0                                # "optional": no bandpass shaping
        elif k == 'constant_bp_profile':
            self.value = float(spec['level'])
        elif k == 'custom':
            self.fn = CUSTOM[spec['name']](spec['params'])
        elif k in ('array', 'list'):
            self.values = [float(v) for v in spec['values']]
        elif k in ('float', 'int'):
            self.value = float(spec['value'])
        else:
            raise KeyError(k)

    def at(self, f, j):
        if self.fn is not None:
            return float(self.fn(f))
        if self.values is not None:
            return self.values[j]
        return self.value


def ref_bp_profile(spec):
    return Bandpass(spec)


# ------------------------------------------------------------------------------------------------
# sub-sample grids and means
# ------------------------------------------------------------------------------------------------
def row_times(ts, dt, n_rows):
    """t_0 .. t_{n_rows-1}: the frame's own ts, followed (for n_rows = tchans+1) by ts[-1] + dt."""
    ts = [float(t) for t in ts]
    if n_rows == len(ts):
        return ts
    if n_rows == len(ts) + 1:
        return ts + [ts[-1] + float(dt)]
    raise ValueError('n_rows must be tchans or tchans + 1')


def sub_grid(times, step, n):
    """Left-Riemann sub-sample grid: for every x in `times`, x + s*step/n for s = 0..n-1."""
    return [float(x) + s * float(step) / n for x in times for s in range(n)]


def time_rows(comp, ts, dt, n_rows, integrate, subsamples):
    """
    Per-row value of a time component: comp(t_i), or with `integrate` the left-Riemann mean of
    comp(t_i + s*dt/subsamples).  Returns (values, undecided flags, spread) where spread is True when
    some row averaged >= 2 distinct sub-values.
    """
    if comp.form == 'array':
        if len(comp.values) != n_rows:
            raise ValueError('reference: array of %d values indexed by %d rows' % (len(comp.values), n_rows))
        return list(comp.values), [False] * n_rows, False
    if comp.form == 'scalar':
        return [comp.value] * n_rows, [False] * n_rows, False
    rt = row_times(ts, dt, n_rows)
    if not integrate:
        v, u = comp.on_grid(rt)
        return v, u, False
    n = int(subsamples)
    v, u = comp.on_grid(sub_grid(rt, dt, n))
    vals, und, spread = [], [], False
    for i in range(n_rows):
        chunk = v[i * n:(i + 1) * n]
        vals.append(_mean(chunk))
        und.append(any(u[i * n:(i + 1) * n]))
        if max(chunk) != min(chunk):
            spread = True
    return vals, und, spread


# ------------------------------------------------------------------------------------------------
# the evaluator
# ------------------------------------------------------------------------------------------------
class RefSignal(object):
    """values[i][j], undecided[i][j] (bool), tol_scale (float), eps_f (float), flags of what was exercised."""
    pass


def reference_signal(fs, ts, df, dt, path, t_profile, f_profile, bp_profile,
                     integrate_path=False, integrate_t_profile=False, integrate_f_profile=False,
                     doppler_smearing=False, t_subsamples=10, f_subsamples=10, smearing_subsamples=10,
                     k_ulp=64):
    """
    Pointwise reference for Frame.add_signal WITHOUT a bounding range (see `bounding_classes`).

    fs, ts : the frame's own axes (fs in increasing order, as the data columns are);
    path, t_profile : TimeComponent;  f_profile : FProfile;  bp_profile : Bandpass.

    eps_f = k_ulp * ulp(largest |frequency| involved) is the uncertainty granted to any frequency
    argument (different but equally valid ways of forming f_j + s*df/m or P_i + c*dP/n in floating
    point differ by a few ulp); it decides the discontinuity mask and, through f_profile.lip, the
    tolerance:   tol = max|T| * ( max|B| * (1e-9 * peak + lip_F * eps_f) + peak * lip_B * eps_f ).
    """
    fs = [float(f) for f in fs]
    ts = [float(t) for t in ts]
    df, dt = float(df), float(dt)
    tchans, fchans = len(ts), len(fs)
    n_rows = tchans + 1 if doppler_smearing else tchans
    P, P_und, p_spread = time_rows(path, ts, dt, n_rows, integrate_path, t_subsamples)
    T, T_und, t_spread = time_rows(t_profile, ts, dt, tchans, integrate_t_profile, t_subsamples)
    m = int(f_subsamples) if integrate_f_profile else 1
    n = int(smearing_subsamples) if doppler_smearing else 1
    fmag = max([abs(f) for f in fs] + [abs(p) for p in P] + [abs(df)])
    eps_f = k_ulp * _ulp(fmag)

    # frequency sub-samples of every channel and the bandpass there
    fsub = [[fs[j] + s * df / m for s in range(m)] for j in range(fchans)]
    bsub = [[bp_profile.at(fsub[j][s], j) for s in range(m)] for j in range(fchans)]
    bmax = max([abs(b) for row in bsub for b in row] + [0.0])
    tmax = max([abs(t) for t in T] + [0.0])

    out = RefSignal()
    out.values = []
    out.undecided = []
    f_spread = False
    for i in range(tchans):
        centres = [P[i] + c * (P[i + 1] - P[i]) / n for c in range(n)] if doppler_smearing else [P[i]]
        row_und = P_und[i] or T_und[i] or (doppler_smearing and P_und[i + 1])
        vrow, urow = [], []
        for j in range(fchans):
            sub = []
            und = row_und
            for c in centres:
                for s in range(m):
                    f = fsub[j][s]
                    sub.append(f_profile.value(f, c) * bsub[j][s])
                    if not und and f_profile.undecided(f, c, eps_f):
                        und = True
            if len(sub) > 1 and max(sub) != min(sub):
                f_spread = True
            vrow.append(T[i] * _mean(sub))
            urow.append(und)
        out.values.append(vrow)
        out.undecided.append(urow)
    out.path_rows, out.t_rows = P, T
    out.eps_f = eps_f
    out.tol_scale = tmax * bmax
    out.tol = tmax * (bmax * (1e-9 * f_profile.peak + f_profile.lip * eps_f)
                      + f_profile.peak * bp_profile.lip * eps_f)
    out.peak = tmax * bmax * f_profile.peak
    out.spread = {'path': p_spread, 't_profile': t_spread, 'f_or_smear': f_spread}
    return out


def bounding_classes(fs, df, lo, hi, tie=1e-6):
    """
    Which columns a bounding range (lo, hi) decides.  The property only says the computation is
    constrained "to a range in frequencies"; whether a channel that the range covers only partly
    belongs to it is not stated.  Channel j covers [f_j - df/2, f_j + df/2]:
      'in'   -- the channel lies wholly inside [lo, hi]   -> value must be the reference value;
      'out'  -- the channel lies wholly outside           -> value must be 0;
      'edge' -- an end of the range falls inside the channel (or within `tie` channels of its
                boundary) -> either of the two.
    """
    df = float(df)
    cls = []
    for f in fs:
        a, b = float(f) - df / 2.0, float(f) + df / 2.0
        t = tie * df
        if a >= lo + t and b <= hi - t:
            cls.append('in')
        elif b <= lo - t or a >= hi + t:
            cls.append('out')
        else:
            cls.append('edge')
    return cls


# ------------------------------------------------------------------------------------------------
# self test of the closed forms that lean on a library function
# ------------------------------------------------------------------------------------------------
def selftest():
    """Returns a list of human-readable problems (empty when the reference is self-consistent)."""
    bad = []
    if abs(SINC2_HALF - 0.442946470689452) > 1e-12:
        bad.append('sinc^2 half-maximum point %r' % SINC2_HALF)
    if abs(_sinc(SINC2_HALF) ** 2 - 0.5) > 1e-12:
        bad.append('sinc^2(SINC2_HALF) != 1/2')
    # Voigt = Gaussian (*) Lorentzian, by direct trapezoidal convolution
    for gw, lw in ((1.0, 1.0), (0.3, 2.5), (2.5, 0.3)):
        v = _Voigt(gw, lw)
        sigma, gamma = gw / FWHM_TO_SIGMA, lw / 2.0
        u = np.linspace(-60.0 * (sigma + gamma), 60.0 * (sigma + gamma), 1200001)
        g = np.exp(-u ** 2 / (2 * sigma ** 2))

        def conv(x):
            return float(np.trapezoid(g / (1.0 + ((x - u) / gamma) ** 2), u))
        c0 = conv(0.0)
        for x in (0.0, 0.2, 0.7, 1.9, 4.0):
            want = conv(x) / c0
            got = v.value(x, 0.0)
            if abs(want - got) > 2e-4:
                bad.append('voigt(%g; %g, %g) = %r, convolution gives %r' % (x, gw, lw, got, want))
    # FWHM conventions
    for cls, arg in ((_Gaussian, (2.0,)), (_Lorentzian, (2.0,)), (_Sinc2, (2.0, 'fwhm', False))):
        p = cls(*arg)
        if abs(p.value(1.0, 0.0) - 0.5) > 1e-12:
            bad.append('%s: value at half the FWHM is %r' % (cls.__name__, p.value(1.0, 0.0)))
    if abs(_Sinc2(2.0, 'crossing', False).value(1.0, 0.0)) > 1e-30:
        bad.append('sinc2 crossing: not zero at width/2')
    return bad
