"""
C05 -- Frame axes and frequency/index conversion are exact, orientation-independent.

E-PROD: the complete Cartesian box of (fchans, tchans, df, dt, fch1, orientation, construction
route, argument style) is enumerated; every frame is built by the real constructor and compared
with an exact (rational / extended precision) grid.  Oracle rules: DESIGN.md section 3, rules 1, 3.
"""
import io, contextlib
from fractions import Fraction as Fr
import numpy as np

from mc import engine
from mc.refs.axes import F, ulp, close_ulps

PROPERTY = 'C05'
LEVEL = 'exploration'

LD = np.longdouble
K_AXIS = 4          # ulps (of the largest axis magnitude) allowed between a float grid point and the exact one

DF = [2.7939677238464355, 1.3969838619232178, 1.0, 0.5, 3.0, 0.1, 1e3, 2929687.5, 2861.02294921875]
DT = [18.253611008, 1.4316557653333333, 1.0, 0.1, 1e-3]
FCH1 = [0.0, 100.0, 1e6, 1.42040575e9, 6e9, 8.4e9 + 0.123]
FCHANS_Q = [1, 2, 3, 4, 5, 7, 8, 15, 16, 17, 31, 32, 33, 64, 100]
FCHANS_T = FCHANS_Q + [128, 255, 1000, 1024, 4096]
TCHANS = [1, 2, 3, 16, 17]
TCHANS_T = TCHANS + [5, 32, 100]
ROUTES = ['explicit', 'shape', 'data', 'from_data']
STYLES = ['plain', 'hz_s', 'mhz_ms', 'ghz', 'pixel', 'negdf', 'composite', 'f32', 'npint']


def _mk_frame(c):
    import setigen as stg
    from astropy import units as u
    n, m = c['fchans'], c['tchans']
    df, dt, fch1 = c['df'], c['dt'], c['fch1']
    style = c['style']
    exp = {}  # exact expected values of df/dt/fch1 in Hz/s
    if style == 'plain' or style == 'pixel':
        a_df, a_dt, a_fch1 = df, dt, fch1
        exp = dict(df=F(df), dt=F(dt), fch1=F(fch1))
    elif style == 'composite':
        # dt written as the inverse of a rate in kHz: a COMPOSITE unit (1 / kHz) built on the fly
        x_rate = (1.0 / dt) / 1e3
        a_df, a_dt, a_fch1 = df * u.Hz, 1.0 / (x_rate * u.kHz), fch1 * u.Hz
        exp = dict(df=F(df), dt=1 / (F(x_rate) * 1000), fch1=F(fch1))
    elif style == 'f32':
        # resolutions and band edge handed over as single-precision numpy scalars: the frame's axes are still double-precision
        # grids of exactly those values
        a_df, a_dt, a_fch1 = np.float32(df), np.float32(dt), np.float32(fch1)
        exp = dict(df=F(float(a_df)), dt=F(float(a_dt)), fch1=F(float(a_fch1)))
    elif style == 'npint':
        # ... as numpy fixed-width integers (whole Hz / whole seconds)
        a_df, a_dt, a_fch1 = np.int32(max(1, round(df))), np.int16(max(1, round(dt))), np.int64(round(fch1))
        exp = dict(df=F(int(a_df)), dt=F(int(a_dt)), fch1=F(int(a_fch1)))
    elif style == 'negdf':
        # the channel width handed over with the sign of a filterbank header's foff: the constructor takes its magnitude
        a_df, a_dt, a_fch1 = -df, dt, fch1
        exp = dict(df=F(df), dt=F(dt), fch1=F(fch1))
    elif style == 'hz_s':
        a_df, a_dt, a_fch1 = df * u.Hz, dt * u.s, fch1 * u.Hz
        exp = dict(df=F(df), dt=F(dt), fch1=F(fch1))
    elif style == 'mhz_ms':
        x_df, x_dt, x_f = df / 1e6, dt * 1e3, fch1 / 1e6
        a_df, a_dt, a_fch1 = x_df * u.MHz, x_dt * u.ms, x_f * u.MHz
        exp = dict(df=F(x_df) * 10**6, dt=F(x_dt) / 1000, fch1=F(x_f) * 10**6)
    elif style == 'ghz':
        x_df, x_f = df / 1e9, fch1 / 1e9
        a_df, a_dt, a_fch1 = x_df * u.GHz, dt * u.s, x_f * u.GHz
        exp = dict(df=F(x_df) * 10**9, dt=F(dt), fch1=F(x_f) * 10**9)
    asc = c['asc']
    if style in ('hz_s', 'ghz'):
        asc = np.bool_(asc)        # the flag as it comes out of a numpy comparison (e.g. foff > 0)
    route = c['route']
    data = None
    if style == 'composite':
        # process history: conversions through OTHER composite units of the same kind (1 / Hz, 1 / MHz, Hz / s ...) come and go
        # first, so that anything remembered per unit OBJECT rather than per unit is as stale as it can be
        for rep in range(12):
            try:
                stg.Frame(fchans=2, tchans=2, df=1.0 * u.Hz, dt=1.0 / ((1.0 + rep) * u.Hz), fch1=1e3 * u.Hz)
                stg.Frame(fchans=2, tchans=2, df=1.0 * u.Hz, dt=1.0 / ((1e-6 * (1 + rep)) * u.MHz), fch1=1e3 * u.Hz)
            except Exception:
                pass
    # deterministic process history: a frame with the same (fch1, df, sizes) but the OPPOSITE orientation is built first, so that anything memoised at module/class level on too coarse a key is in
    # the same condition in every process
    try:
        # same unit-carrying arguments as the frame under test, so that the values reaching the constructor are bit-identical
        stg.Frame(fchans=n, tchans=m, df=a_df, dt=a_dt, fch1=a_fch1, ascending=not asc, t_start=0.0)
    except Exception:
        pass
    if route in ('data', 'from_data'):
        data = np.arange(m * n, dtype=float).reshape(m, n)
    if route == 'explicit' and style == 'composite':
        # the pair (conversion through 1/Hz, then the frame under test through 1/kHz) is repeated: which temporary unit object a
        # later one replaces in memory is the allocator's business, so one attempt proves little; any attempt that converts
        # wrongly is returned for the checks below to report
        fr = None
        for rep in range(25):
            stg.Frame(fchans=2, tchans=2, df=1.0 * u.Hz, dt=1.0 / ((3.0 + rep) * u.Hz), fch1=1e3 * u.Hz)
            fr = stg.Frame(fchans=n, tchans=m, df=a_df, dt=1.0 / (x_rate * u.kHz), fch1=a_fch1, ascending=asc, t_start=1000.5)
            if not close_ulps(fr.dt, exp['dt'], float(exp['dt']), 2):
                break
        return fr, exp, data
    if route == 'explicit':
        if style == 'pixel':
            fr = stg.Frame(fchans=n * u.pixel, tchans=m * u.pixel, df=a_df, dt=a_dt, fch1=a_fch1,
                           ascending=asc, t_start=1000.5)
        elif style == 'npint':
            fr = stg.Frame(fchans=np.int16(n), tchans=np.int16(m), df=a_df, dt=a_dt, fch1=a_fch1, ascending=asc, t_start=np.uint32(1000))
        else:
            fr = stg.Frame(fchans=n, tchans=m, df=a_df, dt=a_dt, fch1=a_fch1, ascending=asc, t_start=1000.5)
    elif route == 'shape' and style == 'npint':
        fr = stg.Frame(shape=[np.int16(m), np.int16(n)], df=a_df, dt=a_dt, fch1=a_fch1, ascending=asc, t_start=1000.5)
    elif route == 'shape':
        fr = stg.Frame(shape=(m, n), df=a_df, dt=a_dt, fch1=a_fch1, ascending=asc, t_start=1000.5)
    elif route == 'data':
        fr = stg.Frame(data=data, df=a_df, dt=a_dt, fch1=a_fch1, ascending=asc, t_start=1000.5)
    elif route == 'from_data':
        fr = stg.Frame.from_data(a_df, a_dt, a_fch1, asc, data)
    return fr, exp, data


def _check_axes(fr, n, m, asc, V, tag=''):
    """All grid/derived-quantity checks relative to the frame's own (df, dt, fch1) floats."""
    df, dt, fch1 = float(fr.df), float(fr.dt), float(fr.fch1)
    fs = np.asarray(fr.fs)
    ts = np.asarray(fr.ts)
    if fs.shape != (n,):
        V('fs_shape', 'fs has shape %s, expected (%d,)' % (fs.shape, n)); return
    if ts.shape != (m,):
        V('ts_shape', 'ts has shape %s, expected (%d,)' % (ts.shape, m)); return
    if fr.shape != (m, n) or fr.data.shape != (m, n) or fr.fchans != n or fr.tchans != m:
        V('shape', 'shape/data/fchans/tchans disagree with (%d, %d)' % (m, n)); return
    fmin_x = F(fch1) if asc else F(fch1) - (n - 1) * F(df)
    fmax_x = fmin_x + (n - 1) * F(df)
    scale = max(abs(float(fmin_x)), abs(float(fmax_x)), df)
    u_f = ulp(scale)
    # exact ends
    if not close_ulps(fr.fmin, fmin_x, scale, K_AXIS):
        V('fmin', 'fmin=%r exact=%r' % (fr.fmin, float(fmin_x)))
    if not close_ulps(fr.fmax, fmax_x, scale, K_AXIS):
        V('fmax', 'fmax=%r exact=%r' % (fr.fmax, float(fmax_x)))
    if asc and fr.fmin != fch1:
        V('fch1_is_fmin', 'ascending frame: fmin=%r fch1=%r' % (fr.fmin, fch1))
    if (not asc) and fr.fmax != fch1:
        V('fch1_is_fmax', 'descending frame: fmax=%r fch1=%r' % (fr.fmax, fch1))
    if fs[0] != fr.fmin or fs[-1] != fr.fmax:
        V('fs_ends', 'fs[0]=%r fmin=%r fs[-1]=%r fmax=%r' % (fs[0], fr.fmin, fs[-1], fr.fmax))
    # vectorised grid in extended precision (error <= 2^-11 ulp of a double), ends checked exactly above
    i = np.arange(n)
    ref = LD(float(fmin_x)) + (LD(fmin_x.numerator) / LD(fmin_x.denominator) - LD(float(fmin_x))) \
        + i.astype(LD) * LD(df)
    err = np.abs(fs.astype(LD) - ref)
    if float(err.max()) > (K_AXIS + 0.01) * u_f:
        j = int(np.argmax(err))
        V('fs_grid', 'fs[%d]=%r off the exact grid by %.3g ulp' % (j, fs[j], float(err[j]) / u_f))
    if n > 1:
        d = np.diff(fs)
        if not np.all(d > 0):
            V('fs_monotone', 'fs is not strictly increasing')
        if float(np.abs(d.astype(LD) - LD(df)).max()) > (2 * K_AXIS + 0.01) * u_f:
            V('fs_spacing', 'successive fs differences deviate from df by more than %d ulp' % (2 * K_AXIS))
    # time axis
    tscale = max(m * dt, dt)
    u_t = ulp(tscale)
    tref = np.arange(m).astype(LD) * LD(dt)
    terr = np.abs(ts.astype(LD) - tref)
    if float(terr.max()) > (K_AXIS + 0.01) * u_t:
        j = int(np.argmax(terr))
        V('ts_grid', 'ts[%d]=%r, exact %r' % (j, ts[j], float(tref[j])))
    if ts[0] != 0:
        V('ts_zero', 'ts[0]=%r' % ts[0])
    te = np.asarray(fr.ts_ext)
    if te.shape != (m + 1,):
        V('ts_ext_shape', 'ts_ext has shape %s' % (te.shape,))
    else:
        teref = np.arange(m + 1).astype(LD) * LD(dt)
        if float(np.abs(te.astype(LD) - teref).max()) > (K_AXIS + 0.01) * u_t or not np.array_equal(te[:m], ts):
            V('ts_ext', 'ts_ext is not ts followed by tchans*dt')
    # derived quantities
    if not close_ulps(fr.fmid, (fmin_x + fmax_x) / 2, scale, K_AXIS):
        V('fmid', 'fmid=%r exact=%r' % (fr.fmid, float((fmin_x + fmax_x) / 2)))
    ol = F(m) * F(dt)
    if not close_ulps(fr.obs_length, ol, float(ol), 2):
        V('obs_length', 'obs_length=%r exact=%r' % (fr.obs_length, float(ol)))
    tstop = F(fr.t_start) + ol
    if not close_ulps(fr.t_stop, tstop, max(abs(float(tstop)), float(ol)), 2):
        V('t_stop', 't_stop=%r exact=%r' % (fr.t_stop, float(tstop)))
    udr = F(df) / F(dt)
    if not close_ulps(fr.unit_drift_rate, udr, float(udr), 2):
        V('unit_drift_rate', 'unit_drift_rate=%r exact=%r' % (fr.unit_drift_rate, float(udr)))
    for a, b in ((0, n - 1), (n - 1, 0), (0, 0), (1, 3)):
        want = F(b - a) * F(df) / (F(m) * F(dt))
        got = fr.get_drift_rate(a, b)
        if not close_ulps(got, want, max(abs(float(want)), 1e-300), 4):
            V('get_drift_rate', 'get_drift_rate(%d,%d)=%r exact=%r' % (a, b, got, float(want)))
    # index <-> frequency
    gi = np.asarray(fr.get_index(fs))
    if not np.array_equal(gi, i):
        j = int(np.nonzero(gi != i)[0][0])
        V('get_index_fs', 'get_index(fs[%d])=%d' % (j, gi[j]))
    gf = np.asarray(fr.get_frequency(i))
    if float(np.abs(gf.astype(LD) - ref).max()) > (K_AXIS + 0.01) * u_f:
        V('get_frequency', 'get_frequency(i) off the exact grid')
    gi2 = np.asarray(fr.get_index(gf))
    if not np.array_equal(gi2, i):
        j = int(np.nonzero(gi2 != i)[0][0])
        V('roundtrip', 'get_index(get_frequency(%d))=%d' % (j, gi2[j]))
    # scalar forms, python ints
    for j in sorted(set([0, n // 2, n - 1])):
        if int(fr.get_index(fr.get_frequency(j))) != j:
            V('roundtrip_scalar', 'scalar round trip fails at %d' % j)
    # whatever numeric type the constructor was given, the frame holds plain double-precision / integer attributes
    for nm in ('df', 'dt', 'fch1', 't_start'):
        v = getattr(fr, nm)
        if isinstance(v, (np.generic, np.ndarray)) and not isinstance(v, np.float64):
            V('attribute_type', '%s is held as %s (%r): arithmetic with it happens in that narrow type' % (nm, type(v).__name__, v))
    for nm in ('fchans', 'tchans'):
        v = getattr(fr, nm)
        if isinstance(v, np.generic) and np.dtype(type(v)).itemsize < 8:
            V('attribute_type', '%s is held as %s (%r): sums and products with it wrap around' % (nm, type(v).__name__, v))
    if not isinstance(fr.shape, tuple) or tuple(fr.shape) != tuple(fr.data.shape):
        V('shape_attribute', 'frame.shape is %r, data.shape %r' % (fr.shape, fr.data.shape))
    if fs.dtype != np.float64 or ts.dtype != np.float64:
        V('axis_dtype', 'fs / ts dtypes are %s / %s' % (fs.dtype, ts.dtype))
    # indices as numpy fixed-width integers
    try:
        gfi = float(fr.get_frequency(np.int32(n - 1)))
        if abs(LD(gfi) - ref[n - 1]) > (K_AXIS + 0.01) * u_f:
            V('get_frequency_typed', 'get_frequency(np.int32(%d))=%r, exact %r' % (n - 1, gfi, float(ref[n - 1])))
        if n >= 2:
            want = F(0 - (n - 1)) * F(df) / (F(m) * F(dt))
            got = float(fr.get_drift_rate(np.uint16(n - 1), np.uint16(0)))
            if not close_ulps(got, want, max(abs(float(want)), 1e-300), 4):
                V('get_drift_rate_typed', 'get_drift_rate(np.uint16(%d), np.uint16(0))=%r exact=%r' % (n - 1, got, float(want)))
    except Exception as e:
        V('typed_index_raised', '%s: %s' % (type(e).__name__, e))
    # unit-carrying frequencies (array and scalar): the same channels
    from astropy import units as _u
    # (astropy arithmetic is slow: a quarter of the frames, chosen by their sizes)
    for name, q in ((('Hz', fs * _u.Hz), ('kHz', (fs / 1e3) * _u.kHz), ('MHz', (fs / 1e6) * _u.MHz), ('GHz', (fs / 1e9) * _u.GHz))
                    if (n + m) % 4 == 0 else ()):
        try:
            gq = np.asarray(fr.get_index(q))
            gs = int(fr.get_index(q[n // 2]))
        except Exception as e:
            V('get_index_quantity', 'get_index(frequencies in %s) raised %s: %s' % (name, type(e).__name__, e))
            break
        if not np.array_equal(gq, i) or gs != n // 2:
            V('get_index_quantity', 'get_index of the channel frequencies given in %s returns %s... (scalar for channel %d: %d)'
              % (name, gq[:4].tolist(), n // 2, gs))
            break
    # what the derived-quantity accessors hand out is the caller's to scribble on: the frame's own axes stay what they were
    ts_c, fs_c = np.array(fr.ts, copy=True), np.array(fr.fs, copy=True)
    try:
        te2 = fr.ts_ext
        if isinstance(te2, np.ndarray) and te2.flags.writeable:
            te2 += 12345.0
        gf2 = fr.get_frequency(i)
        if isinstance(gf2, np.ndarray) and gf2.flags.writeable:
            gf2 -= 777.0
    except Exception:
        pass
    if not (np.array_equal(np.asarray(fr.ts), ts_c) and np.array_equal(np.asarray(fr.fs), fs_c) and np.array_equal(np.asarray(fr.ts_ext)[:m], ts_c)):
        V('returned_array_aliases_axes', 'writing into the arrays returned by ts_ext / get_frequency changed the frame\'s own ts / fs / ts_ext')
    # nearest channel: offsets strictly inside / outside the half-channel (ties are not decided, rule 1)
    for delta, shift in ((0.25, 0), (-0.25, 0), (0.49, 0), (-0.49, 0), (0.51, 1), (-0.51, -1)):
        f = (ref + LD(delta) * LD(df)).astype(float)
        got = np.asarray(fr.get_index(f))
        if not np.array_equal(got, i + shift):
            j = int(np.nonzero(got != i + shift)[0][0])
            V('nearest', 'get_index(fmin+(%d%+.2f)df)=%d, expected %d' % (j, delta, got[j], j + shift))
            break


def case_frame(c):
    viol = []

    def V(failure, detail, site='Frame.axes'):
        v = {'site': site, 'failure': failure, 'detail': detail}
        if c.get('style') == 'composite':
            v['no_reexec'] = True         # see case_backend: a history-dependent unit conversion is the library's, not the harness's
            v['detail'] += ' [composite units; seen after the earlier conversions of this worker process]'
        viol.append(v)

    n, m, asc = c['fchans'], c['tchans'], c['asc']
    try:
        with contextlib.redirect_stdout(io.StringIO()):
            fr, exp, data = _mk_frame(c)
    except Exception as e:
        V('constructor_raised', '%s: %s' % (type(e).__name__, e), site='Frame.__init__')
        return {'viol': viol}
    # unit conversion (2 ulp of the exact converted value)
    for k in ('df', 'dt', 'fch1'):
        got = getattr(fr, k)
        if not close_ulps(got, exp[k], float(exp[k]) if exp[k] != 0 else 1e-300, 2):
            V('unit_conversion', '%s=%r, exact converted value %r (style %s)' % (k, got, float(exp[k]), c['style']),
              site='unit_utils')
    if fr.ascending != asc:
        V('ascending', 'ascending flag lost')
    if data is not None and not np.array_equal(fr.data, data):
        V('data_preload', 'preloaded data differs')
    _check_axes(fr, n, m, asc, V)
    p = fr.get_params()
    if (p['fchans'], p['tchans'], p['df'], p['dt'], p['fch1'], p['ascending']) != (n, m, fr.df, fr.dt, fr.fch1, asc):
        V('get_params', 'get_params() disagrees with attributes')
    res = {'viol': viol}
    if n >= 2 or m >= 2:
        res['nontrivial'] = [engine.sha(c)]
    res['outcomes'] = ['%d/%d/%s' % (n, m, asc)]
    return res


def case_twin(c):
    """Same band, opposite orientation flags: identical axes and identical injected data."""
    import setigen as stg
    viol = []

    def V(failure, detail, site='Frame.orientation_twin'):
        viol.append({'site': site, 'failure': failure, 'detail': detail})

    n, m, df, dt, fch1 = c['fchans'], c['tchans'], c['df'], c['dt'], c['fch1']
    a = stg.Frame(fchans=n, tchans=m, df=df, dt=dt, fch1=fch1, ascending=True, t_start=0.0)
    fmax = float(F(fch1) + (n - 1) * F(df))
    d = stg.Frame(fchans=n, tchans=m, df=df, dt=dt, fch1=fmax, ascending=False, t_start=0.0)
    scale = max(abs(fmax), abs(fch1), df)
    u_f = ulp(scale)
    err = np.abs(a.fs.astype(LD) - d.fs.astype(LD))
    if float(err.max()) > (2 * K_AXIS + 1.01) * u_f:
        V('twin_axes', 'fs of the two orientations differ by %.3g ulp' % (float(err.max()) / u_f))
    if not np.array_equal(a.ts, d.ts):
        V('twin_ts', 'ts differ')
    # frequency -> index must not depend on the orientation flag: compared at EXACT half-channel ties too (which
    # neighbour a tie resolves to is not decided -- that both orientations of the same band agree is)
    # the same frequencies in the container forms a caller holds them in: what one orientation accepts the other accepts, with the same answer
    for form, mk in (('list', list), ('tuple', tuple), ('array', np.array)):
        arg = mk([float(a.fs[0]), float(a.fs[n // 2]), float(a.fs[-1])])
        outs = []
        for fr_ in (a, d):
            try:
                outs.append(('ok', [int(x) for x in np.asarray(fr_.get_index(arg)).ravel()]))
            except Exception as e:
                outs.append(('raised', type(e).__name__))
        want_a = [0, n // 2, n - 1]
        if outs[0] != outs[1] and not (outs[0][0] == 'ok' and outs[1][0] == 'ok' and outs[0][1] == want_a and outs[1][1] == [n - 1 - k for k in want_a]):
            V('twin_index_form', 'get_index(%s of three channel frequencies): ascending frame %r, descending frame of the same band %r'
              % (form, outs[0], outs[1]))
    if a.fmin == d.fmin and np.array_equal(a.fs, d.fs):
        probes = []
        for i in range(n):
            for delta in (Fr(1, 2), Fr(1, 4), Fr(-1, 2)):
                fx = F(a.fmin) + (i + delta) * F(df)
                if F(float(fx)) == fx:          # exactly representable: the same real number reaches both frames
                    probes.append(float(fx))
        if probes:
            ia = np.asarray(a.get_index(np.array(probes)))
            id_ = np.asarray(d.get_index(np.array(probes)))
            if not np.array_equal(ia, id_):
                j = int(np.nonzero(ia != id_)[0][0])
                V('twin_index', 'get_index(%r) = %d on the ascending frame but %d on the descending frame of the same band '
                  '(fmin=%r, df=%r, fchans=%d)' % (probes[j], ia[j], id_[j], a.fmin, df, n))
            sa = a.add_constant_signal(f_start=probes[len(probes) // 2], drift_rate=0.0, level=1.0, width=df, f_profile_type='box')
            sd = d.add_constant_signal(f_start=probes[len(probes) // 2], drift_rate=0.0, level=1.0, width=df, f_profile_type='box')
            if not np.array_equal(sa, sd):
                V('twin_signal', 'add_constant_signal centred at %r differs between the two orientations of the same band' % probes[len(probes) // 2])
            a.data[:] = 0; d.data[:] = 0
    ntriv = []
    k0 = n // 3
    probes = [
        ('gauss_drift', lambda fr: fr.add_signal(stg.constant_path(f_start=fr.get_frequency(k0), drift_rate=0.7 * df / dt),
                                                 stg.constant_t_profile(level=2.0),
                                                 stg.gaussian_f_profile(width=2.5 * df),
                                                 stg.constant_bp_profile(level=1)), 2.5 * df),
        ('box_mid', lambda fr: fr.add_signal(stg.constant_path(f_start=fr.get_frequency(n // 2), drift_rate=-1.0 * df / dt),
                                             stg.sine_t_profile(period=3.3 * dt, amplitude=0.5, level=1.5),
                                             stg.box_f_profile(width=3 * df)), None),
        ('sinc_bounded', lambda fr: fr.add_signal(float(fr.get_frequency(n - 1 - k0)) + 0.2 * df,
                                                  1.0,
                                                  stg.sinc2_f_profile(width=4.6 * df, trunc=False),
                                                  bounding_f_range=(fr.get_frequency(min(1, n - 1)),
                                                                    fr.get_frequency(n - 1))), 4.6 * df),
    ]
    for name, inj, width in probes:
        sa, sd = inj(a), inj(d)
        peak = max(float(np.abs(sa).max()), float(np.abs(sd).max()), 1e-300)
        tol = peak * (1e-12 + (64 * u_f / width if width else 0.0))
        diff = float(np.abs(sa - sd).max())
        if diff > tol:
            j = np.unravel_index(int(np.argmax(np.abs(sa - sd))), sa.shape)
            V('twin_signal', '%s: injected arrays differ by %.3g (tol %.3g) at %s: asc=%r desc=%r'
              % (name, diff, tol, j, sa[j], sd[j]))
        if np.count_nonzero(sa) and np.count_nonzero(sa) < sa.size + 1:
            ntriv.append(name)
    if not np.allclose(a.data, d.data, rtol=0, atol=max(float(np.abs(a.data).max()), 1e-300) * (1e-12 + 64 * u_f / df)):
        V('twin_data', 'frame data differ after identical injections')
    res = {'viol': viol, 'outcomes': ['twin/%d' % len(ntriv)]}
    if ntriv and n >= 2:
        res['nontrivial'] = [engine.sha(c)]
    return res


def case_backend(c):
    """from_backend_params / params_from_backend: df, dt, tchans from backend numbers."""
    import setigen as stg
    viol = []

    def V(failure, detail, site='Frame.from_backend_params'):
        v = {'site': site, 'failure': failure, 'detail': detail}
        if c.get('q'):
            # inputs and oracle of this case are pure functions of the case dict and nothing of the harness persists between
            # cases; a wrong result that depends on what the PROCESS converted before (e.g. something remembered per unit object)
            # is the library's, and need not recur when the case is run alone
            v['no_reexec'] = True
            v['detail'] += ' [unit-carrying arguments; seen after the earlier conversions of this worker process]'
        viol.append(v)
    sr, P, N, I = c['sample_rate'], c['num_branches'], c['fftlength'], c['int_factor']
    df_x = F(sr) / P / N
    dt_x = F(I) / df_x
    k = c['k']
    obs = float((F(k) + F(c['frac'])) * dt_x)
    n = c['fchans']
    data = None
    if c['with_data']:
        data = np.arange(k * n, dtype=float).reshape(k, n)
    if c.get('q'):
        # (sub-box) both quantities carry units, in non-base units
        from astropy import units as _u
        obs, sr = (obs * 1e3) * _u.ms, (sr / 1e6) * _u.MHz
    try:
        # same deterministic history as in _mk_frame (opposite orientation first)
        stg.Frame.from_backend_params(fchans=n, obs_length=obs, sample_rate=sr, num_branches=P, fftlength=N,
                                      int_factor=I, fch1=c['fch1'], ascending=not c['asc'])
    except Exception:
        pass
    try:
        with contextlib.redirect_stdout(io.StringIO()):
            # unit-carrying arguments go through composite units built on the fly; which temporary unit object a later one replaces
            # in memory is the allocator's business, so that form is attempted several times and any wrong result is kept
            for rep in range(12 if c.get('q') else 1):
                if c.get('q'):
                    # ... and between attempts the same helper is used with the quantities in OTHER units (kHz / min, GHz / us)
                    from astropy import units as _u3
                    f_obs, f_sr = float((F(k) + F(c['frac'])) * dt_x), c['sample_rate']
                    for uo, so, ur, sr_ in ((_u3.min, 1 / 60.0, _u3.kHz, 1e-3), (_u3.us, 1e6, _u3.GHz, 1e-9)):
                        try:
                            stg.params_from_backend(obs_length=(f_obs * so) * uo, sample_rate=(f_sr * sr_) * ur, num_branches=P,
                                                    fftlength=N, int_factor=I)
                        except Exception:
                            pass
                if data is not None:
                    fr = stg.Frame.from_backend_params(obs_length=obs, sample_rate=sr, num_branches=P, fftlength=N,
                                                       int_factor=I, fch1=c['fch1'], ascending=c['asc'], data=data)
                else:
                    fr = stg.Frame.from_backend_params(fchans=n, obs_length=obs, sample_rate=sr, num_branches=P,
                                                       fftlength=N, int_factor=I, fch1=c['fch1'], ascending=c['asc'])
                pd = stg.params_from_backend(obs_length=obs, sample_rate=sr, num_branches=P, fftlength=N, int_factor=I)
                if not (close_ulps(fr.df, df_x, float(df_x), 2) and close_ulps(fr.dt, dt_x, float(dt_x), 4) and fr.tchans == k):
                    break
    except Exception as e:
        V('raised', '%s: %s' % (type(e).__name__, e))
        return {'viol': viol}
    if not close_ulps(fr.df, df_x, float(df_x), 2):
        V('df', 'df=%r exact=%r' % (fr.df, float(df_x)))
    if not close_ulps(fr.dt, dt_x, float(dt_x), 4):
        V('dt', 'dt=%r exact=%r' % (fr.dt, float(dt_x)))
    if fr.tchans != k or pd['tchans'] != k:
        V('tchans', 'tchans=%r/%r expected %d for obs_length=(%d+%s)*dt' % (fr.tchans, pd['tchans'], k, k, c['frac']))
    from astropy import units as _u2
    pdf = pd['df'].to(_u2.Hz).value if hasattr(pd['df'], 'to') else pd['df']
    pdt = pd['dt'].to(_u2.s).value if hasattr(pd['dt'], 'to') else pd['dt']
    if c.get('q'):
        # unit-carrying results: the same quantities within rounding of the conversion
        if not (close_ulps(pdf, F(fr.df), float(fr.df), 4) and close_ulps(pdt, F(fr.dt), float(fr.dt), 4)):
            V('param_dict', 'params_from_backend (%r, %r) disagrees with the frame (%r, %r)' % (pd['df'], pd['dt'], fr.df, fr.dt))
    elif pdf != fr.df or pdt != fr.dt:
        V('param_dict', 'params_from_backend disagrees with the frame')
    if fr.tchans == k:
        _check_axes(fr, n, k, c['asc'], V)
    return {'viol': viol, 'nontrivial': [engine.sha(c)], 'outcomes': ['backend/%d' % k]}


def _box(tier):
    fch = FCHANS_T if tier == 'thorough' else FCHANS_Q
    for n in fch:
        for m in (TCHANS_T if tier == 'thorough' else TCHANS):
            for df in DF:
                for fch1 in FCH1:
                    if fch1 / df > 2.0**36:
                        continue
                    for dt in DT:
                        for asc in (True, False):
                            yield n, m, df, dt, fch1, asc


def run(ctx):
    cases = []
    for n, m, df, dt, fch1, asc in _box(ctx.tier):
        for route in ROUTES:
            styles = STYLES if route == 'explicit' else (['plain', 'mhz_ms', 'negdf'] if ctx.tier == 'thorough' else (['plain', 'negdf'] if route == 'from_data' else (['plain', 'npint'] if route == 'shape' else ['plain'])))
            for style in styles:
                if style == 'pixel' and route != 'explicit':
                    continue
                if style == 'composite' and ctx.tier != 'thorough' and (n + m) % 4:
                    continue          # (each such case builds ~75 frames: a quarter of the sizes in the quick tier)
                cases.append(dict(fchans=n, tchans=m, df=df, dt=dt, fch1=fch1, asc=asc, route=route, style=style))
    ctx.pmap(case_frame, cases)
    twins = []
    for n, m, df, dt, fch1, asc in _box(ctx.tier):
        if asc and n >= 4 and (ctx.tier == 'thorough' or dt in (18.253611008, 1.0)):
            twins.append(dict(fchans=n, tchans=m, df=df, dt=dt, fch1=fch1))
    ctx.pmap(case_twin, twins)
    be = []
    for sr in (3e9, 1e6, 48e3):
        for P in (8, 64, 1024):
            for N in (4, 1024, 1048576):
                for I in (1, 4, 51):
                    for k in (1, 3, 16):
                        for frac in (0.5, 0.25):
                            for n in (1, 5, 64):
                                for asc in (True, False):
                                    for wd in (False, True):
                                        # keep fch1/df inside the declared domain (<= 2^36)
                                        fch1 = 6e9 if 6e9 / (sr / P / N) <= 2.0**36 else 1e3
                                        be.append(dict(sample_rate=sr, num_branches=P, fftlength=N, int_factor=I,
                                                       k=k, frac=frac, fchans=n, asc=asc, with_data=wd, fch1=fch1))
    be += [dict(b, q=True) for b in be if b['fchans'] == 5 and b['k'] == 3]
    ctx.pmap(case_backend, be)
    return ctx.finish(
        rule='complete Cartesian product of (fchans, tchans, df, dt, fch1 with fch1/df<=2^36, orientation, '
             'construction route, argument style) plus orientation twins and backend-parameter construction; '
             'a case is non-trivial when the grid has >=2 points on some axis (twins: >=1 probe signal with '
             'non-zero pixels); distinct = distinct parameter tuples',
        assumptions=['fch1/df <= 2^36 (realistic ratios)', 'grid points compared within %d ulp of the largest '
                     'axis magnitude against exact rationals; exact half-channel ties not decided' % K_AXIS,
                     'twin injections compared with a conditioning-scaled tolerance (64 ulp(f)/width)'],
        coverage_extra={'bounds': {'fchans': FCHANS_T if ctx.tier == 'thorough' else FCHANS_Q, 'tchans': TCHANS_T if ctx.tier == 'thorough' else TCHANS,
                                   'df': DF, 'dt': DT, 'fch1': FCH1, 'routes': ROUTES, 'styles': STYLES}})
