"""Exact-rational reference for frame axes (written from the property statement)."""
from fractions import Fraction as Fr
import numpy as np


def F(x):
    """Exact rational value of a Python/numpy float or int."""
    if isinstance(x, Fr):
        return x
    if isinstance(x, (int, np.integer)):
        return Fr(int(x))
    return Fr(float(x))


def ulp(x):
    x = abs(float(x))
    if x == 0:
        return 5e-324
    return float(np.spacing(x))


def grid(fch1, df, n, ascending):
    """Exact frequency grid in increasing order: fmin + i*df."""
    fch1, df = F(fch1), F(df)
    fmin = fch1 if ascending else fch1 - (n - 1) * df
    return [fmin + i * df for i in range(n)]


def close_ulps(a, exact, scale, k):
    """|a - exact| <= k * ulp(scale) with `exact` a Fraction (compared exactly)."""
    return abs(F(a) - exact) <= Fr(k) * F(ulp(scale))


def max_err_ulps(arr, exact_list, scale):
    """Largest |arr[i]-exact[i]| in units of ulp(scale) (returned as float)."""
    u = F(ulp(scale))
    worst = Fr(0)
    for a, e in zip(arr, exact_list):
        d = abs(F(a) - e)
        if d > worst:
            worst = d
    return float(worst / u)
