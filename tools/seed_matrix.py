#!/usr/bin/env python3
"""
tools/seed_matrix.py [--only C02-1,C04-2] [--checks C02,C04] [--out seeded/MATRIX.json]
Runs every stored seeded change (seeded/<name>/patch.diff) against a set of checks (quick tier) on a scratch
copy of /repo, and writes the detection matrix (JSON + markdown).  By default a seeded change is run against
the checks of its own side (voltage-side or frame-side) -- a change cannot be seen by a check that never
executes the file it touches.
"""
import sys, os, json, shutil, subprocess, tempfile, re

HERE = os.path.dirname(os.path.dirname(os.path.abspath(__file__)))
args = sys.argv[1:]
only = None
checks_arg = None
out = os.path.join(HERE, 'seeded', 'MATRIX.json')
if '--only' in args:
    i = args.index('--only'); only = args[i + 1].split(','); del args[i:i + 2]
if '--checks' in args:
    i = args.index('--checks'); checks_arg = args[i + 1].split(','); del args[i:i + 2]
if '--out' in args:
    i = args.index('--out'); out = args[i + 1]; del args[i:i + 2]

VOLT = ['C02', 'C04', 'C07', 'C08', 'C09', 'C10', 'C11', 'C12', 'C14', 'C15', 'C20']
FRAME = ['C01', 'C03', 'C05', 'C06', 'C11', 'C12', 'C13', 'C16', 'C17', 'C18', 'C19', 'C20']
enabled = [l.strip() for l in open(os.path.join(HERE, 'tools', 'enabled.txt')) if l.strip()]

matrix = {}
if os.path.exists(out):
    try:
        matrix = json.load(open(out))
    except Exception:
        matrix = {}
names = sorted(d for d in os.listdir(os.path.join(HERE, 'seeded')) if os.path.isdir(os.path.join(HERE, 'seeded', d)))
for name in names:
    if only and name not in only:
        continue
    sd = os.path.join(HERE, 'seeded', name)
    patch = open(os.path.join(sd, 'patch.diff')).read()
    touched = re.findall(r'^\+\+\+ b/(\S+)', patch, flags=re.M)
    MAP = {'backend.py': ['C02', 'C04', 'C07', 'C12', 'C14', 'C20'], 'polyphase_filterbank.py': ['C02', 'C08', 'C14', 'C12'],
           'quantization.py': ['C02', 'C09', 'C14', 'C12'], 'data_stream.py': ['C10', 'C15', 'C02', 'C11', 'C07', 'C12', 'C09'],
           'antenna.py': ['C10', 'C15', 'C02', 'C12'], 'raw_utils.py': ['C04', 'C14', 'C07'], 'waterfall.py': ['C04', 'C07'],
           'level_utils.py': ['C20', 'C07'],
           'frame.py': ['C01', 'C05', 'C06', 'C11', 'C13', 'C16', 'C17', 'C03', 'C12', 'C20'], 'cadence.py': ['C16', 'C18'],
           'paths.py': ['C01', 'C13', 'C16', 'C12'], 't_profiles.py': ['C01', 'C13', 'C16', 'C12'], 'f_profiles.py': ['C01', 'C13', 'C16'],
           'bp_profiles.py': ['C01', 'C13'], 'func_utils.py': ['C01', 'C13'], 'slice.py': ['C17', 'C03'], 'dedrift.py': ['C17', 'C03'],
           'integrate.py': ['C17'], 'spectrum.py': ['C17'], 'timeseries.py': ['C17'], 'split_utils.py': ['C19'],
           'sample_from_obs.py': ['C19', 'C11'], 'waterfall_utils.py': ['C03', 'C19'], 'distributions.py': ['C11', 'C12'],
           'unit_utils.py': ['C05', 'C01']}
    rel = []
    for t in touched:
        for c in MAP.get(os.path.basename(t), []):
            if c not in rel:
                rel.append(c)
    own = name.split('-')[0]
    if own not in rel:
        rel.insert(0, own)
    checks = checks_arg or [c for c in rel if c in enabled]
    d = tempfile.mkdtemp(prefix='seedm-')
    try:
        for item in ('setigen',):
            shutil.copytree(os.path.join('/repo', item), os.path.join(d, item), ignore=shutil.ignore_patterns('__pycache__'))
        r = subprocess.run(['git', 'apply', '--unsafe-paths', '--directory', d, os.path.join(sd, 'patch.diff')], cwd=d,
                           capture_output=True, text=True)
        if r.returncode:
            r = subprocess.run(['patch', '-p1', '--no-backup-if-mismatch', '-i', os.path.join(sd, 'patch.diff')], cwd=d,
                               capture_output=True, text=True)
            if r.returncode:
                print(name, 'PATCH DOES NOT APPLY to the current tree')
                matrix.setdefault(name, {})['_patch'] = 'does not apply'
                continue
        row = matrix.setdefault(name, {})
        row['_files'] = touched
        for cid in checks:
            r = subprocess.run([os.path.join(HERE, 'check'), cid, '--tier', 'quick'], env=dict(os.environ, VERIF_REPO=d),
                               capture_output=True, text=True)
            row[cid] = {1: 'CAUGHT', 0: 'missed'}.get(r.returncode, 'HARNESS-ERROR')
            print(name, cid, row[cid], flush=True)
            if r.returncode == 2:
                print(r.stdout[-800:])
        with open(out, 'w') as f:
            json.dump(matrix, f, indent=1, sort_keys=True)
    finally:
        shutil.rmtree(d, ignore_errors=True)

# markdown
cols = sorted({c for row in matrix.values() for c in row if not c.startswith('_')})
lines = ['| seeded change | files | ' + ' | '.join(cols) + ' |', '|---|---|' + '---|' * len(cols)]
for name in sorted(matrix):
    row = matrix[name]
    lines.append('| %s | %s | %s |' % (name, ', '.join(os.path.basename(f) for f in row.get('_files', [])),
                                      ' | '.join({'CAUGHT': '**X**', 'missed': '·', 'HARNESS-ERROR': 'ERR'}.get(row.get(c), '') for c in cols)))
with open(os.path.splitext(out)[0] + '.md', 'w') as f:
    f.write('# Detection matrix (quick tier): X = check exits 1 with a VIOLATION line on the seeded change, · = silent, blank = not run\n\n')
    f.write('\n'.join(lines) + '\n')
print('written', out)
