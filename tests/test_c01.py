"""
Plain replays of the C01 defects (no explorer needed).

    PYTHONPATH=/tmp/wt-c01 /venv/bin/python -m pytest -q -p no:cacheprovider /verif/tests/test_c01.py

Every test fails on the pinned tree (/repo) and passes on the repaired one (branch fix-c01).
The expected values are scalar evaluations of  t(t_i) * f(f_j, path(t_i)) * bp(f_j)  (and of the
documented sub-sample / smearing means), written out by hand here.
"""
import math
import numpy as np
import setigen as stg

SIG = 2 * math.sqrt(2 * math.log(2))


def frame():
    return stg.Frame(fchans=6, tchans=3, df=1.0, dt=1.0, fch1=100.0, ascending=True)


def gauss(f, fc, width):
    return math.exp(-(f - fc) ** 2 / (2 * (width / SIG) ** 2))


def test_d01_array_path_of_tchans_plus_one_values_is_accepted_for_smearing():
    fr = frame()
    path = [103.2, 103.9, 104.6, 105.3]
    got = fr.add_signal(path, 2.0, stg.gaussian_f_profile(width=1.0), doppler_smearing=True, smearing_subsamples=2)
    for i in range(3):
        for j in range(6):
            centres = [path[i] + c * (path[i + 1] - path[i]) / 2 for c in range(2)]
            want = 2.0 * sum(gauss(fr.fs[j], c, 1.0) for c in centres) / 2
            assert abs(got[i, j] - want) < 1e-12


def test_d02_bandpass_array_with_integrate_f_profile():
    fr = frame()
    bp = [0.5, 0.6, 0.7, 0.8, 0.9, 1.0]
    got = fr.add_signal(103.2, 1.0, stg.gaussian_f_profile(width=2.5), bp, integrate_f_profile=True, f_subsamples=2)
    for j in range(6):
        want = bp[j] * (gauss(fr.fs[j], 103.2, 2.5) + gauss(fr.fs[j] + 0.5, 103.2, 2.5)) / 2
        assert abs(got[0, j] - want) < 1e-12


def test_d03_empty_bounding_range_with_integrate_f_profile_gives_zeros():
    fr = frame()
    for rng in ((107.2, 109.9), (103.1, 103.2)):
        got = fr.add_signal(103.2, 1.0, stg.gaussian_f_profile(width=2.5), bounding_f_range=rng,
                            integrate_f_profile=True, f_subsamples=2)
        assert got.shape == (3, 6) and not got.any()


def test_d04_bounding_range_below_the_band_writes_nothing():
    fr = frame()
    got = fr.add_signal(103.2, 1.0, stg.gaussian_f_profile(width=2.5), bounding_f_range=(95.7, 97.8))
    assert not got.any() and not fr.data.any()


def test_new_integer_path_with_smearing():
    fr = frame()
    got = fr.add_signal(103, 1.0, stg.gaussian_f_profile(width=1.0), doppler_smearing=True, smearing_subsamples=2)
    for j in range(6):
        assert abs(got[1, j] - gauss(fr.fs[j], 103.0, 1.0)) < 1e-12
    fr = frame()
    got = fr.add_signal([103, 104, 105, 106], 1.0, stg.gaussian_f_profile(width=1.0), doppler_smearing=True,
                        smearing_subsamples=2)
    for j in range(6):
        want = (gauss(fr.fs[j], 104.0, 1.0) + gauss(fr.fs[j], 104.5, 1.0)) / 2
        assert abs(got[1, j] - want) < 1e-12
