"""
C14 -- Injection onto existing RAW: exact decode, same framing, stationary gain.

Inputs are written by the INDEPENDENT GUPPI writer (mc/refs/guppi.py), never by setigen.  One case = one
input recording x synthetic content x digitise flag; inside the case every sub-block count 1..r (+ r+1, 32)
and every requested length (shorter / equal / longer / omitted, both length modes) is executed on a real
backend built with RawVoltageBackend.from_data, with spy quantisers and a tap on the block reader.
Transitions = sub-block steps; traces = complete recordings.
"""
import os
import numpy as np

from mc import engine, vharness
from mc.refs import guppi
from mc.checks.c02 import _stats_ok

PROPERTY = 'C14'
LEVEL = 'model_checking'
LD = np.longdouble

M, P = 2, 8
RATE = 1024.0


def write_input(c, stem, seed):
    """Returns (decoded blocks list of (na, nc, T, npol) complex, blocks_per_file, header card count)."""
    na, nc, npol, bits, T = c['nants'], c['nchans'], c['npol'], c['bits'], c['T']
    nblocks, bpf = c['layout']
    rng = np.random.default_rng([seed, 77])
    bps = 2 * npol * bits // 8
    blocsize = na * nc * T * bps
    chan_bw = RATE / P
    cards = [('BACKEND', 'GUPPI'), ('TELESCOP', 'GBT'), ('OBSERVER', 'nobody'), ('SRC_NAME', 'VOYAGER'),
             ('NBITS', bits), ('NPOL', 4 if npol == 2 else 1), ('OBSNCHAN', na * nc), ('BLOCSIZE', blocsize),
             ('TBIN', P / RATE), ('CHAN_BW', chan_bw * 1e-6), ('OBSBW', chan_bw * nc * 1e-6),
             ('OBSFREQ', (c['start_chan'] + (nc - 1) / 2) * chan_bw * 1e-6), ('SCANLEN', nblocks * T * P / RATE),
             ('DIRECTIO', c['directio']), ('PKTIDX', 0)]
    if na > 1:
        cards.insert(6, ('NANTS', na))
    if c.get('sparse'):
        # (sub-box) a foreign recording that carries only the cards the format needs: no observer / telescope / source / scan length
        cards = [(k_, v_) for (k_, v_) in cards if k_ not in ('OBSERVER', 'TELESCOP', 'SRC_NAME', 'SCANLEN')]
    # pad the header with filler cards so that (cards + END) % 32 == 0 (aligned) or == 7 (unaligned)
    want = 0 if c['aligned'] else 7
    k = 0
    while (len(cards) + 1) % 32 != want:
        cards.append(('FILL%03d' % k, k))
        k += 1
    blocks = []
    hp = []
    for b in range(nblocks):
        if b == 0:
            raw = ((np.arange(blocsize) * 37 + 11) % 256).astype(np.uint8).view(np.int8)   # every byte value
        elif bits == 8:
            raw = np.clip(np.round(rng.normal(1.5, 10.0, blocsize)), -128, 127).astype(np.int8)
        else:
            re = np.clip(np.round(rng.normal(0.3, 2.5, blocsize)), -8, 7).astype(np.int64)
            im = np.clip(np.round(rng.normal(-0.2, 2.5, blocsize)), -8, 7).astype(np.int64)
            raw = (((re & 15) << 4) | (im & 15)).astype(np.uint8).view(np.int8)
        payload = raw.tobytes()
        cb = [(k_, (v if k_ != 'PKTIDX' else b * T)) for k_, v in cards]
        hp.append((cb, payload))
        blocks.append(guppi.decode_payload(payload, na, nc, npol, bits))
    for fn in guppi.list_files(stem):
        os.remove(fn)
    guppi.write_files(stem, hp, bpf)
    return blocks, bpf, len(cards) + 1, blocsize


def _win(c, a, p):
    """Window function of the filterbank of antenna a, polarisation p (sub-box `windows`: one per stream, the 2-D list form)."""
    if c.get('windows'):
        return c['windows'][(a * c['npol'] + p) % len(c['windows'])]
    return c.get('window', 'hamming')


def make_src(c, seed):
    SpyAntenna, SpyArray, _, _ = vharness.make_spies()
    na, npol = c['nants'], c['npol']
    if na == 1:
        src = SpyAntenna(sample_rate=RATE, fch1=0.0, ascending=True, num_pols=npol, seed=seed)
        streams = list(src.streams)
    else:
        src = SpyArray(num_antennas=na, sample_rate=RATE, fch1=0.0, ascending=True, num_pols=npol, delays=[0, 1][:na], seed=seed)
        streams = [s for a in src.antennas for s in a.streams]
    chan_bw = RATE / P
    for k, s in enumerate(streams):
        if c['content'] in ('tone', 'tone+noise'):
            s.add_constant_signal(f_start=(c['start_chan'] + 1 + 0.37 + 0.1 * k) * chan_bw, drift_rate=0.0, level=0.4 + 0.1 * k)
        if c['content'] == 'tone+noise':
            s.add_noise(0.0, 0.2)
    return src


def one_recording(c, nsub, req, stem_in, stem_out, in_blocks, bpf_in, ncards, blocsize, seed, V, res):
    import setigen.voltage as sv
    _, _, SpyReal, SpyComplex = vharness.make_spies()
    na, nc, npol, bits, T = c['nants'], c['nchans'], c['npol'], c['bits'], c['T']
    tag = 'nsub=%d request=%s' % (nsub, req)
    src = make_src(c, seed)
    # every stream has its own digitiser settings (the documented 2-D list form): the gain of a stream uses ITS digitiser's target
    dig = [[SpyReal(target_fwhm=32 - 9 * (a_ * npol + p_), num_bits=8) for p_ in range(npol)] for a_ in range(na)]
    fbs = []
    lazy = c.get('lazy', False)
    for a in range(na):
        row = []
        for p in range(npol):
            f = sv.PolyphaseFilterbank(num_taps=M, num_branches=P, window_fn=_win(c, a, p))
            if lazy == 'default':
                pass        # the library's own default estimate (unseeded, default size), made lazily by the backend
            elif lazy:
                # leave the estimate to the backend (it is made lazily, in the middle of the first sub-block step);
                # only the seed and size of that internal estimate are pinned so that the run is reproducible
                def _est(factor=10000, seed=None, _f=f, _s=seed + 10 * a + p):
                    return type(_f).estimate_channelized_stds(_f, factor=200, seed=_s)
                f.estimate_channelized_stds = _est
            else:
                f.estimate_channelized_stds(factor=200, seed=seed + 10 * a + p)
            row.append(f)
        fbs.append(row)
    if lazy:
        stds0 = [[None for f in row] for row in fbs]
    else:
        stds0 = [[np.array(f.channelized_stds, copy=True) for f in row] for row in fbs]
    try:
        be = sv.RawVoltageBackend.from_data(input_file_stem=stem_in, antenna_source=src, digitizer=dig, filterbank=fbs,
                                            start_chan=c['start_chan'], num_subblocks=nsub)
    except Exception as e:
        V('from_data_raised', '%s: %s: %s' % (tag, type(e).__name__, e), site='RawVoltageBackend.from_data')
        return False
    if (be.block_size, be.num_bits, be.num_chans, be.num_pols, be.num_antennas, be.blocks_per_file) != (blocsize, bits, nc, npol, na, bpf_in):
        V('inferred_params', '%s: backend inferred (block_size, bits, chans, pols, antennas, blocks_per_file) = %s, input has %s'
          % (tag, (be.block_size, be.num_bits, be.num_chans, be.num_pols, be.num_antennas, be.blocks_per_file),
             (blocsize, bits, nc, npol, na, bpf_in)), site='RawVoltageBackend.from_data')
        return False
    if be.input_num_blocks != len(in_blocks):
        V('input_num_blocks', '%s: input_num_blocks=%r, input holds %d' % (tag, be.input_num_blocks, len(in_blocks)),
          site='RawVoltageBackend.from_data')
        return False
    # the requantisers the backend built itself (their configuration is part of what is checked) are tapped, not replaced
    for a in range(na):
        for p in range(npol):
            vharness.tap_complex_quantizer(be.requantizer[a][p])
    rq = be.requantizer
    if len(set(id(q) for row in rq for q in row)) != na * npol:
        V('shared_stage_objects', '%s: requantisers are shared between antennas / polarisations' % tag, site='RawVoltageBackend.from_data')
        return False
    inner = [getattr(q, nm, None) for row in rq for q in row for nm in ('quantizer_r', 'quantizer_i')]
    if all(x is not None for x in inner) and len(set(id(x) for x in inner)) != 2 * na * npol:
        V('shared_stage_objects', '%s: the real/imaginary quantisers inside the requantisers are shared between antennas / polarisations / components '
          '(%d distinct objects for %d streams x 2 components)' % (tag, len(set(id(x) for x in inner)), na * npol), site='RawVoltageBackend.from_data')
        return False
    reads = []
    orig = be._read_next_block

    def tapped():
        out = orig()
        reads.append(np.array(out, copy=True))
        return out
    be._read_next_block = tapped
    n_in = len(in_blocks)
    kw = {}
    if req[0] == 'num_blocks':
        kw = dict(length_mode='num_blocks')
        if req[1] is not None:
            kw['num_blocks'] = req[1]
        want_blocks = n_in if req[1] is None else min(req[1], n_in)
    else:
        kw = dict(length_mode='obs_length')
        if req[1] is not None:
            kw['obs_length'] = (req[1] + 0.5) * T * P / RATE
        want_blocks = n_in if req[1] is None else min(req[1], n_in)
    all_cs = []
    for rec in range(c['recordings']):
        # (sub-box `flip`) the second recording of the same backend uses the OTHER digitiser setting
        dgz = bool(c['digitize']) != bool(c.get('flip') and rec == 1)
        del reads[:]
        del src.log[:]
        for row in dig + rq:
            for q in row:
                del q.calls[:]
        for fn in guppi.list_files(stem_out):
            os.remove(fn)
        try:
            be.record(output_file_stem=stem_out, header_dict={}, digitize=dgz, load_template=bool(c.get('template')), verbose=False, **kw)
        except Exception as e:
            V('record_raised', '%s recording#%d: %s: %s' % (tag, rec, type(e).__name__, e))
            return False
        res['traces'] += 1
        res['transitions'] += len(src.log)
        # ---- accounting of a (possibly clamped) recording
        if be.num_blocks != want_blocks or be.total_obs_num_samples != want_blocks * T * P or \
                abs(be.obs_length - want_blocks * T * P / RATE) > 1e-12 * max(want_blocks * T * P / RATE, 1e-300):
            V('accounting', '%s: after the recording num_blocks=%r total_obs_num_samples=%r obs_length=%r; %d blocks of %d spectra were '
              'written (%d samples, %r s)' % (tag, be.num_blocks, be.total_obs_num_samples, be.obs_length, want_blocks, T,
                                              want_blocks * T * P, want_blocks * T * P / RATE))
            return False
        # ---- (ii) framing of the output
        try:
            outb = [b for fn in guppi.list_files(stem_out) for b in guppi.parse_file(fn)]
            per_file = [len(guppi.parse_file(fn)) for fn in guppi.list_files(stem_out)]
        except guppi.GuppiFormatError as e:
            V('framing', '%s: %s' % (tag, e))
            return False
        if len(outb) != want_blocks:
            V('block_count', '%s: %d blocks written, expected min(requested, input) = %d' % (tag, len(outb), want_blocks))
            return False
        want_pf = [bpf_in] * (want_blocks // bpf_in) + ([want_blocks % bpf_in] if want_blocks % bpf_in else [])
        if per_file != want_pf:
            V('file_split', '%s: blocks per output file %s, input split gives %s' % (tag, per_file, want_pf))
            return False
        for b in outb:
            h = b['header']
            got = (h.get('BLOCSIZE'), h.get('NBITS'), h.get('OBSNCHAN'), 2 if h.get('NPOL') == 4 else h.get('NPOL'), h.get('NANTS', 1))
            if got != (blocsize, bits, na * nc, npol, na):
                V('output_header', '%s: output (BLOCSIZE, NBITS, OBSNCHAN, NPOL, NANTS) = %s, input %s' % (tag, got, (blocsize, bits, na * nc, npol, na)))
                return False
            if abs(float(h.get('SCANLEN', -1)) - want_blocks * T * P / RATE) > 1e-9 * (want_blocks * T * P / RATE) or \
                    int(h.get('PKTSTOP', -1)) - int(h.get('PKTSTART', 0)) != want_blocks * T:
                V('output_header', '%s: SCANLEN=%r PKTSTOP-PKTSTART=%r for %d blocks of %d spectra' % (
                    tag, h.get('SCANLEN'), int(h.get('PKTSTOP', -1)) - int(h.get('PKTSTART', 0)), want_blocks, T))
                return False
        # ---- (i) exact decode of every input block read
        if len(reads) != want_blocks:
            V('blocks_read', '%s: %d input blocks read for %d output blocks' % (tag, len(reads), want_blocks))
            return False
        for b, got in enumerate(reads):
            want = in_blocks[b].reshape(na * nc, T * npol)
            if got.shape != want.shape or not np.array_equal(got, want):
                nbad = int(np.count_nonzero(got != want)) if got.shape == want.shape else -1
                V('decode', '%s: input block %d decoded wrongly: %d of %d complex samples differ (%d-bit, %d pol, %d antennas, header %d cards, DIRECTIO=%d)'
                  % (tag, b, nbad, want.size, bits, npol, na, ncards, c['directio']), site='RawVoltageBackend._read_next_block')
                return False
        # ---- (iii) stage-wise
        for a in range(na):
            for p in range(npol):
                calls = rq[a][p].calls
                if len(calls) % 2 or len(calls) != 2 * len(src.log):
                    V('requantizer_calls', '%s: %d requantiser calls for %d sub-block steps' % (tag, len(calls), len(src.log)))
                    return False
                rows_done = 0
                if stds0[a][p] is None:
                    if fbs[a][p].channelized_stds is None:
                        V('no_estimate', '%s: no channelised-noise estimate after a recording' % tag)
                        return False
                    stds0[a][p] = np.array(fbs[a][p].channelized_stds, copy=True)
                exp_cs = stds0[a][p] * (dig[a][p].target_std if dgz else 1.0)
                # "scaled as if embedded in unit-variance noise": the estimate the gain is built on must be the channelised
                # deviation of unit-variance noise for THIS filterbank (window included), which follows from the definition.
                # (sampling error of the estimate: 1/sqrt(2 n) relative, n = factor * channels; acceptance band >= 7 sigma)
                ana = np.array(vharness.unit_noise_channel_stds(M, P, _win(c, a, p)))
                nvals = (10000 if lazy == 'default' else 200) * (P // 2)
                band = 7.0 / np.sqrt(2.0 * nvals) + 2e-3
                if np.any(np.abs(stds0[a][p] / ana - 1.0) > band):
                    V('unit_noise_gain', '%s antenna %d pol %d: channelised unit-noise deviations used for the gain are %s; the %s filterbank '
                      'gives %s for unit-variance noise (ratio %s, acceptance +-%.3f)' % (tag, a, p, stds0[a][p], _win(c, a, p), ana,
                                                                                       stds0[a][p] / ana, band))
                    return False
                # the synthetic stream through digitiser and filterbank: FIR+DFT definition over the WHOLE observed
                # stream of this recording (nothing about caches / sub-blocks assumed)
                if dgz:
                    pfb_in = np.concatenate([cl['q'] for cl in dig[a][p].calls])
                else:
                    pfb_in = np.concatenate([arr[a][p] for _, _, arr in src.log])
                ref = vharness.pfb_definition(pfb_in, M, P, vharness.ref_window(M, P, _win(c, a, p)))[:, c['start_chan']:c['start_chan'] + nc]
                syn_in = np.concatenate([calls[j]['x'] for j in range(0, len(calls), 2)])
                if syn_in.shape != ref.shape:
                    V('spectra_count', '%s: %s channelised synthetic spectra, definition gives %s' % (tag, syn_in.shape, ref.shape))
                    return False
                err = np.abs(syn_in.astype(np.clongdouble) - ref)
                if float(err.max()) > 1e-9 * (float(np.abs(ref).max()) + 1.0):
                    row = int(np.argmax(err.max(axis=1)))
                    V('pfb_mismatch', '%s recording#%d antenna %d pol %d: channelised synthetic spectrum %d (of %d) differs from the FIR+DFT '
                      'definition of the digitised stream by %.3g' % (tag, rec, a, p, row, ref.shape[0], float(err.max())))
                    return False
                for j in range(0, len(calls), 2):
                    syn, fin = calls[j], calls[j + 1]
                    blk = rows_done // T
                    r0 = rows_done % T
                    nrows = syn['x'].shape[0]
                    inp = in_blocks[blk][a, :, r0:r0 + nrows, p].T          # (rows, nc)
                    if syn['custom_stds'] is None or fin['custom_stds'] is not None:
                        V('stage_order', '%s: synthetic/final stage calls out of order' % tag)
                        return False
                    cs = np.asarray(syn['custom_stds'], dtype=float)
                    all_cs.append((rec, a, p, j // 2, cs))
                    if cs.shape != (2,) or np.any(np.abs(cs - exp_cs) > 4 * np.spacing(np.abs(exp_cs))):
                        V('gain_not_stationary', '%s recording#%d antenna %d pol %d sub-block step %d: synthetic gain deviations %s, '
                          'expected channelised unit-noise deviations x digitiser target deviation = %s (ratio %s)'
                          % (tag, rec, a, p, j // 2, cs, exp_cs, cs / exp_cs))
                        return False
                    # block statistics used as targets
                    R, I = np.real(in_blocks[blk][a, :, :, p]), np.imag(in_blocks[blk][a, :, :, p])
                    tgt = ((float(np.mean(R)), float(np.std(R))), (float(np.mean(I)), float(np.std(I))))
                    for k_, part in ((0, np.real), (1, np.imag)):
                        if abs(fin['tmean'][k_] - tgt[k_][0]) > 1e-9 * (abs(tgt[k_][0]) + 1) or abs(fin['tstd'][k_] - tgt[k_][1]) > 1e-9 * (tgt[k_][1] + 1):
                            V('target_stats', '%s: final-stage target (mean, std) = (%r, %r) but the input block has (%r, %r)'
                              % (tag, fin['tmean'][k_], fin['tstd'][k_], tgt[k_][0], tgt[k_][1]))
                            return False
                        if syn['tmean'][k_] != 0 or abs(syn['tstd'][k_] - tgt[k_][1]) > 1e-9 * (tgt[k_][1] + 1):
                            V('synthetic_target', '%s: synthetic-stage target (mean, std) = (%r, %r), expected (0, %r)'
                              % (tag, syn['tmean'][k_], syn['tstd'][k_], tgt[k_][1]))
                            return False
                        st = syn['stats_r'] if k_ == 0 else syn['stats_i']
                        if not _stats_ok(st, part(syn['x']), 10000, V, '%s synthetic stage' % tag):
                            return False
                        bad, worst, ties = vharness.quant_check(part(syn['x']), part(syn['q']), bits, 0.0, tgt[k_][1], st[0], cs[k_])
                        res['ambiguous'] += ties
                        if bad:
                            V('synthetic_scaling', '%s: %d synthetic samples are not (sigma_T/(sigma_chan*sigma_dig))*(v-mean) rounded/clipped (worst %.3f)'
                              % (tag, bad, worst))
                            return False
                        st2 = fin['stats_r'] if k_ == 0 else fin['stats_i']
                        if not _stats_ok(st2, part(fin['x']), 10000, V, '%s final stage' % tag):
                            return False
                        bad, worst, ties = vharness.quant_check(part(fin['x']), part(fin['q']), bits, fin['tmean'][k_], fin['tstd'][k_], st2[0], st2[1])
                        res['ambiguous'] += ties
                        if bad:
                            V('final_requantization', '%s: %d output samples are not the requantisation of (input + synthetic) (worst %.3f)'
                              % (tag, bad, worst))
                            return False
                    if fin.get('bits_ri', (bits, bits)) != (bits, bits):
                        V('requantizer_bits', '%s: the requantiser quantises (real, imag) to %s bits for a %d-bit input'
                          % (tag, fin.get('bits_ri'), bits), site='RawVoltageBackend.from_data')
                        return False
                    if not np.array_equal(fin['x'], syn['q'] + inp):
                        V('sum_input', '%s: final-stage input of step %d is not synthetic + input block %d rows %d..%d'
                          % (tag, j // 2, blk, r0, r0 + nrows))
                        return False
                    # bytes on disk
                    dec = guppi.decode_payload(outb[blk]['payload'], na, nc, npol, bits)[a, :, r0:r0 + nrows, p].T
                    if not np.array_equal(dec, fin['q']):
                        V('byte_layout', '%s: recorded block %d rows %d..%d differ from the final-stage output' % (tag, blk, r0, r0 + nrows))
                        return False
                    rows_done += nrows
                    res['state_keys'].add('%d/%d/%d/%d' % (nsub, blk, r0, rec))
                if rows_done != want_blocks * T:
                    V('rows', '%s: %d spectra processed for %d blocks of %d' % (tag, rows_done, want_blocks, T))
                    return False
                if not np.array_equal(fbs[a][p].channelized_stds, stds0[a][p]):
                    V('gain_not_stationary', '%s: the filterbank\'s channelised-noise estimate changed during the recording: %s -> %s'
                      % (tag, stds0[a][p], fbs[a][p].channelized_stds))
                    return False
        res['n'] += 1
    if all_cs:
        first = all_cs[0][4]
        # bit-identical for a given antenna/polarisation across sub-blocks, blocks and recordings
        by = {}
        for rec, a, p, j, cs in all_cs:
            by.setdefault((a, p) if not c.get('flip') else (rec, a, p), []).append(cs)
        for k_, lst in by.items():
            if any(not np.array_equal(x, lst[0]) for x in lst):
                V('gain_not_stationary', '%s: synthetic gain differs between sub-blocks/blocks/recordings for antenna/pol %s' % (tag, k_))
                return False
    return True


def case_input(c):
    viol = []

    def V(failure, detail, site='RawVoltageBackend.record'):
        viol.append({'site': site, 'failure': failure, 'detail': detail})
    res = {'viol': viol, 'n': 0, 'traces': 0, 'transitions': 0, 'state_keys': set(), 'ambiguous': 0}
    wd = engine.workdir()
    # stems contain a dot (a legal and common naming, e.g. "scan.4bit"): nothing may derive a file name by cutting at it
    stem_in = os.path.join(wd, 'c14in_%s.v1' % engine.sha(c))
    stem_out = os.path.join(wd, 'c14out_%s.v1' % engine.sha(c))
    seed = 31 + c['seed']
    try:
        # file-side history, made deterministic: the same input stem first holds ANOTHER recording (other blocks-per-file,
        # block count and bit depth), which the library's readers are asked about; then the input under test is written
        try:
            from setigen.voltage import raw_utils
            c0 = dict(c, layout=[5, 5] if c['layout'][1] != 5 else [4, 1], bits=8 if c['bits'] == 4 else 4, aligned=not c['aligned'])
            write_input(c0, stem_in, seed + 1)
            raw_utils.get_blocks_per_file(stem_in); raw_utils.get_total_blocks(stem_in); raw_utils.get_raw_params(stem_in)
            raw_utils.read_header(stem_in + '.0000.raw')
        except Exception:
            pass
        in_blocks, bpf_in, ncards, blocsize = write_input(c, stem_in, seed)
        # a sibling recording in the same directory whose stem merely BEGINS with the input stem (other size and layout):
        # it is not part of the input
        try:
            write_input(c0, stem_in + '_b', seed + 2)
        except Exception:
            pass
        if c.get('lazy') == 'default':
            # deterministic process history: a same-shaped filterbank with the DEFAULT window has already made an unseeded
            # default-size estimate in this process
            import setigen.voltage as sv
            sv.PolyphaseFilterbank(num_taps=M, num_branches=P).estimate_channelized_stds()
        r = c['T'] // M
        n_in = len(in_blocks)
        reqs = [('num_blocks', None), ('obs_length', None), ('num_blocks', n_in), ('num_blocks', n_in + 2), ('obs_length', n_in + 2)]
        if n_in > 1:
            reqs += [('num_blocks', n_in - 1), ('obs_length', n_in - 1)]
        for nsub in list(range(1, r + 1)) + [r + 1, 32]:
            for req in (reqs if nsub in (1, r) else reqs[:1] + reqs[-1:]):
                if not one_recording(c, nsub, req, stem_in, stem_out, in_blocks, bpf_in, ncards, blocsize, seed, V, res):
                    break
            if viol:
                break
    finally:
        for fn in guppi.list_files(stem_in) + guppi.list_files(stem_in + '_b') + guppi.list_files(stem_out):
            try:
                os.remove(fn)
            except OSError:
                pass
    res['state_keys'] = sorted(res['state_keys'])
    res['nontrivial'] = [engine.sha(c)] if c['content'] != 'nothing' else []
    res['outcomes'] = ['%d/%d/%d/%s' % (c['bits'], c['npol'], c['nants'], c['layout'])]
    return res


def run(ctx):
    Tt = ctx.tier == 'thorough'
    cases = []
    for bits in (8, 4):
        for npol in (1, 2):
            for nants in (1, 2):
                for directio in (0, 1):
                    for aligned in (False, True):
                        for layout in ((1, 1), (3, 3), (4, 2), (3, 2)):
                            for content in (('nothing', 'tone', 'tone+noise') if Tt else ('tone', 'tone+noise')):
                                for digitize in (True, False):
                                    for T in ((8, 10, 14) if Tt else (10,)):
                                        if not Tt and content == 'tone' and not digitize and layout != (3, 2):
                                            continue
                                        cases.append(dict(bits=bits, npol=npol, nants=nants, directio=directio, aligned=aligned,
                                                          lazy=(aligned != bool(directio)),
                                                          layout=list(layout), content=content, digitize=digitize, T=T,
                                                          nchans=(4 if bits == 8 else 3) if nants == 1 else 2, start_chan=0 if bits == 8 else 1,
                                                          recordings=2, seed=ctx.seed))
    # sub-box: the library's own default (unseeded, lazily made) noise estimate, for three window functions
    for window in ('hamming', 'boxcar', 'hann'):
        for digitize in (True, False):
            for bits in ((8, 4) if Tt else (8,)):
                cases.append(dict(bits=bits, npol=1, nants=1, directio=0, aligned=False, lazy='default', window=window,
                                  layout=[2, 2], content='tone', digitize=digitize, T=4, nchans=4, start_chan=0,
                                  recordings=1, seed=ctx.seed))
    # sub-box: the second recording of a backend with the other digitiser setting
    for digitize in (True, False):
        for content in ('tone',):
            cases.append(dict(bits=8, npol=2, nants=1, directio=0, aligned=False, lazy=False, flip=True,
                              layout=[3, 2], content=content, digitize=digitize, T=4, nchans=4, start_chan=0,
                              recordings=2, seed=ctx.seed))
            cases.append(dict(bits=8, npol=1, nants=1, directio=0, aligned=False, lazy=True, flip=True,
                              layout=[2, 2], content=content, digitize=digitize, T=4, nchans=4, start_chan=0,
                              recordings=2, seed=ctx.seed))
    # sub-box: a different window function per stream (2-D list of filterbanks), estimates left to the library
    for windows, npol, nants in ((['hamming', 'boxcar'], 2, 1), (['boxcar', 'hann'], 2, 1), (['hann', 'hamming'], 1, 2)):
        for digitize in (True, False):
            cases.append(dict(bits=8, npol=npol, nants=nants, directio=0, aligned=False, lazy='default', windows=windows,
                              layout=[2, 2], content='tone', digitize=digitize, T=4, nchans=4 if nants == 1 else 2, start_chan=0,
                              recordings=1, seed=ctx.seed))
    # sub-box: sparse input headers (no OBSERVER / TELESCOP / SRC_NAME / SCANLEN), with and without the library's header template
    for sparse in (True, False):
        for template in (True, False):
            if not sparse and not template:
                continue
            for directio in (0, 1):
                cases.append(dict(bits=8, npol=2, nants=1, directio=directio, aligned=False, lazy=False, layout=[3, 2], content='tone',
                                  digitize=True, T=10, nchans=4, start_chan=0, recordings=1, seed=ctx.seed, sparse=sparse, template=template))
    ctx.pmap(case_input, cases, chunk=1)
    return ctx.finish(
        rule='one case per input recording written by the independent GUPPI writer (bits x pols x antennas x DIRECTIO x header '
             'alignment x (blocks, blocks-per-file) incl. a partial last file; first block holds every byte value) x synthetic '
             'content x digitise; inside each case every sub-block count {1..r, r+1, 32} and requested lengths (omitted / equal / '
             'longer / shorter, both length modes), two recordings per backend.  transitions = sub-block steps, traces = recordings, '
             'states = (sub-block count, block, row offset, recording#).  Non-trivial = synthetic content present',
        assumptions=['channelised unit-noise estimate seeded through the filterbank objects handed to from_data',
                     'the synthetic stage may or may not round (|q - y| <= 0.5 + eps accepted); the recorded block must be the '
                     'requantisation of (observed synthetic + decoded input) with the block\'s own mean/deviation as targets',
                     'rounding ties accepted either way'],
        coverage_extra={'bounds': {'taps': M, 'branches': P, 'T': [8, 10, 14] if Tt else [10], 'lazy_estimate': 'half of the cases leave the channelised-noise estimate to the backend'}})
