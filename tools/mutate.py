#!/usr/bin/env python3
"""
tools/mutate.py <ID>[,<ID>...] <file-under-setigen> <old> <new> [--tests] [--tier quick]
Applies a textual mutation to a scratch copy of /repo/setigen (never /repo itself), runs the listed
checks against it (VERIF_REPO), prints one line per check, removes the copy.
`old` must occur exactly once unless --all is given.
tools/mutate.py <IDs> --patch file.diff  applies a unified diff instead (git apply).
"""
import sys, os, shutil, subprocess, tempfile

args = sys.argv[1:]
run_tests = '--tests' in args
allocc = '--all' in args
tier = 'quick'
if '--tier' in args:
    i = args.index('--tier'); tier = args[i + 1]; del args[i:i + 2]
patch = None
if '--patch' in args:
    i = args.index('--patch'); patch = os.path.abspath(args[i + 1]); del args[i:i + 2]
args = [a for a in args if a not in ('--tests', '--all')]
ids = args[0].split(',')
d = tempfile.mkdtemp(prefix='mut-')
try:
    for item in ('setigen', 'tests', 'setup.py', 'pyproject.toml', 'setup.cfg'):
        p = os.path.join(os.environ.get('MUT_BASE', '/repo'), item)
        if os.path.isdir(p):
            shutil.copytree(p, os.path.join(d, item), ignore=shutil.ignore_patterns('__pycache__'))
        elif os.path.exists(p):
            shutil.copy(p, d)
    if patch:
        r = subprocess.run(['git', 'apply', '--unsafe-paths', '--directory', d, patch], capture_output=True, text=True, cwd=d)
        if r.returncode:
            r = subprocess.run(['patch', '-p1', '-i', patch], capture_output=True, text=True, cwd=d)
            if r.returncode:
                print('PATCH FAILED', r.stdout, r.stderr); sys.exit(3)
    else:
        rel, old, new = args[1], args[2], args[3]
        fp = os.path.join(d, 'setigen', rel)
        s = open(fp).read()
        cnt = s.count(old)
        if cnt == 0 or (cnt > 1 and not allocc):
            print('MUTATION NOT APPLICABLE: %d occurrences' % cnt); sys.exit(3)
        open(fp, 'w').write(s.replace(old, new))
    if run_tests:
        r = subprocess.run(['/venv/bin/python', '-m', 'pytest', '-q', '-p', 'no:cacheprovider', '--timeout=900', '-x', '-q'],
                           cwd=d, env=dict(os.environ, PYTHONPATH=d), capture_output=True, text=True)
        print('pinned tests:', (r.stdout.strip().splitlines() or ['?'])[-1])
    here = os.path.dirname(os.path.dirname(os.path.abspath(__file__)))
    for pid in ids:
        r = subprocess.run([os.path.join(here, 'check'), pid, '--tier', tier], env=dict(os.environ, VERIF_REPO=d),
                           capture_output=True, text=True)
        lines = r.stdout.strip().splitlines()
        det = [l for l in lines if l.startswith('violation detail')]
        print('%s exit=%d %s' % (pid, r.returncode, 'CAUGHT' if r.returncode == 1 else ('MISSED' if r.returncode == 0 else 'HARNESS-ERROR')))
        for l in det[:4]:
            print('   ', l[:260])
        if r.returncode == 2:
            print('\n'.join(lines[-15:]))
finally:
    shutil.rmtree(d, ignore_errors=True)
