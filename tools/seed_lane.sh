#!/bin/bash
# usage: lane.sh <logfile> item...   item = dir:PROP:name
log=$1; shift
for it in "$@"; do
  IFS=: read d P n <<< "$it"
  echo "=== $n" >> $log
  VERIF_NPROC=5 python3 /verif/tools/seed_verify.py $d $P $n $EXTRA 2>&1 | tail -5 | cut -c1-300 >> $log
done
echo LANE-DONE >> $log
