"""
C09 -- Quantisers: monotone affine maps into the signed b-bit range, stated refresh.

E-HIST x E-PROD on the real RealQuantizer / ComplexQuantizer: for every configuration
(kind, bits, target_mean, target_fwhm, stats_calc_num_samples, stats_calc_period, custom deviation mode,
array sub-pool) EVERY operation sequence of the depth bound over the alphabet
{quantize(a0), quantize(a1), quantize(a2), _reset_cache()} is executed on a fresh real object (a state is the
history reaching it; nothing is copied) and compared step by step with the reference state machine of
mc/refs/quant.py.  E-PROD on the stateless forms quantize_real / quantize_complex over the full array pool.

Demanded (exactly the property): integer outputs inside [-2^(b-1), 2^(b-1)-1]; equal to
clip(round((sigma_t/sigma_d)(x-mu_d)+mu_t)) with ties undecided (rule 1); (mu_d, sigma_d) = cached estimates of
the first min(n, N) samples of the array seen on the last scheduled refresh (calls 0, p, 2p.. since reset for
p > 0, call 0 only for p <= 0) or the custom deviation; exact monotonicity on the sorted input; zero-variance
input -> target mean with no floating-point exception; real / imaginary independence of the complex quantiser.
Not decided: the values produced from a zero cached deviation on a NON-constant input (formula undefined).
"""
import itertools
import numpy as np

from mc import engine
from mc.refs import quant as rq

PROPERTY = 'C09'
LEVEL = 'model_checking'

LD = np.longdouble
L = 40                                   # length of the pool arrays used in histories

BITS = [2, 3, 4, 5, 6, 7, 8]
TMEAN = [0, 0.5, -3, 200, -0.7]          # 0.5: a rounding tie; -0.7: rounding and truncation disagree
FWHM = [1, 8, 32, 1000]
NSAMP = [1, 3, 10000]
PERIODS = [-2, -1, 0, 1, 2, 3]
CUSTOM_SCALAR = 2.5
CUSTOM_PAIR = (2.5, 0.75)
SUBPOOLS = {'S1': ('ramp', 'gauss', 'const'), 'S2': ('two', 'huge', 'tiny'), 'S3': ('i8lead', 'u8lead', 'f32off'), 'S4': ('lead01', 'ramp', 'lead07')}
CONSTS = [0.0, 0.1, 1.9, -2.7, 7.0, 1e150, 3.3e150, 1e-150]
CONST_LENS = [1, 2, 3, 7, 10, 100]
ERR = dict(over='raise', invalid='raise', divide='raise')     # underflow is left alone

_POOLS = {}


def pool(seed):
    """tag -> read-only float array; VERIF_SEED changes the content of the seeded arrays only."""
    if seed in _POOLS:
        return _POOLS[seed]
    rng = np.random.default_rng([int(seed), 909])
    P = {}
    P['ramp'] = np.linspace(-3.1, 3.3, L)[rng.permutation(L)]           # crosses many rounding boundaries
    P['gauss'] = np.concatenate([rng.normal(50.0, 10.0, 10), rng.normal(80.0, 25.0, L - 10)])  # prefix != whole
    P['const'] = np.full(L, 0.1)                                         # zero variance
    P['two'] = np.where(rng.permutation(L) < L // 2, 5.0, 9.0)           # two-valued
    P['huge'] = 1e150 * rng.normal(1.0, 1.0, L)
    P['tiny'] = 1e-150 * rng.normal(-2.0, 1.0, L)
    P['single'] = np.array([3.7])
    P['offset'] = 1e7 + rng.normal(0.0, 1.5, L)                         # spread << mean: a one-pass variance cancels
    P['offset5'] = -3e5 + np.linspace(-2.0, 2.0, L)[rng.permutation(L)]
    lg = rng.normal(-4.0, 3.0, 10040)
    lg[10000:] += 1e6                                                    # only a whole-array estimator sees this
    P['long'] = lg
    # other sample types: integer voltages whose leading samples are constant (the estimate then comes back in the input's
    # own type), small unsigned integers, single- and half-precision voltages on an offset
    P['i8lead'] = np.array([127, 127, 127, 126, 0, -128, 5, -7, 100, 64] + [int(v) for v in rng.integers(-128, 128, L - 10)], dtype=np.int8)
    P['u8lead'] = np.array([200, 200, 200, 198, 199, 200, 201, 255, 0, 17] + [int(v) for v in rng.integers(0, 256, L - 10)], dtype=np.uint8)
    P['i16'] = rng.integers(-30000, 30000, L).astype(np.int16)
    P['f32off'] = (4096.0 + np.linspace(-2.0, 2.0, L)[rng.permutation(L)]).astype(np.float32)
    P['f16off'] = (300.0 + np.linspace(-4.0, 4.0, L)[rng.permutation(L)]).astype(np.float16)
    # the leading samples (all that the smallest estimate windows see) are one constant whose floating-point mean is
    # inexact (mean([0.1]*3) != 0.1), the rest varies: the estimate window, not the array, decides "zero variance"
    P['lead01'] = np.concatenate([np.full(3, 0.1), np.linspace(-3.1, 3.3, L - 3)[rng.permutation(L - 3)]])
    P['lead07'] = np.concatenate([np.full(3, 0.7), rng.normal(0.7, 2.0, L - 3)])
    for a in P.values():
        a.setflags(write=False)
    _POOLS[seed] = P
    return P


def arr(seed, tag):
    if tag.startswith('c:'):
        _, v, n = tag.split(':')
        a = np.full(int(n), float(v))
        a.setflags(write=False)
        return a
    return pool(seed)[tag]


def _cache_tuple(c):
    """Observable cached estimates of a real object as a hashable tuple (None when empty)."""
    try:
        m, s = c[0], c[1]
    except Exception:
        return ('?', repr(c))
    if m is None and s is None:
        return None
    try:
        return (float(m), float(s))
    except Exception:
        return ('?', repr(c))


def _classify(q, lo, hi):
    mn, mx = q.min(), q.max()
    if mn == mx:
        return 'sat' if mn in (lo, hi) else 'flat'
    return 'mixed'


class _Part(object):
    """Per-component checker: reference state machine + memoised expectations for one real component."""

    def __init__(self, site, cfg, arrays, V, res):
        self.site, self.V, self.res = site, V, res
        self.bits = cfg['bits']
        self.lo, self.hi = rq.q_range(self.bits)
        self.ref = rq.RefRealQuantizer(target_mean=cfg['tm'], target_fwhm=cfg['fwhm'], num_bits=cfg['bits'],
                                       stats_calc_period=cfg['period'], stats_calc_num_samples=cfg['N'],
                                       stats_fn=self._stats)
        self.arrays = arrays
        self.smemo, self.ememo, self.cmemo = {}, {}, {}
        self.order = {}
        for t, a in arrays.items():
            o = np.argsort(a, kind='stable')
            xs = a[o]
            self.order[t] = (o, xs[1:] == xs[:-1], bool(np.all(a == a[0])))

    def _stats(self, x, n, tag):
        k = (tag, n)
        if k not in self.smemo:
            self.smemo[k] = rq.prefix_stats(x, n, tag)
        return self.smemo[k]

    def reset(self):
        self.ref.reset()

    def advance(self, tag, custom):
        """Advance the reference state machine by one call on arrays[tag]."""
        return self.ref.plan(self.arrays[tag], custom, tag)

    def verify(self, plan, tag, q, before, after, hist):
        """Compare the component output q (ndarray) and the observed cache transition of the call described by
        `plan` (the reference's statistics in force).  Returns (ok, exp)."""
        V, x = self.V, self.arrays[tag]
        k = (tag, plan.key())
        exp = self.ememo.get(k)
        if exp is None:
            exp = self.ememo[k] = self.ref.expect(x, plan)
            self.res['ambiguous'] += exp.loose
        # ---- cached estimates (observable state) follow the stated schedule
        if plan.refreshed:
            ck = (after, plan.stats.tag, plan.stats.n)
            good = self.cmemo.get(ck)
            if good is None:
                good = self.cmemo[ck] = (after is not None and after[0] != '?'
                                         and rq.stats_close(after[0], after[1], plan.stats))
            if not good:
                V(self.site, 'cache_not_refreshed', 'call %d since reset is a scheduled refresh: cached estimates %r '
                  'are not the prefix statistics %r of the array just quantised' % (
                      self.ref.schedule.calls - 1, after, plan.stats), hist)
        elif after != before:
            V(self.site, 'cache_refreshed_off_schedule', 'call %d since reset is not a refresh call for period %d but '
              'the cached estimates changed %r -> %r' % (self.ref.schedule.calls - 1, self.ref.schedule.period,
                                                          before, after), hist)
        # ---- output
        ok = True
        o, eqmask, is_const = self.order[tag]
        if q.shape != x.shape:
            V(self.site, 'shape', 'output shape %s for input shape %s' % (q.shape, x.shape), hist)
            return False, exp
        if ((q < exp.lo) | (q > exp.hi)).any():
            bad = np.nonzero((q < exp.lo) | (q > exp.hi))[0]
            ok = False
            j = int(bad[0])
            if q[j] < self.lo or q[j] > self.hi:
                V(self.site, 'out_of_range', 'q[%d]=%d outside [%d, %d]' % (j, q[j], self.lo, self.hi), hist)
            elif exp.zero_dev:
                V(self.site, 'zero_variance_not_target_mean',
                  'zero-variance input %r (x%d), cached estimates %r: q[%d]=%d, but the target mean %r rounds/clips '
                  'to [%d, %d]' % (float(x[0]), len(x), after, j, q[j], self.ref.target_mean, exp.lo[j], exp.hi[j]),
                  hist)
            else:
                V(self.site, 'value_mismatch',
                  'x[%d]=%r: q=%d, reference pre-rounding value %.17g (eps %.3g) admits [%d, %d]; statistics in force: '
                  '%r custom_std=%r (%d of %d samples differ)' % (j, float(x[j]), q[j], float(exp.y[j]),
                                                                  float(exp.eps[j]), exp.lo[j], exp.hi[j],
                                                                  plan.stats, plan.custom_std, len(bad), len(x)), hist)
        qs = q[o]
        if len(qs) > 1 and ((qs[1:] < qs[:-1]).any() or (eqmask & (qs[1:] != qs[:-1])).any()):
            ok = False
            pairs = rq.monotone_violations(x, q)
            i, j = pairs[0]
            V(self.site, 'not_monotone', 'x[%d]=%r <= x[%d]=%r but q=%d, %d (decreasing, or equal inputs with '
              'different outputs)' % (i, float(x[i]), j, float(x[j]), q[i], q[j]), hist)
        return ok, exp


def _int_component(site, name, a, V, hist):
    """Complex quantiser components come back as floats: demand finite integer values, return int64."""
    a = np.asarray(a)
    if not np.all(np.isfinite(a)):
        V(site, 'nan_output', '%s part of the output is not finite' % name, hist)
        return None
    r = np.rint(a)
    if not np.array_equal(r, a):
        V(site, 'not_integer', '%s part of the output has non-integer values' % name, hist)
        return None
    return r.astype(np.int64)


def _refused_call(obj, cache_of, V, site, h, counters, also=None):
    """A call the quantiser refuses (voltages=None raises at a refresh point and at any other) is not a call: the cached
    estimates are as before and -- checked by the calls that follow against the reference, which does not count it -- so is
    the refresh schedule.  Returns False when the history cannot be continued."""
    before = cache_of()
    try:
        obj.quantize(None)
    except Exception:
        counters['refused_calls'] = counters.get('refused_calls', 0) + 1
        if cache_of() != before:
            V(site, 'refused_call_changed_cache', 'quantize(None) raised but changed the cached estimates %r -> %r' % (before, cache_of()), h)
            return False
        if also is not None:
            # a second refusal: admissible voltages with an inadmissible custom-deviation argument (a sequence of one value);
            # if the library accepts it the history is simply not continued (what it then means is not specified)
            what, call = also
            try:
                call()
            except Exception:
                counters['refused_calls'] += 1
                if cache_of() != before:
                    V(site, 'refused_call_changed_cache', '%s raised but changed the cached estimates %r -> %r' % (what, before, cache_of()), h)
                    return False
                return True
            counters['refusal_not_refused'] = counters.get('refusal_not_refused', 0) + 1
            return False
        return True
    counters['refusal_not_refused'] = counters.get('refusal_not_refused', 0) + 1
    return False


def case_hist(c):
    """One configuration; all operation sequences of length c['depth'] over {q(a0), q(a1), q(a2), reset}."""
    import setigen.voltage.quantization as Q
    seed = c['seed']
    P = pool(seed)
    tags = SUBPOOLS[c['sub']]
    kind, p, depth = c['kind'], c['period'], c['depth']
    res = {'viol': [], 'ambiguous': 0, 'n': 0, 'transitions': 0, 'traces': 0}
    seen_fail = set()

    def V(site, failure, detail, hist):
        if (site, failure) in seen_fail:
            return
        seen_fail.add((site, failure))
        res['viol'].append({'site': site, 'failure': failure,
                            'detail': detail + ' | history=%s' % (hist,),
                            'params': dict(c, only=list(hist))})

    kw = dict(target_mean=c['tm'], target_fwhm=c['fwhm'], num_bits=_typed(c, c['bits']), stats_calc_period=_typed(c, p),
              stats_calc_num_samples=_typed(c, c['N']))
    lo, hi = rq.q_range(c['bits'])
    arrays = {t: P[t] for t in tags}
    if kind == 'real':
        site = 'RealQuantizer.quantize'
        custom = {'none': None, 'scalar': CUSTOM_SCALAR, 'scalar_f32': np.float32(CUSTOM_SCALAR), 'scalar_0d': np.array(CUSTOM_SCALAR),
                  'scalar_i64': np.int64(3)}[c['custom']]
        ops = [(t,) for t in tags]
        part = _Part(site, c, arrays, V, res)
        parts = [part]
    else:
        site = 'ComplexQuantizer.quantize'
        custom = {'none': None, 'scalar': CUSTOM_SCALAR, 'pair': CUSTOM_PAIR, 'scalar_f32': np.float32(CUSTOM_SCALAR),
                  'scalar_0d': np.array(CUSTOM_SCALAR), 'scalar_i64': np.int64(3), 'pair_arr': np.array(CUSTOM_PAIR),
                  'pair_list': list(CUSTOM_PAIR)}[c['custom']]
        cr, ci = rq.split_custom_stds(custom)
        ops = [(tags[0], tags[1]), (tags[0], tags[2]), (tags[1], tags[2])]
        zs = [P[a] + 1j * P[b] for a, b in ops]
        for z in zs:
            z.setflags(write=False)
        part_r = _Part(site, c, arrays, V, res)
        part_i = _Part(site, c, arrays, V, res)
        parts = [part_r, part_i]
        proj = ({}, {})                   # component history -> digest of its outputs and caches (bit for bit)
    states, outcomes = set(), set()
    counters = dict(calls=0, resets=0, refresh_calls=0, stale_calls=0, undecided_calls=0, zero_dev_calls=0,
                    state_revealing_calls=0, fp_flag_nonconstant=0)
    revealing = 0

    def phase(ix):
        if ix == 'na':
            return ix
        return ix if p > 0 else ('fresh' if ix == 0 else 'frozen')

    done = {}            # verified history prefix -> (output bytes, caches) of its last operation, or FAIL
    FAIL = 'FAIL'
    is_real = kind == 'real'
    cls_obj = Q.RealQuantizer if is_real else Q.ComplexQuantizer

    def run(hist, strict):
        """Execute one complete history on a fresh real object.  Every history prefix is verified in full the first
        time it is executed; later executions of the same prefix must reproduce it bit for bit.  Returns 'fp' if a
        floating-point exception was raised for a NON-constant input under strict mode (the history is then re-run
        leniently)."""
        obj = cls_obj(**kw)
        for pt in parts:
            pt.reset()
        prev = [None, None]
        ph = ([], [])
        held = []        # results of earlier calls, held without copying (as `[q.quantize(b) for b in blocks]` would) + copies
        for step, op in enumerate(hist):
            h = hist[:step + 1]
            known = done.get(h)
            if known is FAIL:
                return None
            if op == 3:
                obj._reset_cache()
                for pt in parts:
                    pt.reset()
                prev = [None, None]
                if not is_real:
                    ph[0].append('X'); ph[1].append('X')
                if known is None:
                    counters['resets'] += 1
                sig = ('reset',)
            elif is_real:
                tag = ops[op][0]
                x = arrays[tag]
                if c.get('refuse') and not _refused_call(obj, lambda: _cache_tuple(obj.stats_cache), V, site, h, counters):
                    done[h] = FAIL
                    return None
                plan = part.advance(tag, custom)
                const_in = part.order[tag][2] and plan.data_std == 0      # the stated zero-variance case
                before = _cache_tuple(obj.stats_cache)
                try:
                    with np.errstate(**(ERR if (strict or const_in) else {})):
                        q = obj.quantize(x) if custom is None else obj.quantize(x, custom_std=custom)
                except FloatingPointError as e:
                    if const_in:
                        V(site, 'fp_error_zero_variance', 'zero-variance input %r: %s' % (float(x[0]), e), h)
                        done[h] = FAIL
                        return None
                    counters['fp_flag_nonconstant'] += 1
                    return 'fp'
                except Exception as e:
                    V(site, 'raised', '%s: %s' % (type(e).__name__, e), h)
                    done[h] = FAIL
                    return None
                after = _cache_tuple(obj.stats_cache)
                counters['calls'] += 1
                if not isinstance(q, np.ndarray) or q.dtype.kind not in 'iu':
                    V(site, 'not_integer', 'output is %s dtype %s' % (type(q).__name__, getattr(q, 'dtype', None)), h)
                    done[h] = FAIL
                    return None
                sig = (q.tobytes(), after)
                for hq, hc in held:
                    if hq.shape != hc.shape or not np.array_equal(hq, hc):
                        V(site, 'returned_array_overwritten', 'the result of an earlier call was modified by this call', h)
                        done[h] = FAIL
                        return None
                held.append((q, q.copy()))
                if known is None:
                    ok, exp = part.verify(plan, tag, q, before, after, h)
                    _account(plan, exp, q, tag, prev[0])
                    if not ok:
                        done[h] = FAIL
                        return None
                prev[0] = tag
            else:
                ta, tb = ops[op]
                z = zs[op]
                if c.get('refuse') and not _refused_call(obj, lambda: (_cache_tuple(obj.stats_cache_r), _cache_tuple(obj.stats_cache_i)),
                                                         V, site, h, counters,
                                                         also=('quantize(z, custom_stds=[2.5])',
                                                               lambda: obj.quantize(zs[(op + 1) % len(zs)],
                                                                                    custom_stds=[2.5]))):
                    done[h] = FAIL
                    return None
                plan_r, plan_i = part_r.advance(ta, cr), part_i.advance(tb, ci)
                const_in = (part_r.order[ta][2] and plan_r.data_std == 0 and
                            part_i.order[tb][2] and plan_i.data_std == 0)
                b_r, b_i = _cache_tuple(obj.stats_cache_r), _cache_tuple(obj.stats_cache_i)
                try:
                    with np.errstate(**(ERR if (strict or const_in) else {})):
                        q = obj.quantize(z) if custom is None else obj.quantize(z, custom_stds=custom)
                except FloatingPointError as e:
                    if const_in:
                        V(site, 'fp_error_zero_variance', 'zero-variance input: %s' % e, h)
                        done[h] = FAIL
                        return None
                    counters['fp_flag_nonconstant'] += 1
                    return 'fp'
                except Exception as e:
                    V(site, 'raised', '%s: %s' % (type(e).__name__, e), h)
                    done[h] = FAIL
                    return None
                a_r, a_i = _cache_tuple(obj.stats_cache_r), _cache_tuple(obj.stats_cache_i)
                counters['calls'] += 1
                ph[0].append(ta); ph[1].append(tb)
                if not isinstance(q, np.ndarray):
                    V(site, 'not_integer', 'output is %s' % type(q).__name__, h)
                    done[h] = FAIL
                    return None
                sig = (q.tobytes(), a_r, a_i)
                for hq, hc in held:
                    if hq.shape != hc.shape or not np.array_equal(hq, hc):
                        V(site, 'returned_array_overwritten', 'the result of an earlier call was modified by this call', h)
                        done[h] = FAIL
                        return None
                held.append((q, q.copy()))
                if known is None:
                    qr = _int_component(site, 'real', np.real(q), V, h)
                    qi = _int_component(site, 'imaginary', np.imag(q), V, h)
                    if qr is None or qi is None:
                        done[h] = FAIL
                        return None
                    ok1, exp = part_r.verify(plan_r, ta, qr, b_r, a_r, h)
                    _account(plan_r, exp, qr, ta, prev[0])
                    ok2, exp = part_i.verify(plan_i, tb, qi, b_i, a_i, h)
                    _account(plan_i, exp, qi, tb, prev[1])
                    # independence, bit for bit: a component's outputs and cache are a function of that component's
                    # own history (all complex histories with the same projection must agree)
                    for k, (qq, cc) in enumerate(((qr, a_r), (qi, a_i))):
                        key = tuple(ph[k])
                        dig = (qq.tobytes(), cc)
                        old = proj[k].get(key)
                        if old is None:
                            proj[k][key] = (dig, h)
                        elif old[0] != dig:
                            nm = ('real', 'imaginary')[k]
                            V(site, 'component_dependence',
                              '%s output / cache after the %s-part history %s differs between the complex histories '
                              '%s and %s (only the other component differs)' % (nm, nm, key, old[1], h), h)
                            ok1 = False
                    if not (ok1 and ok2):
                        done[h] = FAIL
                        return None
                prev[0], prev[1] = ta, tb
            if known is None:
                done[h] = sig
                # ---- canonical state of the REAL object after the operation
                if is_real:
                    ix = getattr(obj, 'stats_calc_indices', 'na')
                    states.add((phase(ix), _cache_tuple(obj.stats_cache)))
                    outcomes.add('real/p=%d/%s' % (p, phase(ix)))
                else:
                    ir = getattr(getattr(obj, 'quantizer_r', None), 'stats_calc_indices', 'na')
                    ii = getattr(getattr(obj, 'quantizer_i', None), 'stats_calc_indices', 'na')
                    states.add((phase(ir), phase(ii), _cache_tuple(obj.stats_cache_r),
                                _cache_tuple(obj.stats_cache_i)))
                    outcomes.add('complex/p=%d/%s/%s' % (p, phase(ir), phase(ii)))
                res['transitions'] += 1
            elif known != sig:
                V(site, 'history_not_reproducible', 'the same history executed twice on fresh objects gave different '
                  'outputs / caches at its last operation (hidden shared state)', h)
                done[h] = FAIL
                return None
        return None

    def _account(plan, exp, q, tag, prev_tag):
        nonlocal revealing
        if plan.refreshed:
            counters['refresh_calls'] += 1
        else:
            counters['stale_calls'] += 1
        if not exp.decided:
            counters['undecided_calls'] += 1
            cls = 'undecided'
        else:
            cls = 'zero' if exp.zero_dev else _classify(q, lo, hi)
            if exp.zero_dev:
                counters['zero_dev_calls'] += 1
        outcomes.add('%s/%s/%s' % (kind, 'fresh' if plan.refreshed else 'stale', cls))
        # state-revealing: decided, >= 2 distinct output values, not the first call since reset, and the previous
        # call quantised a different array (so using the wrong one of {stale, fresh} estimates changes the output)
        if exp.decided and cls == 'mixed' and prev_tag is not None and prev_tag != tag:
            counters['state_revealing_calls'] += 1
            revealing += 1

    if c.get('only') is not None:
        hists = [tuple(c['only'])]
    else:
        hists = itertools.product(range(4), repeat=depth)
    for hist in hists:
        if run(hist, True) == 'fp':
            run(hist, False)
        res['traces'] += 1
    res['n'] = counters['calls']
    res['states'] = len(states)
    res['outcomes'] = sorted(outcomes)
    res['extra'] = counters
    if revealing:
        res['nontrivial'] = [engine.sha({k: v for k, v in c.items() if k != 'only'})]
    return res


# ------------------------------------------------------------------------------------------ stateless forms
SUPPLIED = ['est', 'sup:fixed', 'sup:own', 'sup:zero', 'sup:f32', 'sup:f16']      # f32 / f16: the supplied statistics as narrow numpy scalars
CPAIRS = [('ramp', 'gauss'), ('ramp', 'const'), ('gauss', 'const'), ('const', 'ramp'), ('huge', 'tiny'),
          ('two', 'huge'), ('c:0.1:7', 'c:1.9:7'), ('c:1e+150:100', 'c:-2.7:100'), ('single', 'c:0.1:1')]


def _func_tags():
    tags = ['ramp', 'gauss', 'const', 'two', 'huge', 'tiny', 'single', 'long', 'offset', 'offset5', 'i8lead', 'u8lead', 'i16', 'f32off', 'f16off',
            'lead01', 'lead07']
    for v in CONSTS:
        for n in CONST_LENS:
            tags.append('c:%r:%d' % (v, n))
    return tags


def _typed(c, v):
    """Integer settings as the caller's numeric type: a Python int, or (sub-box) a numpy fixed-width integer when it fits."""
    nt = c.get('itype')
    if not nt or isinstance(v, float) or v is None:
        return v
    info = np.iinfo(nt)
    return np.dtype(nt).type(v) if info.min <= int(v) <= info.max else int(v)


def case_func(c):
    """quantize_real (estimating or with supplied statistics) / quantize_complex on one array, all targets."""
    import setigen.voltage.quantization as Q
    seed, bits, N, form = c['seed'], c['bits'], c['N'], c['form']
    lo, hi = rq.q_range(bits)
    res = {'viol': [], 'ambiguous': 0, 'n': 0, 'outcomes': set()}
    counters = dict(undecided_calls=0, zero_dev_calls=0, fp_flag_nonconstant=0)
    seen_fail = set()
    nontriv = False

    def V(site, failure, detail, sub):
        if (site, failure) in seen_fail:
            return
        seen_fail.add((site, failure))
        res['viol'].append({'site': site, 'failure': failure, 'detail': detail + ' | %s' % (sub,),
                            'params': dict(c, only=sub)})

    def check_part(site, x, q, st, dm, ds, tm, tstd, mean_est, std_est, sub):
        nonlocal nontriv
        exp = rq.expect(x, dm, ds, tm, tstd, bits, stats_maxabs=st.maxabs if st is not None else 0.0,
                        mean_estimated=mean_est, std_estimated=std_est)
        res['ambiguous'] += exp.loose
        if q.shape != x.shape:
            V(site, 'shape', 'output shape %s for input shape %s' % (q.shape, x.shape), sub)
            return
        if not exp.decided:
            counters['undecided_calls'] += 1
            res['outcomes'].add('%s/undecided' % form)
        else:
            cls = 'zero' if exp.zero_dev else _classify(q, lo, hi)
            counters['zero_dev_calls'] += int(exp.zero_dev)
            res['outcomes'].add('%s/%s' % (form, cls))
            if cls == 'mixed':
                nontriv = True
        bad = rq.mismatches(q, exp)
        if len(bad):
            j = int(bad[0])
            if q[j] < lo or q[j] > hi:
                V(site, 'out_of_range', 'q[%d]=%d outside [%d, %d]' % (j, q[j], lo, hi), sub)
            elif exp.zero_dev:
                V(site, 'zero_variance_not_target_mean',
                  'zero-variance input %r (x%d): q[%d]=%d, but the target mean %r rounds/clips to [%d, %d]'
                  % (float(x[0]), len(x), j, q[j], tm, exp.lo[j], exp.hi[j]), sub)
            else:
                V(site, 'value_mismatch', 'x[%d]=%r: q=%d, reference pre-rounding value %.17g (eps %.3g) admits '
                  '[%d, %d] with mean=%r std=%r (%d of %d samples differ)'
                  % (j, float(x[j]), q[j], float(exp.y[j]), float(exp.eps[j]), exp.lo[j], exp.hi[j], float(dm),
                     float(ds), len(bad), len(x)), sub)
        pairs = rq.monotone_violations(x, q)
        if pairs:
            i, j = pairs[0]
            V(site, 'not_monotone', 'x[%d]=%r <= x[%d]=%r but q=%d, %d (decreasing, or equal inputs with different '
              'outputs)' % (i, float(x[i]), j, float(x[j]), q[i], q[j]), sub)

    def call(site, fn, const_in, sub):
        for strict in (True, False):
            try:
                with np.errstate(**(ERR if (strict or const_in) else {})):
                    return fn()
            except FloatingPointError as e:
                if const_in:
                    V(site, 'fp_error_zero_variance', 'zero-variance input: %s' % e, sub)
                    return None
                counters['fp_flag_nonconstant'] += 1
            except Exception as e:
                V(site, 'raised', '%s: %s' % (type(e).__name__, e), sub)
                return None
        return None

    only = c.get('only')
    for tm in TMEAN:
        for fwhm in FWHM:
            tstd = float(rq.target_std_from_fwhm(fwhm))
            if form == 'quantize_real':
                site = 'quantize_real'
                x = arr(seed, c['arr'])
                const_in = bool(np.all(x == x[0]))
                st = rq.prefix_stats(x, N, c['arr'])
                for mode in SUPPLIED:
                    sub = [tm, fwhm, mode]
                    if only is not None and sub != only:
                        continue
                    kw = dict(target_mean=tm, target_std=tstd, num_bits=_typed(c, bits), stats_calc_num_samples=_typed(c, N))
                    if mode == 'est':
                        dm, ds, me, se, s_ = st.mean, st.std, True, True, st
                    else:
                        if mode in ('sup:fixed', 'sup:f32', 'sup:f16'):
                            dm, ds = 0.25, 1.5           # (both exact in half precision)
                        elif mode == 'sup:own':
                            dm, ds = float(st.mean), float(st.std)
                        else:                      # zero deviation, mean deliberately NOT the sample value
                            dm, ds = float(x[0]) + 1.5, 0.0
                        ty_ = {'sup:f32': np.float32, 'sup:f16': np.float16}.get(mode, float)
                        kw.update(data_mean=ty_(dm), data_std=ty_(ds))
                        me, se, s_ = False, False, None
                    q = call(site, lambda: Q.quantize_real(x, **kw), const_in and ds == 0, sub)
                    res['n'] += 1
                    if q is None:
                        continue
                    if not isinstance(q, np.ndarray) or q.dtype.kind not in 'iu':
                        V(site, 'not_integer', 'output is %s dtype %s' % (type(q).__name__, getattr(q, 'dtype', None)),
                          sub)
                        continue
                    check_part(site, x, q, s_, dm, ds, tm, tstd, me, se, sub)
            else:
                site = 'quantize_complex'
                sub = [tm, fwhm, 'est']
                if only is not None and sub != only:
                    continue
                ta, tb = c['arr']
                xr, xi = arr(seed, ta), arr(seed, tb)
                z = xr + 1j * xi
                const_in = bool(np.all(z == z[0]))      # then both estimated deviations are zero
                q = call(site, lambda: Q.quantize_complex(z, target_mean=tm, target_std=tstd, num_bits=_typed(c, bits),
                                                          stats_calc_num_samples=_typed(c, N)), const_in, sub)
                res['n'] += 1
                if q is None:
                    continue
                qr = _int_component(site, 'real', np.real(q), lambda s, f, d, h: V(s, f, d, sub), None)
                qi = _int_component(site, 'imaginary', np.imag(q), lambda s, f, d, h: V(s, f, d, sub), None)
                if qr is None or qi is None:
                    continue
                for x, qq, t in ((xr, qr, ta), (xi, qi, tb)):
                    st = rq.prefix_stats(x, N, t)
                    check_part(site, x, qq, st, st.mean, st.std, tm, tstd, True, True, sub)
    res['outcomes'] = sorted(res['outcomes'])
    res['extra'] = counters
    if nontriv:
        res['nontrivial'] = [engine.sha({k: v for k, v in c.items() if k != 'only'})]
    return res


# ------------------------------------------------------------------------------------------ enumeration
def _hist_cases(seed, depth, subs, bits=BITS, tmean=TMEAN, fwhm=FWHM, nsamp=NSAMP, periods=PERIODS, targets=None):
    out = []
    tg = targets if targets is not None else [(a, b) for a in tmean for b in fwhm]
    for sub in subs:
        for kind, customs in (('real', ['none', 'scalar']), ('complex', ['none', 'scalar', 'pair'])):
            for p in periods:
                for N in nsamp:
                    for custom in customs:
                        for b in bits:
                            for tm, fw in tg:
                                out.append(dict(kind=kind, sub=sub, period=p, N=N, custom=custom, bits=b, tm=tm,
                                                fwhm=fw, depth=depth, seed=seed))
    return out


def run(ctx):
    seed = ctx.seed
    boxes = []
    T4 = [(0, 32), (0.5, 8), (-3, 1), (200, 1000), (-0.7, 8)]
    if ctx.tier == 'quick':
        # A: the complete parameter product, every sequence of length 3
        boxes.append(dict(name='A', depth=3, subs=['S1']))
        # B: every sequence of length 4 (second refresh of period 3), four contrasting target pairs
        boxes.append(dict(name='B', depth=4, subs=['S1'], nsamp=[3, 10000], targets=T4))
        # C: the extreme-magnitude sub-pool
        boxes.append(dict(name='C', depth=3, subs=['S2'], targets=T4))
        # D: the other sample types (integer voltages with constant leading samples, single precision on an offset)
        boxes.append(dict(name='D', depth=3, subs=['S3'], targets=T4, nsamp=[3, 10000], bits=[8, 4]))
        # E: arrays whose estimate window is constant (inexact mean) while the array is not
        boxes.append(dict(name='E', depth=3, subs=['S4'], targets=T4[:2], nsamp=[3], bits=[8, 4]))
    else:
        # A: the complete parameter product, every sequence of length 4;  A5: length 5 where the deviation
        # estimate is not trivially zero (N > 1);  B: length 6 (period 5 included), reduced targets / bit widths
        boxes.append(dict(name='A', depth=4, subs=['S1']))
        boxes.append(dict(name='A5', depth=5, subs=['S1'], nsamp=[3, 10000]))
        boxes.append(dict(name='B', depth=6, subs=['S1'], nsamp=[3, 10000], periods=PERIODS + [5], targets=T4,
                          bits=[2, 3, 5, 8]))
        boxes.append(dict(name='C', depth=4, subs=['S2']))
        boxes.append(dict(name='D', depth=4, subs=['S3'], nsamp=[3, 10000]))
        boxes.append(dict(name='E', depth=4, subs=['S4'], targets=T4, nsamp=[3, 10000], bits=[8, 4, 2]))
    bounds = []
    fcases = []
    for N in NSAMP:
        for b in BITS:
            for t in _func_tags():
                fcases.append(dict(form='quantize_real', arr=t, bits=b, N=N, seed=seed))
            for pr in CPAIRS:
                fcases.append(dict(form='quantize_complex', arr=list(pr), bits=b, N=N, seed=seed))
    # integer settings (bit width, prefix length, refresh period) handed over as numpy fixed-width integers: sub-box
    fcases += [dict(fc, itype=it) for fc in fcases if fc['N'] == NSAMP[0] and (fc['arr'] == _func_tags()[0] or fc['arr'] == list(CPAIRS[0]))
               for it in ('uint8', 'int8', 'int16', 'int64')]
    ctx.pmap(case_func, fcases, label='func')
    bounds.append(dict(box='F', cases=len(fcases), arrays=len(_func_tags()), complex_pairs=len(CPAIRS),
                       targets=len(TMEAN) * len(FWHM), supplied_modes=SUPPLIED))
    for b in boxes:
        name = b.pop('name')
        cases = _hist_cases(seed, **b)
        if name == 'A':
            # every quantising call preceded by a refused one (sub-box: first target pair, all periods / N / customs / bits)
            cases += [dict(cc, refuse=True) for cc in cases if (cc['tm'], cc['fwhm']) == (TMEAN[0], FWHM[0])]
            # the supplied deviation in the other carriers a caller may hold it in (numpy scalars of other widths, a 0-d array,
            # a list / an array for the pair) -- 2.5 is exact in single precision
            cases += [dict(cc, custom=cu) for cc in cases if (cc['tm'], cc['fwhm']) == (TMEAN[0], FWHM[0]) and cc['custom'] == 'scalar'
                      and not cc.get('refuse') for cu in (('scalar_f32', 'scalar_0d', 'scalar_i64') + (('pair_arr', 'pair_list') if cc['kind'] == 'complex' else ()))]
            # the class interface with its integer settings as numpy fixed-width integers (sub-box: first target pair)
            cases += [dict(cc, itype=it) for cc in cases if (cc['tm'], cc['fwhm']) == (TMEAN[0], FWHM[0]) and cc['custom'] == 'none'
                      for it in ('uint8', 'int8', 'int16', 'int64')]
        bounds.append(dict(box=name, configurations=len(cases), histories_per_configuration=4 ** b['depth'], **b))
        ctx.pmap(case_hist, cases, chunk={3: 16, 4: 4, 5: 2}.get(b['depth'], 1), label='hist-' + name)
    return ctx.finish(
        rule='E-HIST: for every configuration (kind real/complex, sub-pool, period, stats_calc_num_samples, custom '
             'deviation none/scalar/pair, bits, target mean, target fwhm) of each box, ALL 4^depth operation sequences '
             'over {quantize(a0), quantize(a1), quantize(a2), _reset_cache()} are replayed on a fresh real quantiser '
             'and compared call by call with the reference state machine; E-PROD: quantize_real (estimating / supplied '
             'statistics) and quantize_complex on every pool array x bits x N x targets.  A configuration is '
             'non-trivial when >= 1 of its calls is state-revealing: decided by the reference, >= 2 distinct output '
             'values, not the first call since the last reset, previous call on a different array (stale and fresh '
             'estimates give different outputs); a stateless case is non-trivial when an output has >= 2 distinct '
             'values.  evaluations = quantiser calls executed on the implementation.',
        assumptions=['magnitudes within 1e-150 .. 4e150 (DESIGN section 8)',
                     'deviation = population standard deviation (ddof 0) of the leading min(n, N) samples',
                     'ties undecided: any integer within 0.5 + eps of the long-double pre-rounding value is accepted, '
                     'eps = %d u x first-order condition number (u = 2^-53)' % rq.K_COND,
                     'zero cached/supplied deviation with a NON-constant input: formula undefined, values not compared '
                     '(counted in undecided_calls); range, dtype, monotonicity still demanded',
                     'floating-point exceptions (overflow/invalid/divide) are violations only for a zero-variance input '
                     'quantised with a zero deviation, as stated; elsewhere they are counted (fp_flag_nonconstant) and '
                     'the outputs decide',
                     'non-empty one-dimensional inputs; custom deviations positive'],
        coverage_extra={'bounds': {'boxes': bounds, 'bits': BITS, 'target_mean': TMEAN, 'target_fwhm': FWHM,
                                   'stats_calc_num_samples': NSAMP, 'stats_calc_period': PERIODS,
                                   'custom_std': [None, CUSTOM_SCALAR, list(CUSTOM_PAIR)], 'subpools': SUBPOOLS},
                        'alphabet': ['quantize(a0)', 'quantize(a1)', 'quantize(a2)', '_reset_cache()'],
                        'max_depth': max(b['depth'] for b in boxes)})
