"""
C04 -- Recorded files are well-formed GUPPI RAW and all readers agree on framing.

E-PROD over header dictionaries (every header length modulo 32 cards, value kinds, DIRECTIO settings,
template on/off, override attempts) and block/file/antenna counts, plus E-ENV: every permutation of the
directory listing handed to the library's block counter.  Oracle: mc/refs/guppi.py (independent parser).
"""
import os, itertools, glob as _glob
import numpy as np

from mc import engine, vharness
from mc.refs import guppi

PROPERTY = 'C04'
LEVEL = 'exploration'

OWNED = ['NBITS', 'NPOL', 'OBSNCHAN', 'NANTS', 'BLOCSIZE', 'TBIN', 'CHAN_BW', 'OBSBW', 'OBSFREQ', 'SCANLEN']
BOGUS = {'NBITS': 16, 'NPOL': 7, 'OBSNCHAN': 999, 'NANTS': 9, 'BLOCSIZE': 12344, 'TBIN': 1.0, 'CHAN_BW': 9.5,
         'OBSBW': 1.0, 'OBSFREQ': 1.0, 'SCANLEN': 1.0}

VALUE_KINDS = [
    ('int', 7), ('negint', -12345), ('float', 2.5), ('smallfloat', 1e-05), ('str', 'abc'),
    ('longstr', 'x' * 68), ('quoted', "'quoted  '"), ('bigint', 2**40), ('float17', 0.1 + 0.2), ('str', ''),
]
KEYS = ['A', 'BB', 'CCC', 'DDDD', 'EEEEE', 'FFFFFF', 'GGGGGGG', 'HHHHHHHH']


def user_cards(n, off):
    d = {}
    exp = {}
    if n >= 3:
        # valid keywords that merely begin with / contain "END" must not end the header for any reader
        d['ENDTIME'] = 77
        exp['ENDTIME'] = ('int', 77)
        d['XEND'] = 'END'
        exp['XEND'] = ('str', 'END')
        n = n - 2
    for j in range(n):
        base = KEYS[j % 8]
        key = (base[:max(1, len(base) - len(str(j)))] + str(j))[:8] if j >= 8 else base
        # make keys unique and <= 8 chars
        key = ('%s%d' % (base[0], j))[:8] if j >= 8 else base
        kind, val = VALUE_KINDS[(j + off) % len(VALUE_KINDS)]
        d[key] = val
        if kind in ('str', 'longstr'):
            exp[key] = ('str', val.rstrip())
        elif kind == 'quoted':
            exp[key] = ('str', val.strip("'").rstrip())
        elif kind in ('int', 'negint', 'bigint'):
            exp[key] = ('int', val)
        else:
            exp[key] = ('float', val)
    return d, exp


def _cfg(c):
    return dict(M=c.get('M', 2), P=c.get('P', 4), start_chan=c.get('start_chan', 0), num_chans=c.get('num_chans', 2),
                r=c.get('r', 2), num_subblocks=c.get('num_subblocks', 1), bpf=c['bpf'], npol=c.get('npol', 2),
                source=c.get('source', 'ant'), bits=c.get('bits', 8), sample_rate=c.get('sample_rate', 1024.0),
                asc=c.get('asc', True), fch1=c.get('fch1', 0.0))


def _relclose(a, b, rel=1e-12):
    return abs(float(a) - float(b)) <= rel * max(abs(float(a)), abs(float(b)), 1e-300)


def case_record(c):
    import setigen.voltage as sv
    from setigen.voltage import raw_utils, waterfall as sv_waterfall
    viol = []

    def V(failure, detail, site='RawVoltageBackend.record'):
        viol.append({'site': site, 'failure': failure, 'detail': detail})

    cfg = _cfg(c)
    try:
        be, src, dig, fb, rq = vharness.make_backend(cfg, seed=1 + c.get('seed', 0))
    except Exception as e:
        V('constructor_raised', '%s: %s' % (type(e).__name__, e), site='RawVoltageBackend')
        return {'viol': viol}
    hd, exp_user = user_cards(c['n_user'], c.get('kind_off', 0))
    dio = c['directio']
    if dio != 'absent':
        hd['DIRECTIO'] = {'0': 0, '1': 1, 's1': '1', 's0': '0', 'sx': 'abc', 'f1': 1.0, 'f0': 0.0}[dio]      # 'abc': not a number -- the library falls back to 0
    start_pkt = 0
    if c.get('user_pktidx') is not None:
        hd['PKTIDX'] = c['user_pktidx']
        start_pkt = int(c['user_pktidx'])
    first_pkt = start_pkt
    if c.get('user_pktstart') is not None:
        # a caller-supplied PKTSTART is a user card like any other: kept as given (0 included), PKTSTOP follows it
        hd['PKTSTART'] = c['user_pktstart']
        first_pkt = int(c['user_pktstart'])
    if c.get('override'):
        for k in c['override']:
            hd[k] = BOGUS[k]
    wd = engine.workdir()
    stem = os.path.join(wd, ('c04_%s' if not c.get('glob_stem') else 'c04_run[1]_%s') % engine.sha(c))      # (sub-box) a stem with glob metacharacters
    for fn in guppi.list_files(stem):
        os.remove(fn)
    nb, bpf = c['num_blocks'], c['bpf']
    try:
        be.record(output_file_stem=stem, num_blocks=nb, length_mode='num_blocks', header_dict=dict(hd),
                  digitize=True, load_template=c['template'], verbose=False)
    except Exception as e:
        V('record_raised', '%s: %s' % (type(e).__name__, e))
        return {'viol': viol}
    files = guppi.list_files(stem)
    res = {'viol': viol}
    try:
        nants = vharness.nants_of(cfg)
        nfiles = -(-nb // bpf)
        want_names = ['%s.%04d.raw' % (stem, i) for i in range(nfiles)]
        if files != want_names:
            V('file_names', 'files %s, expected %d consecutively numbered files' % ([os.path.basename(f) for f in files], nfiles))
            return res
        parsed = []
        for fn in files:
            try:
                parsed.append(guppi.parse_file(fn))
            except guppi.GuppiFormatError as e:
                V('framing', '%s: %s (header cards incl. END: see case; DIRECTIO=%s template=%s)' % (
                    os.path.basename(fn), e, dio, c['template']))
                return res
        counts = [len(p) for p in parsed]
        want_counts = [bpf] * (nb // bpf) + ([nb % bpf] if nb % bpf else [])
        if counts != want_counts:
            V('blocks_per_file', 'blocks per file %s, expected %s' % (counts, want_counts))
            return res
        spb = cfg['r'] * cfg['M']
        bsz = vharness.block_size_of(cfg)
        chan_bw = cfg['sample_rate'] / cfg['P'] * (1 if cfg['asc'] else -1)
        tbin = cfg['P'] / cfg['sample_rate']
        allb = [b for p in parsed for b in p]
        ncards0 = allb[0]['n_cards']
        for bi, b in enumerate(allb):
            h = b['header']
            if b['n_cards'] != ncards0:
                V('header_len_varies', 'block %d has %d cards, block 0 has %d' % (bi, b['n_cards'], ncards0))
            keys = [k for k, _ in b['cards']]
            if len(set(keys)) != len(keys):
                V('duplicate_cards', 'duplicate keys in header of block %d' % bi)
            # pipeline-owned fields
            def need(k):
                if k not in h:
                    V('owned_missing', '%s missing in block %d' % (k, bi))
                    return False
                return True
            if need('BLOCSIZE') and h['BLOCSIZE'] != bsz:
                V('owned_field', 'BLOCSIZE=%r expected %d' % (h['BLOCSIZE'], bsz))
            if need('NBITS') and h['NBITS'] != cfg['bits']:
                V('owned_field', 'NBITS=%r expected %d' % (h['NBITS'], cfg['bits']))
            if need('NPOL') and h['NPOL'] not in ((cfg['npol'], 4) if cfg['npol'] == 2 else (1,)):
                V('owned_field', 'NPOL=%r expected %d' % (h['NPOL'], cfg['npol']))
            if need('OBSNCHAN') and h['OBSNCHAN'] != cfg['num_chans'] * nants:
                V('owned_field', 'OBSNCHAN=%r expected %d' % (h['OBSNCHAN'], cfg['num_chans'] * nants))
            if nants > 1:
                if need('NANTS') and h['NANTS'] != nants:
                    V('owned_field', 'NANTS=%r expected %d' % (h['NANTS'], nants))
            elif 'NANTS' in h and h['NANTS'] != 1:
                V('owned_field', 'NANTS=%r for a single antenna' % (h['NANTS'],))
            if need('TBIN') and not _relclose(h['TBIN'], tbin, 1e-13):
                V('owned_field', 'TBIN=%r expected %r' % (h['TBIN'], tbin))
            if need('CHAN_BW') and not _relclose(h['CHAN_BW'], chan_bw * 1e-6):
                V('owned_field', 'CHAN_BW=%r expected %r' % (h['CHAN_BW'], chan_bw * 1e-6))
            if need('OBSBW') and not _relclose(h['OBSBW'], chan_bw * cfg['num_chans'] * 1e-6):
                V('owned_field', 'OBSBW=%r expected %r' % (h['OBSBW'], chan_bw * cfg['num_chans'] * 1e-6))
            cf = (cfg['fch1'] + (cfg['start_chan'] + (cfg['num_chans'] - 1) / 2) * chan_bw) * 1e-6
            if need('OBSFREQ') and not _relclose(h['OBSFREQ'], cf):
                V('owned_field', 'OBSFREQ=%r expected %r' % (h['OBSFREQ'], cf))
            if need('SCANLEN') and not _relclose(h['SCANLEN'], nb * spb * tbin):
                V('owned_field', 'SCANLEN=%r expected %r' % (h['SCANLEN'], nb * spb * tbin))
            # packet counters
            if need('PKTIDX') and h['PKTIDX'] != start_pkt + bi * spb:
                V('pktidx', 'block %d PKTIDX=%r expected %d' % (bi, h['PKTIDX'], start_pkt + bi * spb))
            if need('PKTSTART') and h['PKTSTART'] != first_pkt:
                V('pktstart', 'block %d PKTSTART=%r expected %d' % (bi, h['PKTSTART'], first_pkt))
            if need('PKTSTOP') and h['PKTSTOP'] != first_pkt + nb * spb:
                V('pktstop', 'block %d PKTSTOP=%r expected %d' % (bi, h['PKTSTOP'], first_pkt + nb * spb))
            # user cards preserved
            for k, (kind, val) in exp_user.items():
                if k not in h:
                    V('user_card_lost', 'user card %s missing' % k)
                elif kind == 'str':
                    if str(h[k]).rstrip() != val:
                        V('user_card_changed', 'user card %s=%r expected %r' % (k, h[k], val))
                elif h[k] != val:
                    V('user_card_changed', 'user card %s=%r expected %r' % (k, h[k], val))
        # ---------------- third opinion: blimpy's GuppiRaw walks the same headers (never the sole oracle; it may
        # sys.exit on a card it cannot split, which is caught and counted)
        blimpy_ok = blimpy_declined = 0
        try:
            import io, contextlib
            from blimpy.guppi import GuppiRaw
            for fi, fn in enumerate(files):
                with contextlib.redirect_stdout(io.StringIO()):
                    try:
                        g = GuppiRaw(fn)
                        for b in parsed[fi]:
                            if b['hdr_off'] % 512:
                                # blimpy aligns the payload to an ABSOLUTE multiple of 512, which coincides with padding the
                                # header only when the header starts on a 512 boundary (always true for real DIRECTIO files)
                                continue
                            g.file_obj.seek(b['hdr_off'])
                            hdr, data_idx = g.read_header()
                            if data_idx != b['payload_off'] or int(hdr['BLOCSIZE']) != b['blocsize']:
                                V('blimpy_disagrees', '%s: blimpy places the payload of the block at byte %d at %d (BLOCSIZE %s); '
                                  'independent parser: %d (%d)' % (os.path.basename(fn), b['hdr_off'], data_idx, hdr.get('BLOCSIZE'),
                                                                   b['payload_off'], b['blocsize']))
                                break
                            blimpy_ok += 1
                        g.file_obj.close()
                    except SystemExit:
                        blimpy_declined += 1
                    except (ValueError, KeyError):
                        blimpy_declined += 1
        except ImportError:
            pass
        # ---------------- the library's own readers against the independent parser
        for fi, fn in enumerate(files):
            try:
                rh = raw_utils.read_header(fn)
            except Exception as e:
                V('raised', 'read_header: %s: %s' % (type(e).__name__, e), site='raw_utils.read_header')
                continue
            b0 = parsed[fi][0]
            if list(rh.keys()) != [k for k, _ in b0['cards']]:
                V('keys', 'read_header keys differ from the cards in the file', site='raw_utils.read_header')
            else:
                for k, raw in b0['cards']:
                    want = raw.strip().strip("'").strip()
                    if str(rh[k]).strip() != want:
                        V('value', 'read_header[%s]=%r, card says %r' % (k, rh[k], want), site='raw_utils.read_header')
                        break
            try:
                nbf = raw_utils.get_blocks_in_file(fn)
            except Exception as e:
                V('raised', '%s: %s' % (type(e).__name__, e), site='raw_utils.get_blocks_in_file')
                continue
            if nbf != len(parsed[fi]):
                V('count', 'get_blocks_in_file(%s)=%d, file holds %d blocks (header %d bytes incl. %d padding, DIRECTIO=%s)'
                  % (os.path.basename(fn), nbf, len(parsed[fi]), b0['hdr_len'], b0['pad'], dio),
                  site='raw_utils.get_blocks_in_file')
        try:
            if raw_utils.get_blocks_per_file(stem) != counts[0]:
                V('count', 'get_blocks_per_file=%d, first file holds %d' % (raw_utils.get_blocks_per_file(stem), counts[0]),
                  site='raw_utils.get_blocks_per_file')
        except Exception as e:
            V('raised', '%s: %s' % (type(e).__name__, e), site='raw_utils.get_blocks_per_file')
        # every permutation of the directory listing (environment enumeration)
        nperm = 0
        if c.get('perms'):
            class _G(object):
                order = None
                @staticmethod
                def glob(pattern, *a, **k):
                    return list(_G.order)

                @staticmethod
                def escape(pathname):
                    import glob as _real_glob
                    return _real_glob.escape(pathname)
            saved = raw_utils.glob
            raw_utils.glob = _G
            try:
                seen_bad = False
                for perm in itertools.permutations(files):
                    _G.order = perm
                    nperm += 1
                    try:
                        tot = raw_utils.get_total_blocks(stem)
                    except Exception as e:
                        V('raised', '%s: %s' % (type(e).__name__, e), site='raw_utils.get_total_blocks')
                        break
                    if tot != nb and not seen_bad:
                        seen_bad = True
                        V('listing_order', 'get_total_blocks=%d with listing order %s; the files hold %d blocks'
                          % (tot, [os.path.basename(p)[-8:-4] for p in perm], nb), site='raw_utils.get_total_blocks')
            finally:
                raw_utils.glob = saved
        else:
            try:
                tot = raw_utils.get_total_blocks(stem)
                if tot != nb:
                    V('count', 'get_total_blocks=%d, files hold %d' % (tot, nb), site='raw_utils.get_total_blocks')
            except Exception as e:
                V('raised', '%s: %s' % (type(e).__name__, e), site='raw_utils.get_total_blocks')
        try:
            rp = raw_utils.get_raw_params(stem, start_chan=cfg['start_chan'])
            wantp = dict(num_bits=cfg['bits'], chan_bw=chan_bw, ascending=cfg['asc'], num_pols=cfg['npol'],
                         block_size=bsz, obs_length=nb * spb * tbin, tbin=tbin, num_antennas=nants,
                         num_chans=cfg['num_chans'], fch1=cfg['fch1'])
            for k, wv in wantp.items():
                gv = rp.get(k)
                ok = (gv == wv) if isinstance(wv, (bool, int)) else (
                    abs(gv - wv) <= 1e-9 * max(abs(wv), abs(chan_bw)))
                if not ok:
                    V('param', 'get_raw_params[%s]=%r, configuration %r' % (k, gv, wv), site='raw_utils.get_raw_params')
        except Exception as e:
            V('raised', '%s: %s' % (type(e).__name__, e), site='raw_utils.get_raw_params')
        # quick-look reducer: header skip (fftlength == int_factor so argument order cannot matter here)
        if cfg['bits'] == 8 and cfg['npol'] == 2 and nants == 1 and spb % 2 == 0:
            N = 2
            pay = guppi.decode_payload(parsed[0][0]['payload'], 1, cfg['num_chans'], 2, 8)[0]   # (chan, T, pol)
            X = pay[:, :(spb // N) * N, :].reshape(cfg['num_chans'], spb // N, N, 2)
            XX = np.fft.fftshift(np.fft.fft(X, axis=2), axes=2) / np.sqrt(N)
            psd = (np.abs(XX) ** 2).sum(axis=3)                     # (chan, T/N, N)
            psd = np.concatenate(list(psd), axis=1)                 # (T/N, chan*N)
            k = (psd.shape[0] // N) * N
            want = psd[:k].reshape(k // N, N, -1).sum(axis=1)
            try:
                got = sv_waterfall.get_waterfall_from_raw(files[0], bsz, cfg['num_chans'], int_factor=N, fftlength=N)
                if got.shape != want.shape or not np.allclose(got, want, rtol=1e-9, atol=1e-9):
                    V('payload_offset', 'quick-look reduction of the first block differs from the reduction of the '
                      'payload at byte %d (header %d bytes incl. %d padding, DIRECTIO=%s)'
                      % (parsed[0][0]['payload_off'], parsed[0][0]['hdr_len'], parsed[0][0]['pad'], dio),
                      site='waterfall.get_waterfall_from_raw')
            except Exception as e:
                V('raised', '%s: %s' % (type(e).__name__, e), site='waterfall.get_waterfall_from_raw')
        res['n'] = 1 + nperm
        res['extra'] = {'listing_permutations': nperm, 'files_parsed': len(files), 'blocks_parsed': len(allb),
                        'blimpy_blocks_agreeing': blimpy_ok, 'blimpy_declined_files': blimpy_declined}
        res['nontrivial'] = [engine.sha(c)]
        res['outcomes'] = ['cards%%32=%d/pad=%d/files=%d' % (ncards0 % 32, allb[0]['pad'], len(files))]
        return res
    finally:
        for fn in files:
            try:
                os.remove(fn)
            except OSError:
                pass


def case_sequence(c):
    """Histories: several recordings from the SAME backend object with different header settings; every
    recording must be well-formed on its own terms (nothing carried over from the previous one)."""
    from setigen.voltage import raw_utils
    viol = []

    def V(failure, detail, site='RawVoltageBackend.record'):
        viol.append({'site': site, 'failure': failure, 'detail': detail})
    cfg = _cfg(dict(c, bpf=2))
    try:
        be, src, dig, fb, rq = vharness.make_backend(cfg, seed=5)
    except Exception as e:
        V('constructor_raised', '%s: %s' % (type(e).__name__, e), site='RawVoltageBackend')
        return {'viol': viol}
    wd = engine.workdir()
    stem = os.path.join(wd, 'c04s_%s' % engine.sha(c))
    spb = cfg['r'] * cfg['M']
    outs = []
    for step, (dio, template, n_user, nb) in enumerate(c['steps']):
        for fn in guppi.list_files(stem):
            os.remove(fn)
        hd, exp_user = user_cards(n_user, step)
        if dio != 'absent':
            hd['DIRECTIO'] = {'0': 0, '1': 1, 's1': '1'}[dio]
        tag = 'recording %d of %s' % (step, c['steps'])
        failed_before = False
        if c.get('fail_before') == step:
            # FAULT: the recording attempted just before this one dies after its first file (the second file name is taken
            # by a directory); it had other cards, another padding mode and another length.  What follows is a new recording.
            blocker = stem + '.0001.raw'
            os.mkdir(blocker)
            try:
                be.record(output_file_stem=stem, num_blocks=3, length_mode='num_blocks',
                          header_dict={'FAILKEY': 77, 'DIRECTIO': 0 if dio in ('1', 's1', 'absent') else 1, 'FAILSTR': 'gone'},
                          load_template=not template, verbose=False)
            except Exception:
                failed_before = True
            finally:
                os.rmdir(blocker)
                for fn in guppi.list_files(stem):
                    os.remove(fn)
            tag += ' (after a recording that failed part-way)' if failed_before else ' (after an extra recording)'
        try:
            be.record(output_file_stem=stem, num_blocks=nb, length_mode='num_blocks', header_dict=hd,
                      load_template=template, verbose=False)
        except Exception as e:
            V('record_raised', '%s: %s: %s' % (tag, type(e).__name__, e))
            break
        try:
            blocks = [b for fn in guppi.list_files(stem) for b in guppi.parse_file(fn)]
        except guppi.GuppiFormatError as e:
            V('framing_after_history', '%s: %s' % (tag, e))
            break
        if len(blocks) != nb:
            V('blocks_after_history', '%s: %d blocks on disk' % (tag, len(blocks)))
            break
        want_dio = (dio in ('1', 's1')) or (dio == 'absent' and template)
        for bi, b in enumerate(blocks):
            if (b['pad'] > 0) and not want_dio:
                V('padding_after_history', '%s: block %d padded although DIRECTIO is %s' % (tag, bi, dio))
            if b['header'].get('PKTIDX') != bi * spb:
                V('pktidx_after_history', '%s: block %d PKTIDX=%r expected %d' % (tag, bi, b['header'].get('PKTIDX'), bi * spb))
            for k, (kind, val) in exp_user.items():
                if k not in b['header']:
                    V('user_card_lost', '%s: user card %s missing' % (tag, k))
            if 'FAILKEY' in b['header'] or 'FAILSTR' in b['header']:
                V('cards_from_failed_recording', '%s: block %d carries cards of the recording that failed before it' % (tag, bi))
        try:
            if raw_utils.get_total_blocks(stem) != nb or raw_utils.get_blocks_in_file(guppi.list_files(stem)[0]) != min(nb, 2):
                V('count', '%s: library block counters disagree with the files' % tag, site='raw_utils.get_total_blocks')
        except Exception as e:
            V('raised', '%s: %s: %s' % (tag, type(e).__name__, e), site='raw_utils.get_total_blocks')
        outs.append(len(blocks[0]['cards']))
        if viol:
            break
    for fn in guppi.list_files(stem):
        os.remove(fn)
    return {'viol': viol, 'n': len(c['steps']), 'nontrivial': [engine.sha(c)], 'outcomes': ['seq/%s' % outs]}


def case_restem(c):
    """Histories on the FILE side: a stem is recorded, read by every reader, removed, recorded again with another
    configuration (other blocks-per-file, block count, orientation, user cards) and read again: every reader must describe
    the files that are on disk now."""
    from setigen.voltage import raw_utils
    viol = []

    def V(failure, detail, site):
        viol.append({'site': site, 'failure': failure, 'detail': detail})
    wd = engine.workdir()
    stem = os.path.join(wd, 'c04r_%s' % engine.sha(c))
    n = 0
    for step, st in enumerate(c['steps']):
        for fn in guppi.list_files(stem):
            os.remove(fn)
        cfg = _cfg(dict(bpf=st['bpf'], asc=st['asc'], fch1=st['fch1'], start_chan=st['start_chan'], num_chans=st['num_chans'],
                        P=8, npol=st['npol'], source=st['source']))
        be, src, dig, fb, rq = vharness.make_backend(cfg, seed=3 + step)
        hd = {'STEPKEY': step, 'DIRECTIO': st['dio']}
        be.record(output_file_stem=stem, num_blocks=st['nb'], length_mode='num_blocks', header_dict=hd, load_template=False, verbose=False)
        files = guppi.list_files(stem)
        parsed = [guppi.parse_file(fn) for fn in files]
        tag = 'recording %d (%s) to a stem used before' % (step, st) if step else 'first recording'
        try:
            rh = raw_utils.read_header(files[0])
            if str(rh.get('STEPKEY', '')).strip() != str(step) or int(rh['OBSNCHAN']) != st['num_chans'] * vharness.nants_of(cfg):
                V('stale', '%s: read_header returns STEPKEY=%r OBSNCHAN=%r' % (tag, rh.get('STEPKEY'), rh.get('OBSNCHAN')), 'raw_utils.read_header')
            if raw_utils.get_blocks_per_file(stem) != len(parsed[0]):
                V('stale', '%s: get_blocks_per_file=%r, first file holds %d' % (tag, raw_utils.get_blocks_per_file(stem), len(parsed[0])),
                  'raw_utils.get_blocks_per_file')
            if raw_utils.get_total_blocks(stem) != st['nb']:
                V('stale', '%s: get_total_blocks=%r, files hold %d' % (tag, raw_utils.get_total_blocks(stem), st['nb']), 'raw_utils.get_total_blocks')
            for fi, fn in enumerate(files):
                if raw_utils.get_blocks_in_file(fn) != len(parsed[fi]):
                    V('stale', '%s: get_blocks_in_file(%s)=%r, file holds %d' % (tag, os.path.basename(fn), raw_utils.get_blocks_in_file(fn), len(parsed[fi])),
                      'raw_utils.get_blocks_in_file')
            rp = raw_utils.get_raw_params(stem, start_chan=st['start_chan'])
            chan_bw = cfg['sample_rate'] / cfg['P'] * (1 if st['asc'] else -1)
            if bool(rp['ascending']) != bool(st['asc']) or abs(rp['fch1'] - st['fch1']) > 1e-9 * max(abs(st['fch1']), abs(chan_bw)) \
                    or rp['num_chans'] != st['num_chans'] or rp['num_pols'] != st['npol']:
                V('stale', '%s: get_raw_params -> %s' % (tag, {k: rp[k] for k in ('ascending', 'fch1', 'num_chans', 'num_pols')}), 'raw_utils.get_raw_params')
        except Exception as e:
            V('raised', '%s: %s: %s' % (tag, type(e).__name__, e), 'raw_utils')
        n += 1
    for fn in guppi.list_files(stem):
        os.remove(fn)
    return {'viol': viol, 'n': n, 'nontrivial': [engine.sha(c)], 'outcomes': ['restem/%d' % len(c['steps'])]}


def case_from_data(c):
    """A recording is used as the input of a second backend (from_data) that is asked for more / fewer / as many blocks as
    the input holds: the files it writes must be well-formed and their pipeline-owned fields (SCANLEN, PKTSTOP, BLOCSIZE,
    ...) must describe what was actually written."""
    import setigen.voltage as sv
    viol = []

    def V(failure, detail, site='RawVoltageBackend.record'):
        viol.append({'site': site, 'failure': failure, 'detail': detail})
    wd = engine.workdir()
    stem_in = os.path.join(wd, 'c04fi_%s' % engine.sha(c))
    stem_out = os.path.join(wd, 'c04fo_%s' % engine.sha(c))
    cfg = _cfg(dict(bpf=c['bpf'], P=8, num_chans=3, npol=c['npol'], bits=c['bits'], r=4, source='ant'))
    be, src, dig, fb, rq = vharness.make_backend(cfg, seed=2)
    for fn in guppi.list_files(stem_in) + guppi.list_files(stem_out):
        os.remove(fn)
    n = 0
    try:
        be.record(output_file_stem=stem_in, num_blocks=c['nb'], length_mode='num_blocks',
                  header_dict={'DIRECTIO': c['dio'], 'TELESCOP': 'GBT', 'OBSERVER': 'ME', 'SRC_NAME': 'VOYAGER'},
                  load_template=False, verbose=False)
        spb = cfg['r'] * cfg['M']
        tbin = cfg['P'] / cfg['sample_rate']
        for req in c['requests']:
            ant = sv.Antenna(sample_rate=cfg['sample_rate'], fch1=0.0, ascending=True, num_pols=c['npol'], seed=4)
            ant.x.add_constant_signal(f_start=150.0, drift_rate=0.0, level=0.2)
            f2 = sv.PolyphaseFilterbank(num_taps=cfg['M'], num_branches=cfg['P'])
            f2.estimate_channelized_stds(factor=50, seed=5)
            b2 = sv.RawVoltageBackend.from_data(stem_in, ant, digitizer=sv.RealQuantizer(), filterbank=f2, start_chan=0, num_subblocks=2)
            for fn in guppi.list_files(stem_out):
                os.remove(fn)
            # user cards, among them the three identity cards the input recording also carries (the first recording wrote
            # TELESCOP / OBSERVER / SRC_NAME): what the caller supplies is what the output says
            ucards = {'TELESCOP': 'MINE', 'OBSERVER': 'YOU', 'SRC_NAME': 'MYSRC', 'FOO': 8} if req % 2 else {}
            b2.record(output_file_stem=stem_out, num_blocks=req, length_mode='num_blocks', header_dict=dict(ucards), load_template=False, verbose=False)
            n += 1
            want = min(req, c['nb'])
            blocks = [b for fn in guppi.list_files(stem_out) for b in guppi.parse_file(fn)]
            if len(blocks) != want:
                V('blocks_per_file', 'from_data recording of %d requested blocks on a %d-block input wrote %d blocks' % (req, c['nb'], len(blocks)))
                continue
            for bi, b in enumerate(blocks):
                h = dict(b['header'])
                lost = {k: h.get(k) for k, v in ucards.items() if str(h.get(k, '')).strip().strip("'").strip() != str(v)}
                if lost:
                    V('user_card_not_preserved', 'recording onto input RAW with header_dict=%r: block %d says %r' % (ucards, bi, lost))
                    break
                for k in ('PKTSTOP', 'PKTSTART', 'PKTIDX', 'BLOCSIZE'):      # inherited input cards may be written as quoted text
                    try:
                        h[k] = int(str(h.get(k, -1)).strip())
                    except ValueError:
                        h[k] = -1
                if not _relclose(float(h.get('SCANLEN', -1)), want * spb * tbin, 1e-12) or h.get('PKTSTOP', -1) - h.get('PKTSTART', 0) != want * spb \
                        or h.get('PKTIDX') != bi * spb or h.get('BLOCSIZE') != vharness.block_size_of(cfg):
                    V('owned_field', 'from_data recording (%d blocks requested, %d in the input, %d written): block %d has SCANLEN=%r '
                      '(written length %r) PKTSTOP-PKTSTART=%r (%d) PKTIDX=%r' % (req, c['nb'], want, bi, h.get('SCANLEN'), want * spb * tbin,
                                                                                  h.get('PKTSTOP', -1) - h.get('PKTSTART', 0), want * spb, h.get('PKTIDX')))
                    break
    except guppi.GuppiFormatError as e:
        V('framing', 'from_data recording: %s' % e)
    except Exception as e:
        V('record_raised', 'from_data recording: %s: %s' % (type(e).__name__, e))
    finally:
        for fn in guppi.list_files(stem_in) + guppi.list_files(stem_out):
            try:
                os.remove(fn)
            except OSError:
                pass
    return {'viol': viol, 'n': n, 'nontrivial': [engine.sha(c)], 'outcomes': ['from_data/%d' % c['nb']]}


def run(ctx):
    T = ctx.tier == 'thorough'
    cases = []
    # Box A: header framing -- every header length modulo 32 cards
    for n_user in range(0, 81 if T else 41):
        for dio in ('absent', '0', '1', 's1') + (('s0',) if T else ()):
            for template in (False, True):
                for source in ('ant', 'arr2'):
                    for off in ((0, 1, 2, 3, 4, 5, 6, 7, 8) if T else (0, 4)):
                        cases.append(dict(box='A', n_user=n_user, kind_off=off, directio=dio, template=template,
                                          source=source, num_blocks=2, bpf=2, bits=8, perms=False))
        if n_user in (0, 7):
            cases.append(dict(box='A', n_user=n_user, kind_off=0, directio='1', template=False, source='ant', num_blocks=3, bpf=2,
                              bits=8, perms=False, glob_stem=True))
        # DIRECTIO given as a float (1.0 / 0.0): the same setting as the integer
        for dio_f in ('f1', 'f0'):
            cases.append(dict(box='A', n_user=n_user, kind_off=0, directio=dio_f, template=False, source='ant', num_blocks=3, bpf=2,
                              bits=8, perms=False))
        # a DIRECTIO card that is not a number (the library announces that it falls back to 0)
        cases.append(dict(box='A', n_user=n_user, kind_off=0, directio='sx', template=False, source='ant', num_blocks=3, bpf=2,
                          bits=8, perms=False))
        if not T:
            # DIRECTIO zero given as a string card ('0'), as it comes back from a header that was read from a file
            cases.append(dict(box='A', n_user=n_user, kind_off=0, directio='s0', template=False, source='ant', num_blocks=2, bpf=2,
                              bits=8, perms=False))
    # Box B: block / file distribution and every listing permutation
    max_files = 6 if T else 4
    for nb in range(1, 7 if T else 6):
        for bpf in (1, 2, 3):
            if -(-nb // bpf) > max_files:
                continue
            for source in ('ant', 'arr2', 'arr3'):
                for bits in (8, 4):
                    for dio in ('0', '1', 'absent'):
                        for template in (False, True):
                            for big in (False, True):
                                # n_user chosen so that one of the cases has an exactly aligned header
                                for n_user in (0, 13, 14, 15, 16):
                                    c = dict(box='B', n_user=n_user, kind_off=1, directio=dio, template=template,
                                             source=source, num_blocks=nb, bpf=bpf, bits=bits, perms=True)
                                    if big:
                                        c.update(P=8, num_chans=4, r=16, M=2)
                                    cases.append(c)
    # Box D: many blocks in one file with unpadded headers (a reader that assumes padding drifts by a whole block)
    for bpf in range(4, 13 if T else 11):
        for dio in ('0', 'absent', '1', 's0'):
            for n_user in (0, 5, 15):
                for source in ('ant', 'arr2'):
                    cases.append(dict(box='D', n_user=n_user, kind_off=0, directio=dio, template=False, source=source,
                                      num_blocks=bpf + (1 if n_user == 5 else 0), bpf=bpf, bits=8, perms=False))
    # Box C: attempts to override pipeline-owned fields, user PKTIDX
    for ov in [[k] for k in OWNED] + [OWNED]:
        for source in ('ant', 'arr2'):
            for template in (False, True):
                for pk in (None, 1000, '2000'):
                    for npol in (1, 2):
                        cases.append(dict(box='C', n_user=3, kind_off=2, directio='1', template=template, source=source,
                                          num_blocks=3, bpf=2, bits=8, perms=False, override=ov, user_pktidx=pk,
                                          npol=npol, asc=(npol == 1), fch1=6e9 if npol == 1 else 0.0, start_chan=0))
    # caller-supplied PKTSTART, zero included, with and without a (different) first PKTIDX
    for pk in (None, 1000, 0):
        for ps in (0, 512):
            for template in (False, True):
                cases.append(dict(box='C', n_user=3, kind_off=2, directio='1', template=template, source='ant',
                                  num_blocks=3, bpf=2, bits=8, perms=False, user_pktidx=pk, user_pktstart=ps,
                                  npol=1, asc=True, fch1=6e9, start_chan=0))
    # the pipeline-owned frequency cards for every first recorded channel (OBSFREQ is the centre of the recorded window)
    for sc in (0, 1, 2, 3):
        for nchan in (1, 2, 3):
            for asc in (True, False):
                cases.append(dict(box='C', n_user=2, kind_off=1, directio='1', template=False, source='ant', num_blocks=2, bpf=2, bits=8,
                                  perms=False, npol=1, asc=asc, fch1=6e9, start_chan=sc, num_chans=nchan, P=16))
    ctx.pmap(case_record, cases)
    # Box E: histories of recordings on one backend object
    settings = [(dio, template, n_user, nb) for dio in ('absent', '0', '1') for template in (False, True)
                for n_user, nb in ((0, 2), (5, 3))]
    seqs = []
    for a in settings:
        for b in settings:
            seqs.append(dict(box='E', steps=[list(a), list(b)], source='ant'))
            # FAULT: a recording that dies part-way, before the first / before the second recording of the history
            seqs.append(dict(box='E', steps=[list(a), list(b)], source='ant', fail_before=1))
            if a == b:
                seqs.append(dict(box='E', steps=[list(a)], source='ant', fail_before=0))
            if T:
                for c3 in settings[::3]:
                    seqs.append(dict(box='E', steps=[list(a), list(b), list(c3)], source='arr2'))
    ctx.pmap(case_sequence, seqs)
    # Box F: the same stem recorded twice (three times in thorough) with different configurations
    confs = [dict(bpf=2, nb=3, asc=True, fch1=0.0, start_chan=0, num_chans=2, npol=2, source='ant', dio=1),
             dict(bpf=3, nb=5, asc=False, fch1=6e9, start_chan=1, num_chans=3, npol=1, source='ant', dio=0),
             dict(bpf=1, nb=2, asc=True, fch1=1e6, start_chan=2, num_chans=1, npol=2, source='arr2', dio=1),
             dict(bpf=4, nb=4, asc=False, fch1=512.0, start_chan=0, num_chans=4, npol=2, source='ant', dio=0)]
    res = []
    for a in confs:
        for b in confs:
            if a is not b:
                res.append(dict(box='F', steps=[a, b]))
                if T:
                    for c3 in confs:
                        if c3 is not b:
                            res.append(dict(box='F', steps=[a, b, c3]))
    ctx.pmap(case_restem, res)
    # Box G: a recording used as the input of a second backend, with requests shorter / equal / longer than the input
    fdc = []
    for nb, bpf in ((1, 1), (3, 2), (4, 2)):
        for npol in (1, 2):
            for bits in (8, 4):
                for dio in (0, 1):
                    fdc.append(dict(box='G', nb=nb, bpf=bpf, npol=npol, bits=bits, dio=dio, requests=[nb, nb + 3, max(1, nb - 1)]))
    ctx.pmap(case_from_data, fdc, chunk=1)
    return ctx.finish(
        rule='complete enumeration of box A (user cards 0..40 x DIRECTIO setting x template x source x value-kind '
             'rotation), box B (num_blocks 1..5 x blocks_per_file 1..3 x source x bits x DIRECTIO x template x '
             'block size x header alignment; every permutation of the listing) and box C (override attempts on each '
             'pipeline-owned field, user PKTIDX); every case is a real recording parsed to EOF by an independent '
             'reader, so every case is non-trivial; distinct = distinct parameter tuples',
        assumptions=['user cards are valid 80-byte cards (keys <= 8 chars, values that fit)',
                     'tiny blocks (4..32 samples per block)', 'NPOL may be written as 2 or 4 for dual polarisation'],
        coverage_extra={'bounds': {'n_user_cards': '0..80' if T else '0..40', 'max_files_permuted': max_files,
                                   'value_kinds': [k for k, _ in VALUE_KINDS], 'owned': OWNED}})
