#!/usr/bin/env python3
"""Regenerates /verif/MANIFEST.json from the table below.  Run after adding a check module."""
import json, os

HERE = os.path.dirname(os.path.dirname(os.path.abspath(__file__)))

# id: (category, technique, text, note, design_ref)
P = {
 'C01': ('exploration', 'bounded exhaustive enumeration of input forms x flags on the real add_signal against a scalar pointwise reference',
         'Complete enumeration of a declared finite box of geometries, input forms (callable/array/list/scalar) for the four components, shipped path/profile families, bounding ranges and all 16 integrate/smearing flag combinations; every case is run on the real Frame.add_signal and compared pixel by pixel with an independent scalar reference evaluator.',
         'Small-scope box; transcendental profiles compared at 1e-9 relative; pixels within epsilon of a profile discontinuity are masked and counted.', '5/C01'),
 'C02': ('model_checking', 'explicit-state exploration of all sub-block/block/file partitions of a recording on the real backend, stage-wise reference pipeline + partition differential',
         'Every (taps, branches, channel window, windows per block, num_subblocks 1..r and non-dividing, blocks_per_file, num_blocks, pols, antenna/array, bits, digitiser) in the box is recorded by the real backend with spy antenna/quantisers; the files are decoded by an independent GUPPI parser and compared with the FIR+DFT definition applied to the observed stream, and all partitions of one configuration must give identical bytes.',
         'Small sizes (<=16 branches, <=6 windows per block); rounding ties accepted either way (pre-rounding value within 0.5+eps).', '5/C02'),
 'C03': ('model_checking', 'explicit-state exploration of operation histories (save/load/get_waterfall/copy/slice/dedrift/pickle) on real frames, independent SIGPROC/HDF5 readers as oracle',
         'Breadth-first exploration of all operation histories up to the depth bound from synthetic roots in both orientations; at every node the frame is saved in both formats and reloaded, and compared with independent parsers of the bytes on disk and with blimpy.',
         'Three geometries, two sizes; float32 payload precision; MJD start-time precision; blimpy/h5py trusted as transport only.', '5/C03'),
 'C04': ('exploration', 'bounded exhaustive enumeration of header dictionaries / block-file counts / every listing permutation, independent GUPPI RAW parser as oracle',
         'Every header length modulo 32 cards, card value kinds, DIRECTIO settings, template on/off, override attempts, block/file/antenna counts in the box is recorded by the real backend; an independent parser walks each file to EOF and the library readers are compared with it under every permutation of the directory listing.',
         'Cards restricted to valid 80-byte cards; block sizes small.', '5/C04'),
 'C05': ('exploration', 'bounded exhaustive enumeration of frame geometries x construction routes against exact rational grids',
         'Complete Cartesian product of (fchans, tchans, df, dt, fch1, orientation, construction route, argument style) built by the real constructors; axes and all derived quantities compared with exact rational arithmetic in ulps, index<->frequency round trip on every channel, opposite-orientation twins compared on axes and injected data.',
         'fch1/df <= 2^36; exact half-channel ties are not decided; sizes up to 1024 channels.', '5/C05'),
 'C06': ('model_checking', 'explicit-state exploration of injection sequences (all orders) on real frames with bit-exact frame-state invariants after every transition',
         'All sequences (and all permutations) of injections up to the depth bound over a pool of signals x bounding ranges on frames with four kinds of prior content; after every transition: data delta == returned array, untouched outside the range, axes/noise stats/metadata/rng state unchanged; superposition at leaves.',
         'Pool of 8 signals x 8 ranges; float32-loaded data compared within one float32 ulp.', '5/C06'),
 'C07': ('exploration', 'bounded exhaustive enumeration of tone placements x channel windows x orientations through the real recording pipeline, header-derived frequency oracle',
         'Every (sample_rate, branches, start_chan, num_chans, orientation, pols, tone bin offsets on/off-bin, drift) in the box is recorded; the RAW file is decoded independently, fine-channelised, and the peak bin mapped through the file\'s own header must be within one fine bin of the injected frequency.',
         'Noise-free tones >=20 dB above everything else; DC-straddling channel and coarse-centre tones excluded as the property states.', '5/C07'),
 'C08': ('model_checking', 'explicit-state exploration of all chunk compositions and all interleavings of two filterbank objects on the real channelize, FIR+DFT definition in long double as oracle',
         'For every (taps, branches, window, input kind) all 2^(c-1) compositions of the stream into chunks, cache=False calls and cache resets at every position, and all interleavings of two objects are executed on the real PolyphaseFilterbank and compared with the one-shot result and with the O(P^2) definition.',
         'taps<=4, branches<=16 (thorough: <=32, including 14/22/26 whose transform length is not 5-smooth), stream <=7 windows.', '5/C08'),
 'C09': ('model_checking', 'explicit-state exploration of all quantiser call sequences x refresh periods on the real quantisers against a reference state machine',
         'All call sequences up to the depth bound over a pool of contrasting arrays, for every bit width 2..8, period (negative, zero, positive), prefix length and target; cached statistics and every output integer compared with an affine-round-clip reference with tie tolerance; monotonicity exact.',
         'Rounding ties accepted either way; inputs NaN-free.', '5/C09'),
 'C10': ('model_checking', 'explicit-state exploration of request/clock operation histories and all compositions of N samples on real DataStream/Antenna objects against an exact-rational timeline model',
         'All operation sequences up to the depth bound over get/set_time/add_time/update_noise/reset_start and all 2^(N-1) compositions of N samples; timestamps compared with a rational clock, noise with an identically seeded reference generator bit for bit, chirps with a long-double closed form at the returned timestamps.',
         'Sample rates up to 3 GHz, start times <= ~100 s; one noise source per stream for the chunk-invariance claim unless stated.', '5/C10'),
 'C11': ('exploration', 'bounded exhaustive enumeration of noise configurations with a spy random generator (environment enumeration) + bookkeeping state machine',
         'Every noise type/argument combination/shape/resolution in the box is run with a spy numpy Generator so the requests made of the random source (distribution, parameters, size) are checked exactly; exact identities (returned == added, floor, SNR inverse) and the noise-estimate bookkeeping over all operation sequences up to the depth bound.',
         'numpy Generator.chisquare/normal are trusted to realise the requested distributions; seeded moment checks at >=7 sigma are auxiliary.', '5/C11'),
 'C12': ('model_checking', 'explicit-state exploration of API histories in one process compared with fresh-interpreter baselines; copy/pickle isolation under all single mutations',
         'All histories up to the depth bound over an alphabet of recording/frame/stream actions; the artefacts of the last action must be bit-identical to the same action alone in a fresh interpreter, and whole histories are run twice; copies/unpickled frames from every route are compared and then isolated under every mutation.',
         'Alphabet of ~10 actions; GPU path excluded.', '5/C12'),
 'C13': ('exploration', 'bounded exhaustive enumeration of start frequency x drift x width x profile x smearing on the real helper against the general injection route',
         'Complete box of start positions (inside/edge/outside), drift rates -4..4 channels per step including 0, widths 0.05..10 channels, five profiles, smearing on/off; add_constant_signal compared with add_signal of the equivalent general signal under the compact/tailed rules of the property.',
         'Two geometries; tailed profiles compared within FWHM/2 of the centre and required to be 0 or equal elsewhere.', '5/C13'),
 'C14': ('model_checking', 'explicit-state exploration of sub-block schedules over independently written RAW inputs with spy quantisers; exact stationarity of the gain',
         'Inputs written by an independent GUPPI writer (8/4 bit, pols, antennas, DIRECTIO, multi-file, partial last file, every byte value); backend built from them for every sub-block count, digitise on/off and requested length; decode, framing, stage-wise requantisation and bit-identical gain across all sub-blocks/blocks/recordings are checked.',
         'Small blocks; rounding ties accepted either way.', '5/C14'),
 'C15': ('model_checking', 'explicit-state exploration of all request compositions x delay vectors x clock operations on the real MultiAntennaArray against the alignment formula',
         'Every delay vector in {0..3}^n for n<=3 (plus omitted default), 1/2 pols, all compositions of N samples into requests larger than the maximum delay, set_time/reset_start/add_time at every cut; every output sample compared with own(k)+bg(k+max-delay).',
         'N<=12 samples, delays<=3.', '5/C15'),
 'C16': ('fault_enumeration', 'exhaustive fault enumeration: every callback raising at every invocation index, over a box of cadences x signals x flags, against shifted single-frame injection',
         'Cadences of 1..4 frames with gaps, slices and label subsets; all 16 flag combinations; each user callable raises on its k-th invocation for every k; after every injection and every fault each frame\'s time axis must be bit-identical to before, and each frame must receive the time-shifted single-frame signal.',
         'Start-time offsets up to 1.6e9 s handled with conditioning-scaled tolerances.', '5/C16'),
 'C17': ('exploration', 'bounded exhaustive enumeration of all slice bounds / drift rates / integration options on real frames against index-level references',
         'All slice bounds 0<=l<r<=fchans, a drift-rate ladder of both signs up to and past the frame limit, all integration axis/mode/normalise/as_frame combinations, on three geometries and both orientations, compared with direct index arithmetic on the parent.',
         'Small frames (<= 6x9).', '5/C17'),
 'C18': ('model_checking', 'explicit-state BFS over list-operation histories on real Cadence/OrderedCadence objects against a Python list model; TLA+ model with every TLC edge replayed on the implementation (thorough)',
         'All operation sequences up to the depth bound over a pool of compatible/incompatible frames and non-frames with every index in [-len-2, len+2]; after every transition the cadence must equal the list by identity and order, guards must reject without adding, labels must follow insertion positions.',
         'Depth <=4/5; pool of 3 compatible + 4 incompatible frames + 3 non-frames.', '5/C18'),
 'C19': ('exploration', 'bounded exhaustive enumeration of (nchans, fchans, shift, tchans, header) and all array shapes/tiles/shifts/trim flags against a tiling reference',
         'Files written by an independent SIGPROC writer for every (nchans 4..24, fchans, shift, foff, fch1); the generator/on-disk splitter must yield exactly floor((nchans-fchans)/s)+1 pieces with the right channels; all array shapes <=6x6 with all tile sizes/shifts/trim flags.',
         'Small files (<=24 channels, 3 integrations).', '5/C19'),
 'C20': ('exploration', 'bounded exhaustive enumeration of backend constructor parameters and durations in exact rational arithmetic + spy-antenna recordings',
         'Complete box of (sample_rate, branches, taps, channels, antennas, pols, bits, samples per block, num_blocks, durations at/around block multiples); attributes, header SCANLEN/PKTSTOP and sample draws compared with exact integer/rational references; helpers compared with the backend.',
         'Durations within 1e-9 of a block boundary may resolve either way (as the property states).', '5/C20'),
}

BUILT = sorted(f[:-3].upper() for f in os.listdir(os.path.join(HERE, 'mc', 'checks'))
               if f.startswith('c') and f.endswith('.py') and f[1:-3].isdigit())
ENABLED = [l.strip() for l in open(os.path.join(HERE, 'tools', 'enabled.txt')) if l.strip()]

checks, na = [], []
for pid in sorted(P):
    cat, tech, text, note, ref = P[pid]
    if pid in BUILT and pid in ENABLED:
        checks.append({
            'property_id': pid,
            'quick_cmd': './check %s --tier quick' % pid,
            'thorough_cmd': './check %s --tier thorough' % pid,
            'evidence_file': '/verif/evidence/%s.json' % pid,
            'replay_cmd_template': './check %s --replay {path}' % pid,
            'engine': 'mc',
            'level_claimed': {'category': cat, 'text': text, 'design_ref': 'DESIGN.md section ' + ref},
            'level_note': note,
            'technique': tech,
        })
    else:
        na.append({'property_id': pid, 'reason': 'check not built yet in this tree (planned: %s); not a limitation of the technique' % tech})

doc = {
 'version': 1,
 'setup_cmd': './setup.sh',
 'hooks': {
   'guard': 'SETIGEN_VERIF',
   'enable': 'no source hooks are needed: every seam is reached from outside (objects passed in, subclasses, module attributes patched by the harness); ./check exports SETIGEN_VERIF=1 for uniformity',
   'baseline_off_cmd': 'cd /repo && /venv/bin/python -m pytest -ra -q -p no:cacheprovider --timeout=900 --continue-on-collection-errors',
   'source_commits': [],
   'add_only': True,
 },
 'engines': [
   {'name': 'mc', 'path': '/verif/mc', 'serves_properties': [c['property_id'] for c in checks],
    'kind_free_text': 'hand-written explicit-state / bounded-exhaustive explorer for Python run directly on the implementation (process-pool sharded product enumerator, history BFS with replay-rebuilt states, composition schedules, environment/fault enumerators); TLC model + full edge replay for C18 thorough'},
 ],
 'checks': checks,
 'not_applicable': na,
 'notes': 'All checks run /repo\'s working tree through /venv/bin/python (PYTHONPATH=/repo first). VERIF_REPO=<dir> redirects a run to a scratch copy (mutation runs only). Known findings: /verif/known_findings.json.',
}
with open(os.path.join(HERE, 'MANIFEST.json'), 'w') as f:
    json.dump(doc, f, indent=1)
    f.write('\n')
print('claimed:', [c['property_id'] for c in checks])
print('not claimed:', [n['property_id'] for n in na])
